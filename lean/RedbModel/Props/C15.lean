import RedbModel.Model.KeyType
import RedbModel.Lemmas.KeyType
import RedbModel.Model.KeyVal
import RedbModel.Lemmas.KeyVal
import RedbModel.Lemmas.KeyValOrd
/-!
# C15 — Built-in key types order correctly and separators are valid

Property theorems about the model `RedbModel/Model/KeyType.lean` of `src/types.rs`,
`src/tuple_types.rs`, `src/complex_types.rs`, `src/types/uuid.rs` and `branch_separator`.
`t` ranges over every descriptor `KT` (integers of every width and sign, bool, char, str,
byte slices and arrays, Option, fixed arrays, tuples, nested arbitrarily); `a b c` over all valid
encodings.
-/
namespace Redb.Key

/-- The byte-level comparison is a total order on valid encodings (reflexive, antisymmetric,
transitive — the pair and triple quantifier of the property). -/
theorem c15_cmp_total_order (t : KT) : CmpLaws t := cmp_laws t

/-- The separator computed for any two keys `a < b` is a valid encoding `s` of the same type
with `a ≤ s < b` and no longer than `a`. -/
theorem c15_sep_contract (t : KT) (a b : Bytes)
    (ha : valid t a = true) (hb : valid t b = true) (hlt : cmp t a b = .lt) :
    valid t (sep t a b) = true ∧ cmp t a (sep t a b) ≠ .gt ∧ cmp t (sep t a b) b = .lt ∧
      (sep t a b).length ≤ a.length := by
  have h := sep_contract t a b ha hb hlt
  simp only [sepOk, Bool.and_eq_true, bne_iff_ne, ne_eq, beq_iff_eq, decide_eq_true_eq] at h
  exact ⟨h.1.1.1, h.1.1.2, h.1.2, h.2⟩

/-- The same for the separator actually stored in branch pages. -/
theorem c15_branch_separator_contract (t : KT) (a b : Bytes)
    (ha : valid t a = true) (hb : valid t b = true) (hlt : cmp t a b = .lt) :
    sepOk t a b (branchSeparator t a b) = true := branchSeparator_contract t a b ha hb hlt

/-- Fixed-width key types never get a shortened branch key (it would corrupt the stride). -/
theorem c15_branch_separator_fixed (t : KT) (w : Nat) (a b : Bytes) (h : fixedWidth t = some w) :
    branchSeparator t a b = a := branchSeparator_fixed t w a b h

/-- `min_encoded_key` is a valid encoding that sorts below (or equal to) every other one. -/
theorem c15_min_key_least (t : KT) (m : Bytes) (h : minKey t = some m) :
    valid t m = true ∧ ∀ a, valid t a = true → cmp t m a ≠ .gt := minKey_least t m h

/-- Valid encodings of a fixed-width type have exactly that width. -/
theorem c15_valid_fixed_width (t : KT) (w : Nat) (a : Bytes)
    (h : fixedWidth t = some w) (ha : valid t a = true) : a.length = w := valid_fixedWidth t w a h ha

/-! ## Value level

`Model/KeyVal.lean`: values `Val`, `wellTyped t v` (v is a value of the key type `t`, within the
range of the Rust type and within the sizes the Rust encoder accepts without panicking),
`encode t v` (`Value::as_bytes`), `decode t d` (`Value::from_bytes`), `vcmp t a b` (Rust's native
`Ord` of the values: integers numerically, `false < true`, `char` by scalar value, `str` by scalar
values lexicographically, byte slices lexicographically, `None < Some`, arrays and tuples
lexicographically by component). `t` ranges over every descriptor, `a b v` over all well-typed
values. -/

/-- Every encoded value is a valid encoding of its type. -/
theorem c15_encode_valid (t : KT) (v : Val) (h : wellTyped t v = true) :
    valid t (encode t v) = true := encode_valid t v h

/-- Every value decodes to what was encoded. -/
theorem c15_decode_encode (t : KT) (v : Val) (h : wellTyped t v = true) :
    decode t (encode t v) = some v := decode_encode t v h

/-- The byte-level comparison orders encoded keys exactly as the values themselves order. -/
theorem c15_encoding_order (t : KT) (a b : Val)
    (ha : wellTyped t a = true) (hb : wellTyped t b = true) :
    cmp t (encode t a) (encode t b) = vcmp t a b := encoding_order t a b ha hb

/-- The value order is a genuine total order: it answers `eq` on equal values only. -/
theorem c15_value_order_eq_iff (t : KT) (a b : Val)
    (ha : wellTyped t a = true) (hb : wellTyped t b = true) :
    vcmp t a b = .eq ↔ a = b := vcmp_eq_iff t a b ha hb

/-- Hence the encoder is an order embedding: encodings compare equal only for equal values. -/
theorem c15_encoding_cmp_eq_iff (t : KT) (a b : Val)
    (ha : wellTyped t a = true) (hb : wellTyped t b = true) :
    cmp t (encode t a) (encode t b) = .eq ↔ a = b := by
  rw [encoding_order t a b ha hb]; exact vcmp_eq_iff t a b ha hb

/-- The `str` instance spelled out: the byte order of UTF-8 (which is what Rust's `Ord for str`
and `Key::compare` of `&str`/`String` use) is the lexicographic order of the scalar values. -/
theorem c15_utf8_order (a b : List Nat)
    (ha : a.all isScalar = true) (hb : b.all isScalar = true) :
    lexCmp (utf8Enc a) (utf8Enc b) = lexBy (fun (p q : Nat) => compare p q) a b :=
  lexCmp_utf8Enc a b ha hb

/-- Iteration order equals value order: a sequence of keys is strictly ascending for the
byte-level comparator iff the values are strictly ascending. -/
theorem c15_iteration_order (t : KT) (vs : List Val) (h : ∀ v ∈ vs, wellTyped t v = true) :
    List.Pairwise (fun x y => cmp t (encode t x) (encode t y) = .lt) vs ↔
      List.Pairwise (fun x y => vcmp t x y = .lt) vs := by
  apply List.Pairwise.iff_of_mem
  intro x y hx hy
  rw [encoding_order t x y (h x hx) (h y hy)]

/-- The separator contract restated on values: for values `a < b` the separator of their
encodings is a valid encoding `s` with `a ≤ s < b` (byte-level order) and no longer than `a`. -/
theorem c15_sep_contract_values (t : KT) (a b : Val)
    (ha : wellTyped t a = true) (hb : wellTyped t b = true) (hlt : vcmp t a b = .lt) :
    valid t (sep t (encode t a) (encode t b)) = true ∧
      cmp t (encode t a) (sep t (encode t a) (encode t b)) ≠ .gt ∧
      cmp t (sep t (encode t a) (encode t b)) (encode t b) = .lt ∧
      (sep t (encode t a) (encode t b)).length ≤ (encode t a).length :=
  c15_sep_contract t _ _ (encode_valid t a ha) (encode_valid t b hb)
    (by rw [encoding_order t a b ha hb]; exact hlt)

/-- Lookups route correctly: with the branch key `s` stored between the values `a < b`, every key
`k ≤ a` compares `≤ s` (goes left) and every key `k ≥ b` compares `> s` (goes right). -/
theorem c15_branch_separator_routes_values (t : KT) (a b k : Val)
    (ha : wellTyped t a = true) (hb : wellTyped t b = true) (hk : wellTyped t k = true)
    (hlt : vcmp t a b = .lt) :
    (vcmp t k a ≠ .gt →
      cmp t (encode t k) (branchSeparator t (encode t a) (encode t b)) ≠ .gt) ∧
    (vcmp t b k ≠ .gt →
      cmp t (branchSeparator t (encode t a) (encode t b)) (encode t k) = .lt) := by
  have va := encode_valid t a ha
  have vb := encode_valid t b hb
  have vk := encode_valid t k hk
  have hs := branchSeparator_contract t _ _ va vb (by rw [encoding_order t a b ha hb]; exact hlt)
  simp only [sepOk, Bool.and_eq_true, bne_iff_ne, ne_eq, beq_iff_eq, decide_eq_true_eq] at hs
  obtain ⟨⟨⟨s1, s2⟩, s3⟩, _⟩ := hs
  have laws := ordLaws_cmp t
  constructor
  · intro h
    rw [← encoding_order t k a hk ha] at h
    exact laws.trans_le _ _ _ vk va s1 h s2
  · intro h
    rw [← encoding_order t b k hb hk] at h
    exact laws.trans_lt' _ _ _ s1 vb vk s3 h

/-! ### non-vacuity: concrete values (nested `Option`, arrays, tuples, multi-byte UTF-8, extremes) -/

section Examples

/-- `(Option<&str>, [i16; 2], u8)` -/
private def tEx : KT := .tuple [.option .str, .array 2 (.sint 2), .uint 1]
/-- `(Some("a€😀"), [-2, 300], 7)` -/
private def vEx1 : Val :=
  .tup [.some (.str [0x61, 0x20AC, 0x1F600]), .arr [.sint (-2), .sint 300], .uint 7]
/-- `(Some("a€😀"), [-2, 301], 0)` -/
private def vEx2 : Val :=
  .tup [.some (.str [0x61, 0x20AC, 0x1F600]), .arr [.sint (-2), .sint 301], .uint 0]

example : wellTyped tEx vEx1 = true := by decide
example : wellTyped tEx vEx2 = true := by decide
-- varint length 9 of the first element, tag 1, UTF-8 of 1, 3 and 4 bytes, two's complement
example : encode tEx vEx1 =
    [9, 1, 0x61, 0xE2, 0x82, 0xAC, 0xF0, 0x9F, 0x98, 0x80, 0xFE, 0xFF, 0x2C, 0x01, 7] := by decide
example : vcmp tEx vEx1 vEx2 = .lt := by decide
example : decode tEx (encode tEx vEx1) = some vEx1 := by rfl
example : cmp tEx (encode tEx vEx1) (encode tEx vEx2) = .lt := by
  rw [c15_encoding_order tEx vEx1 vEx2 (by decide) (by decide)]; decide
example : valid tEx (encode tEx vEx1) = true := c15_encode_valid tEx vEx1 (by decide)

-- signed integers: -2 < 1 although the bytes FE FF > 01 00
example : encode (.sint 2) (.sint (-2)) = [0xFE, 0xFF] := by decide
example : vcmp (.sint 2) (.sint (-2)) (.sint 1) = .lt := by decide
example : cmp (.sint 2) [0xFE, 0xFF] [0x01, 0x00] = .lt := by
  have h := c15_encoding_order (.sint 2) (.sint (-2)) (.sint 1) (by decide) (by decide)
  have e1 : encode (.sint 2) (.sint (-2)) = [0xFE, 0xFF] := by decide
  have e2 : encode (.sint 2) (.sint 1) = [0x01, 0x00] := by decide
  rw [e1, e2] at h
  rw [h]; decide
-- extremes of u128 / i128, and the first values outside
example : wellTyped (.uint 16) (.uint (2 ^ 128 - 1)) = true := by decide
example : wellTyped (.uint 16) (.uint (2 ^ 128)) = false := by decide
example : wellTyped (.sint 16) (.sint (-(2 ^ 127))) = true := by decide
example : wellTyped (.sint 16) (.sint (2 ^ 127)) = false := by decide
example : encode (.sint 1) (.sint (-128)) = [0x80] := by decide
example : vcmp (.sint 16) (.sint (-(2 ^ 127))) (.sint (2 ^ 127 - 1)) = .lt := by decide
-- char: surrogates are not values; the largest scalar value
example : wellTyped .char (.char 0xD800) = false := by decide
example : encode .char (.char 0x10FFFF) = [0xFF, 0xFF, 0x10] := by decide
-- str: "z" < "é" < "€" < "😀" by scalar value, and so do the UTF-8 bytes (7A, C3 A9, E2 82 AC, F0 ..)
example : vcmp .str (.str [0x7A]) (.str [0xE9]) = .lt := by decide
example : encode .str (.str [0xE9, 0x20AC, 0x1F600]) =
    [0xC3, 0xA9, 0xE2, 0x82, 0xAC, 0xF0, 0x9F, 0x98, 0x80] := by decide
example : decode .str [0xC3, 0xA9, 0xE2, 0x82, 0xAC, 0xF0, 0x9F, 0x98, 0x80] =
    some (.str [0xE9, 0x20AC, 0x1F600]) := by rfl
-- equal prefix and empty: "" < "a" < "ab"
example : vcmp .str (.str []) (.str [0x61]) = .lt := by decide
example : vcmp .str (.str [0x61]) (.str [0x61, 0x62]) = .lt := by decide
-- Option: None < Some(None) < Some(Some("")); fixed-width None is padded
example : vcmp (.option (.option .str)) .none (.some .none) = .lt := by decide
example : vcmp (.option (.option .str)) (.some .none) (.some (.some (.str []))) = .lt := by decide
example : encode (.option (.option .str)) (.some (.some (.str []))) = [1, 1] := by decide
example : encode (.option (.uint 4)) .none = [0, 0, 0, 0, 0] := by decide
example : decode (.option (.uint 4)) [0, 0, 0, 0, 0] = some .none := by rfl
-- variable-width array: end offsets 9, 9 then the payloads "a", ""
example : encode (.array 2 .str) (.arr [.str [0x61], .str []]) =
    [9, 0, 0, 0, 9, 0, 0, 0, 0x61] := by decide
example : decode (.array 2 .str) [9, 0, 0, 0, 9, 0, 0, 0, 0x61] =
    some (.arr [.str [0x61], .str []]) := by rfl
-- ill-typed values are rejected
example : wellTyped (.array 2 .str) (.arr [.str [0x61]]) = false := by decide
example : wellTyped tEx (.tup [.none, .arr [.sint 0, .sint 40000], .uint 0]) = false := by decide
-- the separator of "apple" < "apric" is the encoding of the value "apr", which lies between them
example : sep .str (encode .str (.str [0x61, 0x70, 0x70, 0x6C, 0x65]))
    (encode .str (.str [0x61, 0x70, 0x72, 0x69, 0x63])) = encode .str (.str [0x61, 0x70, 0x72]) := by
  have e1 : encode .str (.str [0x61, 0x70, 0x70, 0x6C, 0x65]) = [0x61, 0x70, 0x70, 0x6C, 0x65] := by
    decide
  have e2 : encode .str (.str [0x61, 0x70, 0x72, 0x69, 0x63]) = [0x61, 0x70, 0x72, 0x69, 0x63] := by
    decide
  have e3 : encode .str (.str [0x61, 0x70, 0x72]) = [0x61, 0x70, 0x72] := by decide
  rw [e1, e2, e3]
  simp [sep, commonPrefixLen, roundUpToCharBoundary, isCont]
example : vcmp .str (.str [0x61, 0x70, 0x70, 0x6C, 0x65]) (.str [0x61, 0x70, 0x72]) = .lt ∧
    vcmp .str (.str [0x61, 0x70, 0x72]) (.str [0x61, 0x70, 0x72, 0x69, 0x63]) = .lt := by decide

end Examples

end Redb.Key
