import RedbModel.Model.Buddy
import RedbModel.Lemmas.Buddy
import RedbModel.Lemmas.BuddyMore
import RedbModel.Model.Region
import RedbModel.Lemmas.RegionRun
/-!
# C14 — The page allocator never double-allocates and never loses space

Property theorems about the model `RedbModel/Model/Buddy.lean` of
`src/tree_store/page_store/buddy_allocator.rs`. The definitions `FreeAt`, `PageFree`, `Inv`
live in `Lemmas/Buddy.lean`. Statements here are the obligations counted by the check;
helper lemmas live in `Lemmas/`.

Second part (namespace `Redb.Region`): the REGION level, model `RedbModel/Model/Region.lean` of
`region.rs` (`RegionTracker`, `Allocators`, `resize_to`) and of its use in `page_manager.rs`
(`allocate_helper_retry`, `free_helper`, `grow`, `try_shrink`, `load_allocator_state`). The
invariant `TrackerSound` is defined in `Lemmas/Region.lean`.
-/
namespace Redb.Buddy

/-- A fresh allocator satisfies the invariant and every page below `n` is free. -/
theorem c14_new_inv (n cap : Nat) (hc : 0 < cap) (hn : n ≤ cap) :
    Inv (usableOrder cap) n (Buddy.new n cap).free ∧
    ∀ p, p < n → PageFree (usableOrder cap) (Buddy.new n cap).free p :=
  new_inv n cap hc hn

/-- `alloc` is sound: the block handed out lies inside the region, consisted of free pages only
(hence is disjoint from every live block), exactly its pages stop being free, and the invariant
is preserved. -/
theorem c14_alloc_sound (mo len : Nat) (f f' : List Bits) (o i : Nat)
    (h : Inv mo len f) (ha : allocInner mo f o = some (i, f')) :
    Inv mo len f' ∧ (i + 1) * 2 ^ o ≤ len ∧
    (∀ p, p / 2 ^ o = i → PageFree mo f p ∧ ¬ PageFree mo f' p) ∧
    (∀ p, p / 2 ^ o ≠ i → (PageFree mo f' p ↔ PageFree mo f p)) :=
  allocInner_sound mo len f f' o i h ha

/-- `alloc` is complete: it refuses only when no aligned block of that order is entirely free. -/
theorem c14_alloc_complete (mo len : Nat) (f : List Bits) (o : Nat)
    (h : Inv mo len f) (ha : allocInner mo f o = none) :
    ¬ ∃ i, o ≤ mo ∧ (i + 1) * 2 ^ o ≤ len ∧ ∀ p, p / 2 ^ o = i → PageFree mo f p :=
  allocInner_complete mo len f o h ha

/-- `free` makes exactly the pages of the block free again, preserves the invariant (so the
space is merged to the largest order the neighbours allow: `Inv.merged`), and returns the order
of the free block that now contains the freed one. -/
theorem c14_free_spec (mo len : Nat) (f : List Bits) (p o : Nat)
    (h : Inv mo len f) (ho : o ≤ mo) (hr : (p + 1) * 2 ^ o ≤ len)
    (hheld : ∀ q, q / 2 ^ o = p → ¬ PageFree mo f q) :
    Inv mo len (freeInner mo f p o).1 ∧
    (∀ q, PageFree mo (freeInner mo f p o).1 q ↔ (PageFree mo f q ∨ q / 2 ^ o = p)) ∧
    o ≤ (freeInner mo f p o).2 ∧ (freeInner mo f p o).2 ≤ mo ∧
    FreeAt (freeInner mo f p o).1 (freeInner mo f p o).2 (p / 2 ^ ((freeInner mo f p o).2 - o)) :=
  freeInner_spec mo len f p o h ho hr hheld

/-- `record_alloc` succeeds exactly when the order is admissible, the block is in range and all
of its pages are free; it then removes exactly those pages from the free space. -/
theorem c14_record_alloc_iff (mo len : Nat) (f : List Bits) (p o : Nat) (h : Inv mo len f) :
    ((recordAllocInner mo f p o).isSome ↔
      (o ≤ mo ∧ (p + 1) * 2 ^ o ≤ len ∧ ∀ q, q / 2 ^ o = p → PageFree mo f q)) ∧
    (∀ f', recordAllocInner mo f p o = some f' →
      Inv mo len f' ∧ (∀ q, PageFree mo f' q ↔ (PageFree mo f q ∧ q / 2 ^ o ≠ p))) :=
  recordAllocInner_spec mo len f p o h

/-- `alloc_lowest` is sound like `alloc` and returns the least index whose block is entirely free. -/
theorem c14_alloc_lowest_least (mo len : Nat) (f f' : List Bits) (o i : Nat)
    (h : Inv mo len f) (ha : allocLowest mo f o = some (i, f')) :
    Inv mo len f' ∧ (i + 1) * 2 ^ o ≤ len ∧
    (∀ p, p / 2 ^ o = i → PageFree mo f p ∧ ¬ PageFree mo f' p) ∧
    (∀ p, p / 2 ^ o ≠ i → (PageFree mo f' p ↔ PageFree mo f p)) ∧
    (∀ j, (∀ p, p / 2 ^ o = j → PageFree mo f p) → i ≤ j) :=
  more_allocLowest_least mo len f f' o i h ha

/-- `alloc_lowest` refuses only when no aligned block of that order is entirely free. -/
theorem c14_alloc_lowest_complete (mo len : Nat) (f : List Bits) (o : Nat)
    (h : Inv mo len f) (ha : allocLowest mo f o = none) :
    ¬ ∃ i, o ≤ mo ∧ (i + 1) * 2 ^ o ≤ len ∧ ∀ p, p / 2 ^ o = i → PageFree mo f p :=
  more_allocLowest_complete mo len f o h ha

/-- Region resize, grow: always succeeds, keeps the invariant, frees exactly the new pages. -/
theorem c14_resize_grow (b : Buddy) (newSize : Nat)
    (h : Inv b.maxOrder b.len b.free) (hg : b.len < newSize) :
    ∃ b', b.resize newSize = some b' ∧ b'.len = newSize ∧ b'.maxOrder = b.maxOrder ∧
      b'.cap = b.cap ∧ Inv b.maxOrder newSize b'.free ∧
      ∀ q, PageFree b.maxOrder b'.free q ↔
        (PageFree b.maxOrder b.free q ∨ (b.len ≤ q ∧ q < newSize)) :=
  more_resize_grow b newSize h hg

/-- Region resize, shrink: possible exactly when the tail is free; keeps the invariant and the
free pages below the new length. -/
theorem c14_resize_shrink (b : Buddy) (newSize : Nat)
    (h : Inv b.maxOrder b.len b.free) (hs : newSize ≤ b.len) :
    ((b.resize newSize).isSome ↔
      ∀ q, newSize ≤ q → q < b.len → PageFree b.maxOrder b.free q) ∧
    ∀ b', b.resize newSize = some b' → b'.len = newSize ∧ b'.maxOrder = b.maxOrder ∧
      b'.cap = b.cap ∧ Inv b.maxOrder newSize b'.free ∧
      ∀ q, PageFree b.maxOrder b'.free q ↔ (PageFree b.maxOrder b.free q ∧ q < newSize) :=
  more_resize_shrink b newSize h hs

/-- Saving and reloading the allocator preserves its state exactly (on-disk format of
`to_vec`/`from_bytes`), for states satisfying the invariant whose numeric fields fit their
on-disk widths. Without a bound on the bitmap lengths the statement is false
(`not_fromBytes_toBytes_without_hbits`): a length of 2^32 is written as 0. -/
theorem c14_serialize_roundtrip (b : Buddy)
    (h : Inv b.maxOrder b.len b.free)
    (hmo : b.maxOrder < 256) (hlen : b.len < 2 ^ 32)
    (hsz : (Buddy.toBytes b).length < 2 ^ 32) :
    Buddy.fromBytes (Buddy.toBytes b) b.cap = b :=
  more_fromBytes_toBytes b h hmo hlen hsz

end Redb.Buddy

/-! ## Region level: the tracker never hides space and never offers a region that does not exist -/
namespace Redb.Region
open Redb.Buddy

/-- `Allocators::new(layout)` establishes the invariant. -/
theorem c14_region_init (cap : Nat) (l : Layout) (hwf : l.wf cap = true) :
    TrackerSound (St.new cap l) :=
  newWith_sound initialRegions cap l hwf

/-- `allocate_helper` (find_free / alloc / mark_full retry loop, `grow`, retry) preserves the
invariant. -/
theorem c14_region_allocate_inv (s s' : St) (o r p : Nat) (lowest : Bool) (h : TrackerSound s)
    (ha : allocate s o lowest = some (s', r, p)) : TrackerSound s' :=
  (allocate_spec h ha).1

/-- `free_helper` preserves the invariant, under the client contract of `free` (the block lies in
the region and none of its pages is free): the region is marked free up to the MERGED order. -/
theorem c14_region_free_inv (s : St) (r p o : Nat) (b : Buddy) (h : TrackerSound s)
    (hr : s.regions[r]? = some b) (ho : o ≤ b.maxOrder) (hrange : (p + 1) * 2 ^ o ≤ b.len)
    (hheld : ∀ q, q / 2 ^ o = p → ¬ PageFree b.maxOrder b.free q) :
    ∃ s', free s r p o = some s' ∧ TrackerSound s' := by
  obtain ⟨s', _, h1, h2, _⟩ := free_sound h hr ho hrange hheld
  exact ⟨s', h1, h2⟩

/-- `Allocators::resize_to(layout)` preserves the invariant for every target layout: growing
(existing regions resized and re-marked, new regions appended, tracker bitmaps extended) and
shrinking (dropped regions marked full for every order, last region trimmed). -/
theorem c14_region_resize_inv (s s' : St) (nl : Layout) (h : TrackerSound s)
    (hs : resizeTo s nl = some s') : TrackerSound s' :=
  (resizeTo_sound h hs).1

/-- `load_allocator_state`: a saved state that satisfied the invariant, resized to the layout of
the header, satisfies it. -/
theorem c14_region_load_inv (s s' : St) (saved : List Buddy × List Bits) (l : Layout)
    (h : TrackerSound { s with regions := saved.1, tracker := saved.2 })
    (hs : load s saved l = some s') : TrackerSound s' :=
  (load_sound h hs).1

/-- The invariant holds in every state reachable from a fresh database by any sequence of
`allocate` / `allocate_lowest`, `free` (client contract), `resize_to` (any layout), `grow`,
`try_shrink`, saving the allocator state, loading it for any header layout, resetting it and
`mark_page_allocated`; and the saved state satisfies it as well. -/
theorem c14_region_inv_reachable (cap : Nat) (l : Layout) (hwf : l.wf cap = true) (ops : List Op)
    (d : Db) (hr : run (Db.init cap l) ops = some d) :
    TrackerSound d.mem ∧
    ∀ sv, d.disk = some sv → TrackerSound { d.mem with regions := sv.1, tracker := sv.2 } :=
  run_sound ops ⟨c14_region_init cap l hwf, fun _ h => by cases h⟩ hr

/-- Completeness: whenever some existing region has a free block of order `≥ o`, `allocate o`
succeeds in the retry loop, i.e. WITHOUT growing the database (layout and number of regions
unchanged), and never panics. "A region that contains a suitable free block is never reported
full." -/
theorem c14_region_alloc_complete (s : St) (o : Nat) (lowest : Bool) (h : TrackerSound s)
    (hex : ∃ (r : Nat) (b : Buddy), s.regions[r]? = some b ∧ FreeGE b o) :
    ∃ s' r p, allocNoGrow s o lowest = some (s', some (r, p)) ∧
      allocate s o lowest = some (s', r, p) ∧ TrackerSound s' ∧
      s'.layout = s.layout ∧ s'.regions.length = s.regions.length := by
  obtain ⟨s', r, p, h1, h2, h3, h4, _⟩ := allocNoGrow_complete h lowest hex
  refine ⟨s', r, p, h1, by simp only [allocate, h1], h2, h4, ?_⟩
  obtain ⟨_, _, _, e, _⟩ := h3
  rw [e, List.length_set]

/-- Soundness: the block handed out lies inside an existing region `r` of the state `s0` in which
the successful `alloc` took place; all of its pages were free there and are not free afterwards;
every other page of that region and every other region is untouched (`Allocated`). `s0` has
exactly the allocators of `s`, or it is `grow` applied to a state with the allocators of `s` in
which no region had a free block of order `≥ o` (for what `grow` does to the existing pages see
`c14_region_grow_frame`). Hence no page is handed out twice across the whole database. -/
theorem c14_region_alloc_sound (s s' : St) (o r p : Nat) (lowest : Bool) (h : TrackerSound s)
    (ha : allocate s o lowest = some (s', r, p)) :
    ∃ s0, TrackerSound s0 ∧
      (∃ b b', s0.regions[r]? = some b ∧ s'.regions = s0.regions.set r b' ∧
        b'.len = b.len ∧ b'.maxOrder = b.maxOrder ∧ (p + 1) * 2 ^ o ≤ b.len ∧
        (∀ q, q / 2 ^ o = p → PageFree b.maxOrder b.free q ∧ ¬ PageFree b.maxOrder b'.free q) ∧
        (∀ q, q / 2 ^ o ≠ p → (PageFree b.maxOrder b'.free q ↔ PageFree b.maxOrder b.free q))) ∧
      (s0.regions = s.regions ∨
        ∃ s1, s1.regions = s.regions ∧ TrackerSound s1 ∧
          (∀ (r : Nat) (b : Buddy), s1.regions[r]? = some b → ¬ FreeGE b o) ∧ grow s1 o = some s0) :=
  (allocate_spec h ha).2.2

/-- The grow branch of `resize_to` keeps the status of every page of every existing region and
adds exactly the pages the region grows by (so an allocated page is never free afterwards). -/
theorem c14_region_grow_frame (s s' : St) (nl : Layout) (h : TrackerSound s)
    (hwf : nl.wf s.cap = true) (hs : growPath s nl = some s') :
    TrackerSound s' ∧ s'.regions.length = max s.regions.length nl.numRegions ∧
    ∀ (r : Nat) (b : Buddy), s.regions[r]? = some b →
      ∃ b', s'.regions[r]? = some b' ∧ b'.maxOrder = b.maxOrder ∧ b.len ≤ b'.len ∧
        ∀ q, PageFree b.maxOrder b'.free q ↔ (PageFree b.maxOrder b.free q ∨ (b.len ≤ q ∧ q < b'.len)) := by
  obtain ⟨h1, _, _, h4, h5⟩ := growPath_spec h hwf hs
  exact ⟨h1, h4, h5⟩

/-- No loss: after `free` of a block of order `o`, an `allocate` of the same order succeeds
without growing the database. -/
theorem c14_region_free_reuse (s : St) (r p o : Nat) (b : Buddy) (lowest : Bool) (h : TrackerSound s)
    (hr : s.regions[r]? = some b) (ho : o ≤ b.maxOrder) (hrange : (p + 1) * 2 ^ o ≤ b.len)
    (hheld : ∀ q, q / 2 ^ o = p → ¬ PageFree b.maxOrder b.free q) :
    ∃ s1 s2 r' p', free s r p o = some s1 ∧ allocNoGrow s1 o lowest = some (s2, some (r', p')) ∧
      allocate s1 o lowest = some (s2, r', p') ∧ s2.layout = s.layout ∧
      s2.regions.length = s.regions.length := by
  obtain ⟨s1, b', h1, h2, h3, h4, _, _, _, _, h9⟩ := free_sound h hr ho hrange hheld
  have hrl : r < s.regions.length := (List.getElem?_eq_some_iff.1 hr).1
  obtain ⟨s2, r', p', g1, g2, _, g4, g5⟩ := c14_region_alloc_complete s1 o lowest h2
    ⟨r, b', by rw [h3]; simp [hrl], h9⟩
  exact ⟨s1, s2, r', p', h1, g1, g2, by rw [g4, h4], by rw [g5, h3, List.length_set]⟩

/-- The check the driver evaluates on every decoded snapshot of the implementation is exactly the
invariant. -/
theorem c14_region_check_exact (s : St) : firstViolation s = none ↔ TrackerSound s :=
  firstViolation_none_iff s

/-! ### Non-vacuity: concrete multi-region states (4 pages per region, so orders 0..2) -/

/-- two full regions and a trailing one of 2 pages -/
example : TrackerSound (newWith 3 4 { numFull := 2, trailing := some 2 }) := by decide

/-- five order-0 allocations fill region 0 and spill into region 1; an order-1 and an order-2
request follow; the last one makes the database grow by a region -/
example : (run { mem := newWith 3 4 { numFull := 2, trailing := none }, disk := none }
    [.alloc 0 false, .alloc 0 false, .alloc 0 false, .alloc 0 false, .alloc 0 false,
     .alloc 1 true, .alloc 2 false]).map (fun d => (d.mem.regions.length, d.mem.layout)) =
    some (3, { numFull := 3, trailing := none }) := by decide +kernel

/-- the state after four allocations: region 0 is full but still reported "not full" — the
tracker is an optimistic cache, and this direction is allowed by the invariant -/
example :
    let s := (run { mem := newWith 3 4 { numFull := 2, trailing := none }, disk := none }
      [.alloc 0 false, .alloc 0 false, .alloc 0 false, .alloc 0 false]).map (·.mem)
    s.map (fun s => (getBit s.tracker 0 0, (s.regions.map (·.countFree)), decide (TrackerSound s))) =
      some (false, [0, 4], true) := by decide +kernel

/-- free, save, shrink to one region (region 1 is dropped), load the saved state for the small
layout, grow again: every intermediate state is checked by `run`; here the final one -/
example :
    (run { mem := newWith 3 4 { numFull := 2, trailing := none }, disk := none }
      [.alloc 0 false, .alloc 1 false, .free 0 0 0, .save, .tryShrink true,
       .resizeTo { numFull := 1, trailing := none }, .load { numFull := 1, trailing := none },
       .grow 2, .alloc 2 false]).map
      (fun d => (d.mem.regions.length, decide (TrackerSound d.mem))) = some (2, true) := by
  decide +kernel

/-- a shrink that drops a region: the tracker reports the dropped index full for every order -/
example :
    (resizeTo (newWith 3 4 { numFull := 3, trailing := none }) { numFull := 1, trailing := some 2 }).map
      (fun s => (s.regions.map (·.len), (List.range 3).map (fun r => getBit s.tracker 0 r),
        decide (TrackerSound s))) = some ([4, 2], [false, false, true], true) := by
  decide +kernel

/-- Seeded defect 1 as a variant: `free` marks the region free up to `order + 1` at most instead
of up to the merged order. -/
def freeBad (s : St) (r p o : Nat) : Option St :=
  match s.regions[r]? with
  | none => none
  | some b =>
    some { s with regions := s.regions.set r (b.freeBlock p o).1,
                  tracker := markFree s.tracker (min (b.freeBlock p o).2 (o + 1)) r }

/-- region 0 is filled, found full and marked (5th allocation), then emptied again -/
def emptiedAgain (lastFree : St → Nat → Nat → Nat → Option St) : Option St :=
  ((run { mem := newWith 3 4 { numFull := 2, trailing := none }, disk := none }
    [.alloc 0 false, .alloc 0 false, .alloc 0 false, .alloc 0 false, .alloc 0 false,
     .free 0 0 0, .free 0 1 0, .free 0 2 0]).map (·.mem)).bind (fun s => lastFree s 0 3 0)

/-- with the code as written the last `free` merges up to order 2 and region 0 is reported free
for orders 0..2: the invariant holds, and an order-2 request is served from region 0 -/
example : (emptiedAgain free).map (fun s => (firstViolation s, (allocNoGrow s 2 false).map (·.2))) =
    some (none, some (some (0, 0))) := by decide +kernel

/-- with the defect the whole of region 0 is free (one block of order 2) but the tracker keeps
reporting it full for order 2: clause 1 is violated -/
example : (emptiedAgain freeBad).map firstViolation = some (some (.hides 0 2)) := by decide +kernel

example : (emptiedAgain freeBad).isSome = true ∧
    (emptiedAgain freeBad).all (fun s => !decide (TrackerSound s)) = true := by decide +kernel

/-- Seeded defect 2 as a variant: the shrink branch of `resize_to` without
`mark_full(0, i)` for the dropped regions. -/
def shrinkPathBad (s : St) (nl : Layout) : Option St :=
  let rs := s.regions.take nl.numRegions
  match rs.getLast? with
  | none => none
  | some a =>
    if a.len > nl.lastPages s.cap then
      match a.resize (nl.lastPages s.cap) with
      | none => none
      | some a' => some { s with regions := rs.set (rs.length - 1) a' }
    else some { s with regions := rs }

/-- region 0 is handed out as one order-2 block, then the database is shrunk to one region
(region 1, entirely free, is dropped) -/
def afterShrink (shrink : St → Layout → Option St) : Option St :=
  (allocate (newWith 3 4 { numFull := 2, trailing := none }) 2 false).bind (fun x =>
    (shrink x.1 { numFull := 1, trailing := none }).map
      (fun s => { s with layout := { numFull := 1, trailing := none } }))

/-- with the code as written the invariant holds, and the next allocation finds nothing, grows
the database by a region and is served from the new region 1 -/
example : (afterShrink shrinkPath).map (fun s => (firstViolation s,
      (allocate s 0 false).map (fun x => (x.2, x.1.regions.length)))) =
    some (none, some ((1, 0), 2)) := by decide +kernel

/-- with the defect the tracker still offers region 1, which no longer exists: clause 2 is
violated, and the next allocation indexes `region_allocators[1]` out of bounds (`none`) instead
of growing the database -/
example : (afterShrink shrinkPathBad).map (fun s => (firstViolation s, allocate s 0 false)) =
    some (some (.ghost 1 0), none) := by decide +kernel

/-- the decoder the driver applies to the bytes of `RegionTracker::to_vec` inverts the
serialization (3 orders, 70 regions: two words per leaf bitmap, three levels) -/
example : trackerFromBytes (trackerToBytes (markFree (trkNew 70 3) 1 66) 3) =
    markFree (trkNew 70 3) 1 66 := by decide +kernel

end Redb.Region
