import RedbModel.Model.Buddy
import RedbModel.Lemmas.Buddy
import RedbModel.Lemmas.BuddyMore
/-!
# C14 — The page allocator never double-allocates and never loses space

Property theorems about the model `RedbModel/Model/Buddy.lean` of
`src/tree_store/page_store/buddy_allocator.rs`. The definitions `FreeAt`, `PageFree`, `Inv`
live in `Lemmas/Buddy.lean`. Statements here are the obligations counted by the check;
helper lemmas live in `Lemmas/`.
-/
namespace Redb.Buddy

/-- A fresh allocator satisfies the invariant and every page below `n` is free. -/
theorem c14_new_inv (n cap : Nat) (hc : 0 < cap) (hn : n ≤ cap) :
    Inv (usableOrder cap) n (Buddy.new n cap).free ∧
    ∀ p, p < n → PageFree (usableOrder cap) (Buddy.new n cap).free p :=
  new_inv n cap hc hn

/-- `alloc` is sound: the block handed out lies inside the region, consisted of free pages only
(hence is disjoint from every live block), exactly its pages stop being free, and the invariant
is preserved. -/
theorem c14_alloc_sound (mo len : Nat) (f f' : List Bits) (o i : Nat)
    (h : Inv mo len f) (ha : allocInner mo f o = some (i, f')) :
    Inv mo len f' ∧ (i + 1) * 2 ^ o ≤ len ∧
    (∀ p, p / 2 ^ o = i → PageFree mo f p ∧ ¬ PageFree mo f' p) ∧
    (∀ p, p / 2 ^ o ≠ i → (PageFree mo f' p ↔ PageFree mo f p)) :=
  allocInner_sound mo len f f' o i h ha

/-- `alloc` is complete: it refuses only when no aligned block of that order is entirely free. -/
theorem c14_alloc_complete (mo len : Nat) (f : List Bits) (o : Nat)
    (h : Inv mo len f) (ha : allocInner mo f o = none) :
    ¬ ∃ i, o ≤ mo ∧ (i + 1) * 2 ^ o ≤ len ∧ ∀ p, p / 2 ^ o = i → PageFree mo f p :=
  allocInner_complete mo len f o h ha

/-- `free` makes exactly the pages of the block free again, preserves the invariant (so the
space is merged to the largest order the neighbours allow: `Inv.merged`), and returns the order
of the free block that now contains the freed one. -/
theorem c14_free_spec (mo len : Nat) (f : List Bits) (p o : Nat)
    (h : Inv mo len f) (ho : o ≤ mo) (hr : (p + 1) * 2 ^ o ≤ len)
    (hheld : ∀ q, q / 2 ^ o = p → ¬ PageFree mo f q) :
    Inv mo len (freeInner mo f p o).1 ∧
    (∀ q, PageFree mo (freeInner mo f p o).1 q ↔ (PageFree mo f q ∨ q / 2 ^ o = p)) ∧
    o ≤ (freeInner mo f p o).2 ∧ (freeInner mo f p o).2 ≤ mo ∧
    FreeAt (freeInner mo f p o).1 (freeInner mo f p o).2 (p / 2 ^ ((freeInner mo f p o).2 - o)) :=
  freeInner_spec mo len f p o h ho hr hheld

/-- `record_alloc` succeeds exactly when the order is admissible, the block is in range and all
of its pages are free; it then removes exactly those pages from the free space. -/
theorem c14_record_alloc_iff (mo len : Nat) (f : List Bits) (p o : Nat) (h : Inv mo len f) :
    ((recordAllocInner mo f p o).isSome ↔
      (o ≤ mo ∧ (p + 1) * 2 ^ o ≤ len ∧ ∀ q, q / 2 ^ o = p → PageFree mo f q)) ∧
    (∀ f', recordAllocInner mo f p o = some f' →
      Inv mo len f' ∧ (∀ q, PageFree mo f' q ↔ (PageFree mo f q ∧ q / 2 ^ o ≠ p))) :=
  recordAllocInner_spec mo len f p o h

/-- `alloc_lowest` is sound like `alloc` and returns the least index whose block is entirely free. -/
theorem c14_alloc_lowest_least (mo len : Nat) (f f' : List Bits) (o i : Nat)
    (h : Inv mo len f) (ha : allocLowest mo f o = some (i, f')) :
    Inv mo len f' ∧ (i + 1) * 2 ^ o ≤ len ∧
    (∀ p, p / 2 ^ o = i → PageFree mo f p ∧ ¬ PageFree mo f' p) ∧
    (∀ p, p / 2 ^ o ≠ i → (PageFree mo f' p ↔ PageFree mo f p)) ∧
    (∀ j, (∀ p, p / 2 ^ o = j → PageFree mo f p) → i ≤ j) :=
  more_allocLowest_least mo len f f' o i h ha

/-- `alloc_lowest` refuses only when no aligned block of that order is entirely free. -/
theorem c14_alloc_lowest_complete (mo len : Nat) (f : List Bits) (o : Nat)
    (h : Inv mo len f) (ha : allocLowest mo f o = none) :
    ¬ ∃ i, o ≤ mo ∧ (i + 1) * 2 ^ o ≤ len ∧ ∀ p, p / 2 ^ o = i → PageFree mo f p :=
  more_allocLowest_complete mo len f o h ha

/-- Region resize, grow: always succeeds, keeps the invariant, frees exactly the new pages. -/
theorem c14_resize_grow (b : Buddy) (newSize : Nat)
    (h : Inv b.maxOrder b.len b.free) (hg : b.len < newSize) :
    ∃ b', b.resize newSize = some b' ∧ b'.len = newSize ∧ b'.maxOrder = b.maxOrder ∧
      b'.cap = b.cap ∧ Inv b.maxOrder newSize b'.free ∧
      ∀ q, PageFree b.maxOrder b'.free q ↔
        (PageFree b.maxOrder b.free q ∨ (b.len ≤ q ∧ q < newSize)) :=
  more_resize_grow b newSize h hg

/-- Region resize, shrink: possible exactly when the tail is free; keeps the invariant and the
free pages below the new length. -/
theorem c14_resize_shrink (b : Buddy) (newSize : Nat)
    (h : Inv b.maxOrder b.len b.free) (hs : newSize ≤ b.len) :
    ((b.resize newSize).isSome ↔
      ∀ q, newSize ≤ q → q < b.len → PageFree b.maxOrder b.free q) ∧
    ∀ b', b.resize newSize = some b' → b'.len = newSize ∧ b'.maxOrder = b.maxOrder ∧
      b'.cap = b.cap ∧ Inv b.maxOrder newSize b'.free ∧
      ∀ q, PageFree b.maxOrder b'.free q ↔ (PageFree b.maxOrder b.free q ∧ q < newSize) :=
  more_resize_shrink b newSize h hs

/-- Saving and reloading the allocator preserves its state exactly (on-disk format of
`to_vec`/`from_bytes`), for states satisfying the invariant whose numeric fields fit their
on-disk widths. Without a bound on the bitmap lengths the statement is false
(`not_fromBytes_toBytes_without_hbits`): a length of 2^32 is written as 0. -/
theorem c14_serialize_roundtrip (b : Buddy)
    (h : Inv b.maxOrder b.len b.free)
    (hmo : b.maxOrder < 256) (hlen : b.len < 2 ^ 32)
    (hsz : (Buddy.toBytes b).length < 2 ^ 32) :
    Buddy.fromBytes (Buddy.toBytes b) b.cap = b :=
  more_fromBytes_toBytes b h hmo hlen hsz

end Redb.Buddy
