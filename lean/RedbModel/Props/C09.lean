import RedbModel.Model.MultiSpec
import RedbModel.Lemmas.MultiSpec
/-!
# C09 — A multimap table behaves as a map from keys to ordered sets

The specification `MultiSpec` is a sorted map from keys to non-empty strictly sorted value
sets; the theorems state, for every key/value type whose comparators satisfy `CmpLaws` (all
built-in types, C15), every map and every pair: well-formedness is preserved, no duplicate
pairs, values iterate in value order, `len` counts pairs, a key disappears with its last value.
The implementation (inline and subtree representations alike) is held to `MultiSpec` by the
correspondence run.
-/
namespace Redb.MultiSpec
open Redb.Key

theorem c09_insert_wf (kt vt : KT) (m : MMap) (k v : Bytes)
    (h : WF kt vt m) (hval : KeysValid kt vt m) (hkv : valid kt k = true) (hvv : valid vt v = true) :
    WF kt vt (insert kt vt m k v).1 ∧ KeysValid kt vt (insert kt vt m k v).1 :=
  insert_wf kt vt (cmp_laws kt) (cmp_laws vt) m k v h hval hkv hvv

theorem c09_remove_wf (kt vt : KT) (m : MMap) (k v : Bytes)
    (h : WF kt vt m) (hval : KeysValid kt vt m) (hkv : valid kt k = true) (hvv : valid vt v = true) :
    WF kt vt (remove kt vt m k v).1 ∧ KeysValid kt vt (remove kt vt m k v).1 :=
  remove_wf kt vt (cmp_laws kt) (cmp_laws vt) m k v h hval hkv hvv

theorem c09_no_duplicate_pairs (kt vt : KT) (m : MMap) (k v : Bytes)
    (h : WF kt vt m) (hval : KeysValid kt vt m) (hkv : valid kt k = true) (hvv : valid vt v = true) :
    ((insert kt vt m k v).2 = true ↔ Has kt vt m k v) ∧
    ((insert kt vt m k v).2 = true → (insert kt vt m k v).1 = m) :=
  insert_present_iff kt vt (cmp_laws kt) (cmp_laws vt) m k v h hval hkv hvv

theorem c09_remove_reports_presence (kt vt : KT) (m : MMap) (k v : Bytes)
    (h : WF kt vt m) (hval : KeysValid kt vt m) (hkv : valid kt k = true) (hvv : valid vt v = true) :
    ((remove kt vt m k v).2 = true ↔ Has kt vt m k v) ∧
    ((remove kt vt m k v).2 = false → (remove kt vt m k v).1 = m) :=
  remove_present_iff kt vt (cmp_laws kt) (cmp_laws vt) m k v h hval hkv hvv

theorem c09_len_counts_pairs (kt vt : KT) (m : MMap) (k v : Bytes) :
    len (insert kt vt m k v).1 = len m + (if (insert kt vt m k v).2 then 0 else 1) ∧
    len (remove kt vt m k v).1 + (if (remove kt vt m k v).2 then 1 else 0) = len m ∧
    len (removeAll kt m k).1 + (removeAll kt m k).2.length = len m :=
  ⟨len_insert kt vt m k v, len_remove kt vt m k v, len_removeAll kt m k⟩

theorem c09_values_sorted (kt vt : KT) (m : MMap) (k : Bytes) (h : WF kt vt m) :
    SetSorted vt (get kt m k) := get_sorted kt vt m k h

theorem c09_get_insert (kt vt : KT) (m : MMap) (k v k' : Bytes)
    (h : WF kt vt m) (hval : KeysValid kt vt m) (hkv : valid kt k = true) (hvv : valid vt v = true)
    (hk' : valid kt k' = true) :
    Has kt vt (insert kt vt m k v).1 k v ∧
    (cmp kt k' k ≠ .eq → get kt (insert kt vt m k v).1 k' = get kt m k') :=
  get_insert kt vt (cmp_laws kt) (cmp_laws vt) m k v k' h hval hkv hvv hk'

theorem c09_get_remove_key_vanishes (kt vt : KT) (m : MMap) (k v k' : Bytes)
    (h : WF kt vt m) (hval : KeysValid kt vt m) (hkv : valid kt k = true) (hvv : valid vt v = true)
    (hk' : valid kt k' = true) :
    ¬ Has kt vt (remove kt vt m k v).1 k v ∧
    (cmp kt k' k ≠ .eq → get kt (remove kt vt m k v).1 k' = get kt m k') ∧
    (get kt (remove kt vt m k v).1 k = (setRemove vt (get kt m k) v).1) :=
  get_remove kt vt (cmp_laws kt) (cmp_laws vt) m k v k' h hval hkv hvv hk'

theorem c09_remove_all (kt vt : KT) (m : MMap) (k k' : Bytes)
    (h : WF kt vt m) (hval : KeysValid kt vt m) (hkv : valid kt k = true) (hk' : valid kt k' = true) :
    (removeAll kt m k).2 = get kt m k ∧ get kt (removeAll kt m k).1 k = [] ∧
    (cmp kt k' k ≠ .eq → get kt (removeAll kt m k).1 k' = get kt m k') ∧ WF kt vt (removeAll kt m k).1 :=
  get_removeAll kt vt (cmp_laws kt) m k k' h hval hkv hk'

end Redb.MultiSpec
