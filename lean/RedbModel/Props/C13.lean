import RedbModel.Props.Life
/-!
# C13 — Compaction changes space, never content

Compaction is a sequence of ordinary commits that relocate pages; the monitor sees each of them
as a transition. At the ownership level: after every compaction commit allocated = claimed with
unique owners (`ownOk`), a page is released only if no surviving pin and no unchanged durable
root reaches it, and transaction ids never go backwards.
NOT covered: equality of table contents before and after (harness model oracle), and that the
file actually shrinks (finding F2 / C13 size oracle).
-/
namespace Redb.Life

theorem c13_own_iff {s : St} :
    ownOk s = true ↔ ((owned s).Nodup ∧ s.alloc.Nodup ∧ (∀ p, p ∈ s.alloc ↔ p ∈ owned s)) :=
  own_iff

theorem c13_released_only_unpinned {s s' : St} {p : Page} (h : ownOk s = true)
    (h' : ownOk s' = true) (hs : stepOk false s s' = true) (hp : p ∈ s.alloc)
    (hp' : p ∉ s'.alloc) :
    (∀ π ∈ surviving s s', p ∉ π.pages) ∧ (s.dur = s'.dur → p ∉ s.dsys) :=
  released_only_unpinned h h' hs hp hp'

/-- ids never go backwards across compaction commits -/
theorem c13_step_monotone {c : Bool} {s s' : St} (hs : stepOk c s s' = true) :
    s.dur ≤ s'.dur ∧ (c = false → s.id ≤ s'.id) :=
  step_monotone hs

end Redb.Life
