import RedbModel.Lemmas.Conc
/-!
# C03 — Commits take effect atomically and in one serial order

"Write transactions take effect one at a time, in the order their commits complete; at most one
write transaction is live at any moment and begin_write() waits for it to end; any transaction
begun after commit() has returned observes all of that commit's changes in every table; no
transaction ever observes uncommitted, aborted or partially applied changes, or sees the committed
state move backwards."

The theorems are about ALL executions of the interleaving model `Redb.Conc` (Model/Conc.lean):
any number of threads, any number of steps, every interleaving of the atomic actions
`register ; readRoot ; read… ; drop` (readers), `acquire ; body ; publish ; release` (committing
writers), `acquire ; [body ;] release` (aborting / no-change writers). A preemption "at any point
inside a call" is an interleaving point between two atomic actions; what makes the actions atomic in
redb is the tracker mutex (`register`, `acquire`, `release`), the state mutex (`publish`,
`readRoot`) and copy-on-write (`body` touches no page a reader can reach) — that correspondence is
what the forced-schedule harness tests through the monitor `accept`, whose soundness with respect
to the model is `c03_monitor_sound` (bottom of this file).

  * `c03_one_writer`                   one slot holder; `acquire` enabled iff the slot is free
  * `c03_publish_atomic`               one action = one version; observed ⇒ published earlier, never aborted
  * `c03_serial_order`                 committed list = publish order, strictly increasing; roots ∈ it
  * `c03_reads_after_commit`           release-after-publish before register ⇒ reader sees ≥ that version
  * `c03_monotone_reads`               a thread's successive reads never go backwards
  * `c03_no_backwards`                 (any two threads) a later root is never older than an earlier one
  * `c03_reader_root_ge_registered`    pin ≤ root for the two-step begin_read
  * `c03_pin_protects_root`            freeing only records ≤ oldest pin never frees what a root needs
  * `c03_monitor_sound`                `accept evs = true` ⇒ an execution of the model explains `evs`, and
                                       the declarative reading of every `read-end` / `write-end`
-/
namespace Redb.Conc

/-! ## one writer at a time -/

/-- In every reachable state at most one thread holds the write slot, the slot field names exactly
that thread, and `acquire` (begin_write getting the slot) is enabled iff the slot is free — so a
begin_write issued while a write transaction is live can only proceed after its `release`. -/
theorem c03_one_writer {s : Sys} (h : Reachable s) :
    (∀ t u, (s.pc t).holdsSlot = true → (s.pc u).holdsSlot = true → t = u) ∧
    (∀ t, s.slot = some t ↔ (s.pc t).holdsSlot = true) ∧
    (∀ t, (∃ s', Step s ⟨t, .acquire⟩ s') ↔ (s.slot = none ∧ s.pc t = .idle)) ∧
    (∀ t, (∃ s', Step s ⟨t, .acquire⟩ s') → ∀ u, (s.pc u).holdsSlot = false) := by
  have hi := inv_of_reachable h
  refine ⟨fun t u ht hu => hi.holder_unique ht hu, hi.slot, ?_, ?_⟩
  · intro t
    constructor
    · rintro ⟨s', hs⟩
      cases hpc : s.pc t <;> simp [Step, step, hpc] at hs
      exact ⟨hs.1, rfl⟩
    · rintro ⟨hfree, hpc⟩
      exact ⟨_, step_of_stepI (.acquire s t hpc hfree)⟩
  · rintro t ⟨s', hs⟩ u
    have hfree : s.slot = none := by
      cases hpc : s.pc t <;> simp [Step, step, hpc] at hs
      exact hs.1
    cases hh : (s.pc u).holdsSlot
    · rfl
    · have := (hi.slot u).mpr hh; rw [hfree] at this; cases this

/-! ## publication is one atomic action -/

theorem mem_pubs {tr : List Action} {v : Ver} : v ∈ pubs tr ↔ ∃ w, (⟨w, .publish v⟩ : Action) ∈ tr := by
  induction tr with
  | nil => simp [pubs]
  | cons a tr ih =>
    obtain ⟨t, act⟩ := a
    cases act <;> simp_all [pubs]
    · rename_i v'
      constructor
      · rintro (h | ⟨w, h⟩)
        · exact ⟨t, Or.inl ⟨rfl, h⟩⟩
        · exact ⟨w, Or.inr h⟩
      · rintro ⟨w, h | h⟩
        · exact Or.inl h.2
        · exact Or.inr ⟨w, h⟩

/-- (1) One action changes the set of visible versions by at most one version, and only `publish v`
changes it — by exactly the new version `v`, which was not visible before: there is no state in
which a version is "partially" visible.
(2) A version a thread observes (`read v`) was published by a `publish v` action EARLIER in the
execution (or is the initial empty version 0): uncommitted versions are never observed.
(3) A version observed is never an aborted one, now or at any later time. -/
theorem c03_publish_atomic :
    (∀ {s s' : Sys} {a : Action}, Reachable s → Step s a s' →
      (committed s'.log = committed s.log ∧ ∀ v, a.act ≠ .publish v) ∨
      (∃ v, a.act = .publish v ∧ committed s'.log = v :: committed s.log ∧ v ∉ committed s.log)) ∧
    (∀ {tr1 tr2 : List Action} {s : Sys} {r : Tid} {v : Ver},
      Exec init (tr1 ++ ⟨r, .read v⟩ :: tr2) s →
      (v = 0 ∨ ∃ w, (⟨w, .publish v⟩ : Action) ∈ tr1) ∧ (v, true) ∈ s.log ∧ (v, false) ∉ s.log) := by
  constructor
  · intro s s' a hr hs
    have hi := inv_of_reachable hr
    rcases stepI_log (stepI_of_step hs) with h | ⟨v, ha, hpc, h⟩ | ⟨v, ha, _, h⟩
    · exact Or.inl ⟨by rw [h.1], h.2⟩
    · refine Or.inr ⟨v, ha, by rw [h, committed_cons_true], ?_⟩
      intro hm
      have hb : v < s.nextVer ∧ ∀ e ∈ s.log, e.1 < v := by
        have := hi.thr a.tid; rw [hpc] at this; exact this
      exact Nat.lt_irrefl _ (hb.2 _ (mem_committed.mp hm))
    · refine Or.inl ⟨by rw [h, committed_cons_false], ?_⟩
      intro v' hv'; rw [ha] at hv'; cases hv'
  · intro tr1 tr2 s r v he
    obtain ⟨m, h1, h2⟩ := exec_append.mp he
    obtain ⟨m', hs, h3⟩ := exec_cons.mp h2
    have hmi : Inv m := h1.inv inv_init
    -- the reading thread holds root v, which is committed in m
    obtain ⟨hm', p, hpc⟩ := read_inv hs
    have hroot : (v, true) ∈ m.log := by have := hmi.thr r; rw [hpc] at this; exact this.2.2
    have hfin : (v, true) ∈ s.log := h2.log_mono _ hroot
    have hsi : Inv s := he.inv inv_init
    refine ⟨?_, hfin, sorted_status_unique hsi.sorted hfin⟩
    have hc := h1.committed_eq
    have : v ∈ committed m.log := mem_committed.mpr hroot
    rw [hc] at this
    simp [init, committed] at this
    rcases this with h | h
    · exact Or.inr (mem_pubs.mp h)
    · exact Or.inl h

/-! ## one serial order -/

/-- The committed versions, oldest first, are exactly version 0 followed by the versions of the
`publish` actions in the order in which those actions occurred; they are strictly increasing; and
the root of every reader is one of them. -/
theorem c03_serial_order {tr : List Action} {s : Sys} (he : Exec init tr s) :
    (committed s.log).reverse = 0 :: pubs tr ∧
    (0 :: pubs tr).Pairwise (· < ·) ∧
    (∀ r p v, s.pc r = .reading p v → v ∈ 0 :: pubs tr) := by
  have hc : (committed s.log).reverse = 0 :: pubs tr := by
    rw [he.committed_eq]; simp [init, committed]
  have hi : Inv s := he.inv inv_init
  refine ⟨hc, ?_, ?_⟩
  · rw [← hc, List.pairwise_reverse]
    exact committed_sorted hi.sorted
  · intro r p v hpc
    have : (v, true) ∈ s.log := by have := hi.thr r; rw [hpc] at this; exact this.2.2
    rw [← hc]; exact List.mem_reverse.mpr (mem_committed.mpr this)

/-! ## a transaction begun after commit() returned sees the commit -/

/-- once `v` is published it stays visible: the newest committed version is ≥ `v` ever after -/
theorem visible_after_publish {s0 s : Sys} {w : Tid} {v : Ver} {tr : List Action}
    (h0 : Reachable s0) (he : Exec s0 (⟨w, .publish v⟩ :: tr) s) : v ≤ latest s.log := by
  obtain ⟨m, hs, h2⟩ := exec_cons.mp he
  have hm : (v, true) ∈ m.log := by rw [(publish_inv hs).2]; exact List.mem_cons_self
  have hsi : Inv s := he.inv (inv_of_reachable h0)
  exact le_latest hsi.sorted (h2.log_mono _ hm)

/-- along any execution: if the newest committed version is ≥ `x` and every root thread `r` holds
is ≥ `x`, this stays so (a new root is the then-newest committed version) -/
theorem root_ge_along {r : Tid} {x : Ver} {sa sb : Sys} {tr : List Action} (hex : Exec sa tr sb)
    (hia : Inv sa) (h : x ≤ latest sa.log ∧ ∀ p' y', sa.pc r = .reading p' y' → x ≤ y') :
    x ≤ latest sb.log ∧ ∀ p' y', sb.pc r = .reading p' y' → x ≤ y' := by
  induction hex with
  | nil => exact h
  | @cons sa sm sb a tr hst _ ih =>
    obtain ⟨hla, hra⟩ := h
    have hsI := stepI_of_step hst
    have him := inv_step hia hsI
    have hmono := stepI_latest_mono hia hsI
    refine ih him ⟨Nat.le_trans hla hmono, ?_⟩
    intro p' y' hpc
    rcases stepI_reading hsI hpc with h | ⟨_, h⟩
    · exact hra _ _ h
    · omega

/-- If writer `w` published `v` and released the slot (commit() returned) before reader `r`
registers, then the id `r` pins, the root `r` reads, and every version `r` observes are ≥ `v`.
(Already `publish` before `register` suffices — the `release` is not even needed.) -/
theorem c03_reads_after_commit {w r : Tid} {v p x y : Ver} {tr1 tr2 tr3 tr4 tr5 tr6 : List Action}
    {s : Sys}
    (he : Exec init (tr1 ++ ⟨w, .publish v⟩ :: (tr2 ++ ⟨w, .release⟩ :: (tr3 ++ ⟨r, .register p⟩ ::
      (tr4 ++ ⟨r, .readRoot x⟩ :: (tr5 ++ ⟨r, .read y⟩ :: tr6))))) s) :
    v ≤ p ∧ v ≤ x ∧ v ≤ y := by
  obtain ⟨m1, h1, h2⟩ := exec_append.mp he
  have hm1 : Reachable m1 := h1.reachable .init
  -- state before the register
  have e2 : (⟨w, .publish v⟩ : Action) :: (tr2 ++ ⟨w, .release⟩ :: (tr3 ++ ⟨r, .register p⟩ ::
      (tr4 ++ ⟨r, .readRoot x⟩ :: (tr5 ++ ⟨r, .read y⟩ :: tr6)))) =
      (⟨w, .publish v⟩ :: (tr2 ++ ⟨w, .release⟩ :: tr3)) ++ (⟨r, .register p⟩ ::
      (tr4 ++ ⟨r, .readRoot x⟩ :: (tr5 ++ ⟨r, .read y⟩ :: tr6))) := by simp
  rw [e2] at h2
  obtain ⟨m2, h3, h4⟩ := exec_append.mp h2
  have hv2 : v ≤ latest m2.log := visible_after_publish hm1 h3
  have hm2 : Reachable m2 := h3.reachable hm1
  obtain ⟨m3, hs3, h5⟩ := exec_cons.mp h4
  have hp : p = latest m2.log := (register_inv hs3).1
  have hm3 : Reachable m3 := .step hm2 hs3
  have hl3 : latest m2.log ≤ latest m3.log :=
    stepI_latest_mono (inv_of_reachable hm2) (stepI_of_step hs3)
  obtain ⟨m4, h6, h7⟩ := exec_append.mp h5
  have hl4 : latest m3.log ≤ latest m4.log := h6.latest_mono (inv_of_reachable hm3)
  have hm4 : Reachable m4 := h6.reachable hm3
  obtain ⟨m5, hs5, h8⟩ := exec_cons.mp h7
  have hx : x = latest m4.log := (readRoot_inv hs5).1
  have hvx : v ≤ x := by omega
  refine ⟨by omega, hvx, ?_⟩
  -- the `read y` of thread r after its readRoot x: y is a root r read at or after that point
  -- invariant from m5 on: every root thread r holds is ≥ x, and latest ≥ x
  have hm5 : Reachable m5 := .step hm4 hs5
  obtain ⟨m6, h9, h10⟩ := exec_append.mp h8
  have h5inv : x ≤ latest m5.log ∧ ∀ p' y', m5.pc r = .reading p' y' → x ≤ y' := by
    obtain ⟨_, q, _, hq⟩ := readRoot_inv hs5
    refine ⟨by rw [hx]; exact stepI_latest_mono (inv_of_reachable hm4) (stepI_of_step hs5), ?_⟩
    intro p'' y' h; rw [hq] at h; cases h; exact Nat.le_refl _
  have h6inv := root_ge_along h9 (inv_of_reachable hm5) h5inv
  obtain ⟨m7, hs7, _⟩ := exec_cons.mp h10
  obtain ⟨_, p', hpc⟩ := read_inv hs7
  exact Nat.le_trans hvx (h6inv.2 _ _ hpc)

/-! ## the committed state never moves backwards -/

/-- A thread's successive reads — through one read transaction or through successive ones —
observe non-decreasing versions. -/
theorem c03_monotone_reads {t : Tid} {x y : Ver} {tr1 tr2 tr3 : List Action} {s : Sys}
    (he : Exec init (tr1 ++ ⟨t, .read x⟩ :: (tr2 ++ ⟨t, .read y⟩ :: tr3)) s) : x ≤ y := by
  obtain ⟨m1, h1, h2⟩ := exec_append.mp he
  obtain ⟨m1', hs1, h3⟩ := exec_cons.mp h2
  obtain ⟨rfl, p, hpc⟩ := read_inv hs1
  have hi1 : Inv m1' := h1.inv inv_init
  have hroot : (x, true) ∈ m1'.log := by have := hi1.thr t; rw [hpc] at this; exact this.2.2
  obtain ⟨m2, h4, h5⟩ := exec_append.mp h3
  have hinv := root_ge_along (r := t) (x := x) h4 hi1
    ⟨le_latest hi1.sorted hroot, fun p' y' h => by rw [hpc] at h; cases h; exact Nat.le_refl _⟩
  obtain ⟨m3, hs3, _⟩ := exec_cons.mp h5
  obtain ⟨_, p', hpc'⟩ := read_inv hs3
  exact hinv.2 _ _ hpc'

/-- Across threads too: a root read later in the execution is never older than a root read
earlier. -/
theorem c03_no_backwards {t u : Tid} {x y : Ver} {tr1 tr2 tr3 : List Action} {s : Sys}
    (he : Exec init (tr1 ++ ⟨t, .readRoot x⟩ :: (tr2 ++ ⟨u, .readRoot y⟩ :: tr3)) s) : x ≤ y := by
  obtain ⟨m1, h1, h2⟩ := exec_append.mp he
  obtain ⟨m1', hs1, h3⟩ := exec_cons.mp h2
  have hi1 : Inv m1 := h1.inv inv_init
  have hx := (readRoot_inv hs1).1
  have hl1 := stepI_latest_mono hi1 (stepI_of_step hs1)
  obtain ⟨m2, h4, h5⟩ := exec_append.mp h3
  have hl2 := h4.latest_mono (inv_step hi1 (stepI_of_step hs1))
  obtain ⟨m3, hs3, _⟩ := exec_cons.mp h5
  have hy := (readRoot_inv hs3).1
  omega

/-! ## the two-step begin_read errs on the safe side - for commits that free by the oldest pin

Finding F10 (DESIGN 0.3): the unrepaired code read the root after the registration, and the
non-durable commit path releases unpersisted pages by a policy that looks only at readers pinned on
pending non-durable commits - NOT the `policy` hypothesis of `c03_pin_protects_root` below. A reader
pinned on a durable id whose root was a later non-durable commit lost its pages. The repair makes
the two actions adjacent (`c03_atomic_begin_read`: root = pin). -/

/-- `begin_read` first registers (pins the then-latest id) and only afterwards reads the latest
root; a commit may be published in between. The pin is therefore never newer than the root:
in every reachable state `pin ≤ root`, and for any `register p` followed by `readRoot r`. -/
theorem c03_reader_root_ge_registered :
    (∀ {s : Sys} {t : Tid} {p r : Ver}, Reachable s → s.pc t = .reading p r → p ≤ r) ∧
    (∀ {t u : Tid} {p r : Ver} {tr1 tr2 tr3 : List Action} {s : Sys},
      Exec init (tr1 ++ ⟨t, .register p⟩ :: (tr2 ++ ⟨u, .readRoot r⟩ :: tr3)) s → p ≤ r) := by
  constructor
  · intro s t p r hr hpc
    have := (inv_of_reachable hr).thr t; rw [hpc] at this; exact this.1
  · intro t u p r tr1 tr2 tr3 s he
    obtain ⟨m1, h1, h2⟩ := exec_append.mp he
    obtain ⟨m1', hs1, h3⟩ := exec_cons.mp h2
    have hi1 : Inv m1 := h1.inv inv_init
    have hp := (register_inv hs1).1
    have hl1 := stepI_latest_mono hi1 (stepI_of_step hs1)
    obtain ⟨m2, h4, h5⟩ := exec_append.mp h3
    have hl2 := h4.latest_mono (inv_step hi1 (stepI_of_step hs1))
    obtain ⟨m3, hs3, _⟩ := exec_cons.mp h5
    have hr := (readRoot_inv hs3).1
    omega

/-- `begin_read` as repaired (finding F10): the root is read in the same critical section as the
registration, i.e. the two actions of a reader are adjacent in the execution. Then the root is
exactly the pinned version - the reader's registration protects precisely what it reads. -/
theorem c03_atomic_begin_read {t : Tid} {p r : Ver} {tr1 tr3 : List Action} {s : Sys}
    (he : Exec init (tr1 ++ ⟨t, .register p⟩ :: ⟨t, .readRoot r⟩ :: tr3) s) : r = p := by
  obtain ⟨m1, h1, h2⟩ := exec_append.mp he
  obtain ⟨m1', hs1, h3⟩ := exec_cons.mp h2
  obtain ⟨m2, hs2, _⟩ := exec_cons.mp h3
  have hp := (register_inv hs1).1
  have hr := (readRoot_inv hs2).1
  have hlog : m1'.log = m1.log := by
    unfold Step step at hs1
    split at hs1 <;> simp_all
    all_goals (try (split at hs1 <;> simp_all))
    all_goals (try (cases hs1; rfl))
  rw [hr, hp, hlog]

/-- the hypothesis is satisfiable: a reader of the initial state registers and reads its root -/
example : (exec init ([] ++ ⟨1, .register 0⟩ :: ⟨1, .readRoot 0⟩ :: [])).isSome = true := by decide

/-- the ids pinned in a state: those of the registered readers -/
def pinned (s : Sys) (p : Ver) : Prop :=
  ∃ t, s.pc t = .registered p ∨ ∃ r, s.pc t = .reading p r

/-- Why `pin ≤ root` is the safe side. Stated abstractly: every page that has been freed carries
the id of the transaction that freed it (`freedBy`, the key of its pending-free record);
`released` are the pages whose record is processed (handed back to the allocator) in state `s`.
The policy of `durable_commit` / `process_data_freed_pages_after_commit` — release only records
with id < oldest pin + 1, i.e. ≤ every pin — is the hypothesis `policy`. Then, while a reader is
registered with pin `p` and root `r`: nothing freed by a transaction newer than its pin is
released, and in particular no page its root needs (a page reachable from root `r` can only be
freed by a transaction newer than `r`, hypothesis `needs_newer`) is released. With `pin > root`
the second conclusion would fail for records with `root < id ≤ pin`. -/
theorem c03_pin_protects_root {Page : Type} {s : Sys} (hr : Reachable s)
    (freedBy : Page → Ver) (released : Page → Prop) (needs : Ver → Page → Prop)
    (policy : ∀ pg, released pg → ∀ p, pinned s p → freedBy pg ≤ p)
    (needs_newer : ∀ r pg, needs r pg → r < freedBy pg)
    {t : Tid} {p r : Ver} (ht : s.pc t = .reading p r) :
    (∀ pg, p < freedBy pg → ¬ released pg) ∧ (∀ pg, needs r pg → ¬ released pg) := by
  have hpr : p ≤ r := c03_reader_root_ge_registered.1 hr ht
  have hpin : pinned s p := ⟨t, Or.inr ⟨r, ht⟩⟩
  constructor
  · intro pg hlt hrel
    exact Nat.lt_irrefl _ (Nat.lt_of_lt_of_le hlt (policy pg hrel p hpin))
  · intro pg hn hrel
    have h1 := needs_newer r pg hn
    have h2 := policy pg hrel p hpin
    omega

/-! ## the monitor is sound for the model -/

theorem accept_run {evs : List Event} (h : accept evs = true) :
    ∃ mf cf, runFrom mon0 0 evs = .ok mf ∧ cf ∈ mf.cands := by
  unfold accept verdict at h
  split at h
  · rename_i hv
    split at hv
    · rename_i mf hrun
      split at hv
      · rename_i hfin
        simp only [Mon.finished, List.any_eq_true] at hfin
        obtain ⟨c1, hc1, _⟩ := hfin
        obtain ⟨c, hc, _⟩ := closeAll_exec hc1
        exact ⟨mf, c, hrun, hc⟩
      · cases hv
    · cases hv
  · cases h

/-- floor reported by the most recent `read-begin` of thread `t` in the prefix `pre` -/
def floorOf (t : Tid) (pre : List Event) : Ver := floorFrom t 0 pre

/-- If the monitor accepts the event stream of a schedule, then there is an execution `tr` of the
model, starting in the set-up state `init0` (itself reached from `init` by `setupTrace`), that
explains the stream — so all theorems above apply to it — and its final state `s` witnesses the
declarative reading of the monitor's checks:
* every `read-end v v2 … consistent` has `v2 = v`, `consistent = 1`, `v` ≥ the floor of its
  `read-begin`, `v` is a committed version — published by a `publish v` action of the execution (or
  by the set-up) — and is not an aborted one; and `v` was possibly visible at that point of the
  stream (`Possibly`: some thread had logged `write-started version=v` and then passed
  `mem.commit.before_swap` / `nondurable.before_publish`), or is one of the set-up versions ≤ 2;
* every `write-end committed v` names a published version, every `write-end aborted v` a version
  that is aborted and never visible;
* one writer at a time: when a `write-started` is logged, every other thread that had logged a
  `write-started` before has already passed `write.drop` (the pause point in
  `WriteTransaction::drop`, after which the slot is released — the harness logs `write-end` only
  after commit() has returned, which may be after the next writer has got the slot);
* the stream contains no `read-end error` and no `write-end error`. -/
theorem c03_monitor_sound {evs : List Event} (h : accept evs = true) :
    ∃ tr s, Exec init0 tr s ∧ Reachable s ∧ Exec init (setupTrace ++ tr) s ∧
      (∀ pre t v v2 ce k post, evs = pre ++ .readEnd t v v2 ce k :: post →
        v2 = v ∧ k = true ∧ floorOf t pre ≤ v ∧ (v, true) ∈ s.log ∧ (v, false) ∉ s.log ∧
        v ∈ 0 :: pubs (setupTrace ++ tr) ∧ (v ≤ 2 ∨ Possibly pre v)) ∧
      (∀ pre t v post, evs = pre ++ .writeEnd t (.committed v) :: post →
        (v, true) ∈ s.log ∧ v ∈ 0 :: pubs (setupTrace ++ tr)) ∧
      (∀ pre t v post, evs = pre ++ .writeEnd t (.aborted v) :: post →
        (v, false) ∈ s.log ∧ (v, true) ∉ s.log) ∧
      (∀ pre t v post, evs = pre ++ .writeStarted t v :: post →
        ∀ u w, u ≠ t → Event.writeStarted u w ∈ pre → Event.at u .writeDrop ∈ pre) ∧
      (∀ t, .readError t ∉ evs) ∧ (∀ t, .writeEnd t .error ∉ evs) := by
  obtain ⟨mf, cf, hrun, hcf⟩ := accept_run h
  obtain ⟨c0, hc0, tr, htr⟩ := runFrom_exec hrun cf hcf
  have hc0' : c0.sys = init0 := by
    simp [mon0] at hc0; subst hc0; rfl
  rw [hc0'] at htr
  have hreach : Reachable cf.sys := htr.reachable reachable_init0
  have hfull : Exec init (setupTrace ++ tr) cf.sys :=
    exec_append.mpr ⟨_, exec_iff.mpr exec_init0, htr⟩
  have hinv : Inv cf.sys := inv_of_reachable hreach
  have hser := c03_serial_order hfull
  have hpub : ∀ v, (v, true) ∈ cf.sys.log → v ∈ 0 :: pubs (setupTrace ++ tr) := by
    intro v hv
    rw [← hser.1]; exact List.mem_reverse.mpr (mem_committed.mpr hv)
  -- the candidate of `cf`'s lineage right after an event of the stream
  have lineage : ∀ pre e post, evs = pre ++ e :: post →
      ∃ m1 c1 c2, runFrom mon0 0 pre = .ok m1 ∧ Reachable c1.sys ∧ applyEv m1 c1 e = some c2 ∧
        (∀ x ∈ c2.sys.log, x ∈ cf.sys.log) ∧ KInv pre c1 ∧ WInv pre c1 := by
    intro pre e post hev
    rw [hev] at hrun
    obtain ⟨m1, m2, h1, h2, h3⟩ := runFrom_append hrun
    obtain ⟨c2, hc2, tr2, htr2⟩ := runFrom_exec h3 cf hcf
    obtain ⟨c, hc, c1, tr1, hcl, htr1, hap⟩ := (feed_lineage h2).2.2.2 c2 hc2
    have hK : KInv pre c1 := closeAll_K hcl (by simpa using runFrom_K h1 mon0_K)
    have hW : WInv pre c1 := closeAll_W hcl (by simpa using runFrom_W h1 mon0_W)
    obtain ⟨cc, hcc, tr0, htr0⟩ := runFrom_exec h1 c hc
    have hcc' : cc.sys = init0 := by
      simp [mon0] at hcc; subst hcc; rfl
    rw [hcc'] at htr0
    exact ⟨m1, c1, c2, h1, htr1.reachable (htr0.reachable reachable_init0), hap, htr2.log_mono, hK, hW⟩
  refine ⟨tr, cf.sys, htr, hreach, hfull, ?_, ?_, ?_, ?_, ?_, ?_⟩
  · intro pre t v v2 ce k post hev
    obtain ⟨m1, c1, c2, h1, hr1, hap, hmono, hK, hW⟩ := lineage _ _ _ hev
    obtain ⟨hk, hfl, hv2, hsys, p, hpc⟩ := applyEv_readEnd hap
    have hroot : (v, true) ∈ c1.sys.log := by
      have := (inv_of_reachable hr1).thr t; rw [hpc] at this; exact this.2.2
    have hfin : (v, true) ∈ cf.sys.log := hmono _ (by rw [hsys]; exact hroot)
    refine ⟨hv2, hk, ?_, hfin, sorted_status_unique hinv.sorted hfin, hpub v hfin, hK.log v hroot⟩
    have := runFrom_floor h1 t
    rw [this] at hfl
    exact hfl
  · intro pre t v post hev
    obtain ⟨m1, c1, c2, h1, hr1, hap, hmono, hK, hW⟩ := lineage _ _ _ hev
    have hfin := hmono _ (applyEv_writeEnd_committed hap).1
    exact ⟨hfin, hpub v hfin⟩
  · intro pre t v post hev
    obtain ⟨m1, c1, c2, h1, hr1, hap, hmono, hK, hW⟩ := lineage _ _ _ hev
    have hfin := hmono _ (applyEv_writeEnd_aborted hap).1
    refine ⟨hfin, fun ht => sorted_status_unique hinv.sorted ht hfin⟩
  · intro pre t v post hev u w hut hs
    obtain ⟨m1, c1, c2, h1, hr1, hap, hmono, hK, hW⟩ := lineage _ _ _ hev
    have hhold : (c1.sys.pc t).holdsSlot = true := by rw [applyEv_writeStarted hap]; rfl
    rcases hW.started u w hs with hh | hh
    · exact absurd ((inv_of_reachable hr1).holder_unique hh hhold) hut
    · exact hh
  · intro t hmem
    obtain ⟨pre, post, hev⟩ := List.append_of_mem hmem
    obtain ⟨m1, c1, c2, h1, hr1, hap, hmono, hK, hW⟩ := lineage _ _ _ hev
    simp [applyEv, evActs] at hap
  · intro t hmem
    obtain ⟨pre, post, hev⟩ := List.append_of_mem hmem
    obtain ⟨m1, c1, c2, h1, hr1, hap, hmono, hK, hW⟩ := lineage _ _ _ hev
    simp [applyEv, evActs] at hap

/-! ## non-vacuity: concrete schedules -/

set_option maxRecDepth 100000

/-- `sch begin first=Read second=WriteImm park=begin_read.registered#1` of /verif/.cache/C03_sched.ops
(seed 1): T1 is parked at `begin_read.registered` - it has its pin and, since the repair of F10,
its root - while T2 commits version 3 durably; T1 then reads version 2 -/
def exParked (seen : Ver) : List Event :=
  [.readBegin 1 2, .at 1 .beginReadRegistered,
   .writeBegin 2, .writeStarted 2 3, .at 2 .setDirty, .at 2 .setDirty, .at 2 .setDirty,
   .at 2 .durableHorizon, .at 2 .durableFreed, .at 2 .durableBeforeCommit,
   .at 2 .memBetweenHeaders, .at 2 .memBeforeSwap, .at 2 .durableAfterCommit,
   .at 2 .durableBeforeEpilogue, .at 2 .epilogueHorizon, .at 2 .writeDrop,
   .writeEnd 2 (.committed 3), .ctlRelease false,
   .readEnd 1 seen seen 3 true, .at 1 .guardDropRead]

example : accept (exParked 2) = true := by decide
/-- the stream of the unrepaired code (finding F10: pinned 2, read root 3) is no longer a trace -/
example : accept (exParked 3) = false := by decide

/-- `sch begin first=WriteImm second=Read park=mem.commit.before_swap#1` of the same file: the
writer is parked inside the publish window; the reader sees 2 -/
def exWindow (seen : Ver) : List Event :=
  [.writeBegin 1, .writeStarted 1 3, .at 1 .setDirty, .at 1 .setDirty, .at 1 .setDirty,
   .at 1 .durableHorizon, .at 1 .durableFreed, .at 1 .durableBeforeCommit,
   .at 1 .memBetweenHeaders, .at 1 .memBeforeSwap,
   .readBegin 2 2, .at 2 .beginReadRegistered, .readEnd 2 seen seen 3 true, .at 2 .guardDropRead,
   .ctlRelease false,
   .at 1 .durableAfterCommit, .at 1 .durableBeforeEpilogue, .at 1 .epilogueHorizon,
   .at 1 .writeDrop, .writeEnd 1 (.committed 3)]

example : accept (exWindow 2) = true := by decide
/-- inside the window the new version may already be visible as well … -/
example : accept (exWindow 3) = true := by decide
/-- … but nothing else -/
example : accept (exWindow 1) = false := by decide
example : accept (exWindow 4) = false := by decide

/-- stale read: version 1 although commit 2 had completed before begin_read (below the floor) -/
example : accept [.readBegin 1 2, .at 1 .beginReadRegistered, .readEnd 1 1 1 2 true,
    .at 1 .guardDropRead] = false := by decide

/-- stale read above the floor: the writer had passed `durable.after_commit` (3 certainly visible)
before the reader registered, the harness floor is still 2, the reader sees 2 -/
example : accept
  [.writeBegin 1, .writeStarted 1 3, .at 1 .setDirty, .at 1 .durableHorizon, .at 1 .durableFreed,
   .at 1 .durableBeforeCommit, .at 1 .memBetweenHeaders, .at 1 .memBeforeSwap,
   .at 1 .durableAfterCommit,
   .readBegin 2 2, .at 2 .beginReadRegistered, .readEnd 2 2 2 3 true, .at 2 .guardDropRead,
   .ctlRelease false,
   .at 1 .durableBeforeEpilogue, .at 1 .epilogueHorizon, .at 1 .writeDrop,
   .writeEnd 1 (.committed 3)] = false := by decide

/-- read of an aborted version -/
example : accept
  [.writeBegin 1, .writeStarted 1 3, .at 1 .setDirty, .at 1 .writeDrop, .writeEnd 1 (.aborted 3),
   .readBegin 2 2, .at 2 .beginReadRegistered, .readEnd 2 3 3 3 true, .at 2 .guardDropRead]
    = false := by decide

/-- read of a version not yet published: the writer is parked BEFORE the publish window opens -/
example : accept
  [.writeBegin 1, .writeStarted 1 3, .at 1 .setDirty, .at 1 .durableHorizon, .at 1 .durableFreed,
   .at 1 .durableBeforeCommit,
   .readBegin 2 2, .at 2 .beginReadRegistered, .readEnd 2 3 3 3 true, .at 2 .guardDropRead,
   .ctlRelease false,
   .at 1 .memBetweenHeaders, .at 1 .memBeforeSwap, .at 1 .durableAfterCommit,
   .at 1 .durableBeforeEpilogue, .at 1 .epilogueHorizon, .at 1 .writeDrop,
   .writeEnd 1 (.committed 3)] = false := by decide

/-- two write transactions started at once -/
example : accept
  [.writeBegin 1, .writeStarted 1 3, .at 1 .setDirty, .writeBegin 2, .writeStarted 2 4] = false := by
  decide

/-- torn read: the tables of the snapshot do not belong to one version -/
example : accept [.readBegin 1 2, .at 1 .beginReadRegistered, .readEnd 1 2 2 2 false,
    .at 1 .guardDropRead] = false := by decide

/-- the snapshot moved between two reads of one transaction -/
example : accept [.readBegin 1 2, .at 1 .beginReadRegistered, .readEnd 1 2 3 3 true,
    .at 1 .guardDropRead] = false := by decide

/-- the committed state moved backwards: a reader saw 3, a reader begun later sees 2 -/
example : accept
  [.writeBegin 1, .writeStarted 1 3, .at 1 .setDirty, .at 1 .ndHorizon, .at 1 .ndBeforePublish,
   .readBegin 2 2, .at 2 .beginReadRegistered, .readEnd 2 3 3 3 true, .at 2 .guardDropRead,
   .readBegin 2 2, .at 2 .beginReadRegistered, .readEnd 2 2 2 3 true, .at 2 .guardDropRead]
    = false := by decide

/-- C16 in the stream: an ephemeral savepoint passing its dirty check after a table was opened -/
example : accept [.writeBegin 1, .writeStarted 1 3, .at 1 .setDirty, .at 1 .spEnter,
    .at 1 .spChecked] = false := by decide

end Redb.Conc
