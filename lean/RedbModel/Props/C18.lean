import RedbModel.Model.CursorSpec
import RedbModel.Lemmas.CursorSpec
/-!
# C18 — Gap cursors agree with a sorted-map cursor

The specification `CursorSpec` (a zipper over the sorted-map spec of C04) really is a cursor of a
sorted map. Everything below holds for every key type `t` (the comparator laws are instantiated
with `Redb.Key.cmp_laws t`, proved for every built-in type in C15), every strictly sorted map with
valid keys, every bound, key, value and script. The implementation (`CursorMut` / `Cursor` in
src/table.rs over src/tree_store/btree_cursor.rs) is held to `CursorSpec` by the correspondence
run: every answer of every cursor call and the committed contents.

Batching. The implementation buffers runs of `insert_before` / `insert_after` and splices them into
the tree on move, removal, direction switch, 1 MiB of pending bytes, `close()` or drop. The
specification has no pending run: `c18_close_eq_spec` and `c18_run_flush_eq_*` say that a session
is the same as its edits applied one at a time with `Spec.insert` / `Spec.remove`, so batching is
unobservable exactly when the implementation agrees with the specification. The tree-level splice
(`splice_insert_run`, `build_replacement_leaves`, `build_branch_nodes`) is not modelled here.
-/
namespace Redb.CursorSpec
open Redb.Key Redb.Spec

/-! ### (a) `bound_gap` -/

/-- general form: the cursor stands for the same map; the keys before the gap are exactly the keys
the bound leaves below it -/
theorem c18_bound_gap (t : KT) (m : Map) (b : Bound) (hs : Sorted t m) (hv : KeysValid t m)
    (hb : ∀ x, b = .incl x ∨ b = .excl x → valid t x = true) :
    ((lowerBound t m b).toMap = m ∧
      (∀ e ∈ (lowerBound t m b).before, belowLower t b e.1 = true) ∧
      (∀ e ∈ (lowerBound t m b).after, belowLower t b e.1 = false)) ∧
    ((upperBound t m b).toMap = m ∧
      (∀ e ∈ (upperBound t m b).before, belowUpper t b e.1 = true) ∧
      (∀ e ∈ (upperBound t m b).after, belowUpper t b e.1 = false)) :=
  ⟨lowerBound_gap (cmp_laws t) m b hs hv hb, upperBound_gap (cmp_laws t) m b hs hv hb⟩

/-- `lower_bound(Included x)`: keys before the gap are `< x`, keys after it are `≥ x` -/
theorem c18_lower_bound_included (t : KT) (m : Map) (x : Bytes) (hs : Sorted t m)
    (hv : KeysValid t m) (hx : valid t x = true) :
    (lowerBound t m (.incl x)).toMap = m ∧
    (∀ e ∈ (lowerBound t m (.incl x)).before, cmp t e.1 x = .lt) ∧
    (∀ e ∈ (lowerBound t m (.incl x)).after, cmp t e.1 x ≠ .lt) := by
  have h := lowerBound_gap (cmp_laws t) m (.incl x) hs hv (by intro y hy; simp at hy; exact hy ▸ hx)
  simpa [belowLower] using h

/-- `lower_bound(Excluded x)`: keys before the gap are `≤ x`, keys after it are `> x` -/
theorem c18_lower_bound_excluded (t : KT) (m : Map) (x : Bytes) (hs : Sorted t m)
    (hv : KeysValid t m) (hx : valid t x = true) :
    (lowerBound t m (.excl x)).toMap = m ∧
    (∀ e ∈ (lowerBound t m (.excl x)).before, cmp t e.1 x ≠ .gt) ∧
    (∀ e ∈ (lowerBound t m (.excl x)).after, cmp t e.1 x = .gt) := by
  have h := lowerBound_gap (cmp_laws t) m (.excl x) hs hv (by intro y hy; simp at hy; exact hy ▸ hx)
  simpa [belowLower] using h

/-- `lower_bound(Unbounded)`: the gap before the first entry -/
theorem c18_lower_bound_unbounded (t : KT) (m : Map) :
    (lowerBound t m .unb).before = [] ∧ (lowerBound t m .unb).after = m := by
  cases m <;> simp [lowerBound, split, belowLower]

/-- `upper_bound(Included x)`: keys before the gap are `≤ x`, keys after it are `> x` -/
theorem c18_upper_bound_included (t : KT) (m : Map) (x : Bytes) (hs : Sorted t m)
    (hv : KeysValid t m) (hx : valid t x = true) :
    (upperBound t m (.incl x)).toMap = m ∧
    (∀ e ∈ (upperBound t m (.incl x)).before, cmp t e.1 x ≠ .gt) ∧
    (∀ e ∈ (upperBound t m (.incl x)).after, cmp t e.1 x = .gt) := by
  have h := upperBound_gap (cmp_laws t) m (.incl x) hs hv (by intro y hy; simp at hy; exact hy ▸ hx)
  simpa [belowUpper] using h

/-- `upper_bound(Excluded x)`: keys before the gap are `< x`, keys after it are `≥ x` -/
theorem c18_upper_bound_excluded (t : KT) (m : Map) (x : Bytes) (hs : Sorted t m)
    (hv : KeysValid t m) (hx : valid t x = true) :
    (upperBound t m (.excl x)).toMap = m ∧
    (∀ e ∈ (upperBound t m (.excl x)).before, cmp t e.1 x = .lt) ∧
    (∀ e ∈ (upperBound t m (.excl x)).after, cmp t e.1 x ≠ .lt) := by
  have h := upperBound_gap (cmp_laws t) m (.excl x) hs hv (by intro y hy; simp at hy; exact hy ▸ hx)
  simpa [belowUpper] using h

/-- `upper_bound(Unbounded)`: the gap after the last entry -/
theorem c18_upper_bound_unbounded (t : KT) (m : Map) (hs : Sorted t m) (hv : KeysValid t m) :
    (upperBound t m .unb).toMap = m ∧ (upperBound t m .unb).after = [] := by
  have h := upperBound_gap (cmp_laws t) m .unb hs hv (by intro y hy; simp at hy)
  refine ⟨h.1, ?_⟩
  have h3 := h.2.2
  simp only [belowUpper] at h3
  cases ha : (upperBound t m .unb).after with
  | nil => rfl
  | cons e rest => exact absurd (h3 e (by simp [ha])) (by simp)

/-- a cursor is its map plus a gap index (so `toMap = m` pins the zipper down to the index) -/
theorem c18_cursor_is_index (c : Cursor) : c = atIndex c.toMap c.gap ∧ c.gap ≤ c.toMap.length :=
  ⟨eq_atIndex c, gap_le c⟩

/-! ### (b) peek / next / prev -/

/-- the peeks return the entries at the gap index and the one before it -/
theorem c18_peek (c : Cursor) :
    peekNext c = c.toMap[c.gap]? ∧
    peekPrev c = if c.gap = 0 then none else c.toMap[c.gap - 1]? :=
  ⟨peekNext_eq_getElem c, peekPrev_eq_getElem c⟩

/-- `next` returns what `peek_next` showed, leaves the map alone, moves the gap by one exactly when
there was an entry, and that entry is then the one before the gap -/
theorem c18_next (c : Cursor) :
    (next c).2 = peekNext c ∧ (next c).1.toMap = c.toMap ∧
    (next c).1.gap = c.gap + (if (peekNext c).isSome then 1 else 0) ∧
    (∀ e, peekNext c = some e → peekPrev (next c).1 = some e) ∧
    (peekNext c = none → next c = (c, none)) :=
  ⟨next_ret c, next_toMap c, next_gap c, next_peekPrev c, next_at_end c⟩

theorem c18_prev (c : Cursor) :
    (prev c).2 = peekPrev c ∧ (prev c).1.toMap = c.toMap ∧
    (prev c).1.gap + (if (peekPrev c).isSome then 1 else 0) = c.gap ∧
    (∀ e, peekPrev c = some e → peekNext (prev c).1 = some e) ∧
    (peekPrev c = none → prev c = (c, none)) :=
  ⟨prev_ret c, prev_toMap c, prev_gap c, prev_peekNext c, prev_at_start c⟩

/-- `next ∘ prev = id` and `prev ∘ next = id` away from the edges -/
theorem c18_next_prev_id (c : Cursor) :
    (peekPrev c ≠ none → (next (prev c).1).1 = c) ∧ (peekNext c ≠ none → (prev (next c).1).1 = c) :=
  ⟨next_prev c, prev_next c⟩

/-! ### (c) `insert_accept_iff` -/

/-- an insert (either direction) is accepted iff the key sorts strictly between the gap's
neighbours; a missing neighbour is no constraint -/
theorem c18_insert_accept_iff (t : KT) (c : Cursor) (k v : Bytes) :
    ((insertBefore t c k v).isSome = true ↔
      (∀ p, peekPrev c = some p → cmp t p.1 k = .lt) ∧ (∀ n, peekNext c = some n → cmp t k n.1 = .lt)) ∧
    ((insertAfter t c k v).isSome = true ↔
      (∀ p, peekPrev c = some p → cmp t p.1 k = .lt) ∧ (∀ n, peekNext c = some n → cmp t k n.1 = .lt)) :=
  ⟨(insertBefore_isSome_iff c k v).trans (fits_iff c k), (insertAfter_isSome_iff c k v).trans (fits_iff c k)⟩

/-- equivalently: accepted iff splicing the entry into the gap keeps the map strictly sorted -/
theorem c18_insert_accept_iff_sorted (t : KT) (c : Cursor) (k v : Bytes)
    (hs : Sorted t c.toMap) (hv : KeysValid t c.toMap) (hk : valid t k = true) :
    (insertBefore t c k v).isSome = true ↔ Sorted t (c.before.reverse ++ (k, v) :: c.after) :=
  (insertBefore_isSome_iff c k v).trans (fits_iff_splice_sorted (cmp_laws t) c k v hs hv hk)

/-- an accepted `insert_before`: the map is `Spec.insert` of the old map (which replaced nothing),
still sorted, and the gap sits after the new entry -/
theorem c18_insert_before (t : KT) (c c' : Cursor) (k v : Bytes)
    (hs : Sorted t c.toMap) (hv : KeysValid t c.toMap) (hk : valid t k = true)
    (h : insertBefore t c k v = some c') :
    c'.toMap = (Spec.insert t c.toMap k v).1 ∧ (Spec.insert t c.toMap k v).2 = none ∧
    Sorted t c'.toMap ∧ KeysValid t c'.toMap ∧
    peekPrev c' = some (k, v) ∧ peekNext c' = peekNext c ∧ c'.gap = c.gap + 1 :=
  insertBefore_spec (cmp_laws t) c c' k v hs hv hk h

/-- an accepted `insert_after`: same map, the gap sits before the new entry -/
theorem c18_insert_after (t : KT) (c c' : Cursor) (k v : Bytes)
    (hs : Sorted t c.toMap) (hv : KeysValid t c.toMap) (hk : valid t k = true)
    (h : insertAfter t c k v = some c') :
    c'.toMap = (Spec.insert t c.toMap k v).1 ∧ (Spec.insert t c.toMap k v).2 = none ∧
    Sorted t c'.toMap ∧ KeysValid t c'.toMap ∧
    peekNext c' = some (k, v) ∧ peekPrev c' = peekPrev c ∧ c'.gap = c.gap :=
  insertAfter_spec (cmp_laws t) c c' k v hs hv hk h

/-! ### (d) removals -/

/-- `remove_next` removes exactly the entry after the gap: the map is `Spec.remove` of its key, the
gap index and the entry before the gap are unchanged and the entry after it is the removed entry's
old successor -/
theorem c18_remove_next (t : KT) (c : Cursor) (e : Entry)
    (hs : Sorted t c.toMap) (hv : KeysValid t c.toMap) (h : peekNext c = some e) :
    (removeNext c).2 = some e ∧
    (removeNext c).1.toMap = (Spec.remove t c.toMap e.1).1 ∧ (Spec.remove t c.toMap e.1).2 = some e.2 ∧
    peekPrev (removeNext c).1 = peekPrev c ∧ peekNext (removeNext c).1 = c.toMap[c.gap + 1]? ∧
    (removeNext c).1.gap = c.gap :=
  removeNext_spec (cmp_laws t) c e hs hv h

theorem c18_remove_prev (t : KT) (c : Cursor) (e : Entry)
    (hs : Sorted t c.toMap) (hv : KeysValid t c.toMap) (h : peekPrev c = some e) :
    (removePrev c).2 = some e ∧
    (removePrev c).1.toMap = (Spec.remove t c.toMap e.1).1 ∧ (Spec.remove t c.toMap e.1).2 = some e.2 ∧
    peekNext (removePrev c).1 = peekNext c ∧
    peekPrev (removePrev c).1 = (if c.gap ≤ 1 then none else c.toMap[c.gap - 2]?) ∧
    (removePrev c).1.gap + 1 = c.gap :=
  removePrev_spec (cmp_laws t) c e hs hv h

/-- at the edges the removals return `None` and change nothing -/
theorem c18_remove_at_edge (c : Cursor) :
    (peekNext c = none → removeNext c = (c, none)) ∧ (peekPrev c = none → removePrev c = (c, none)) :=
  ⟨removeNext_at_end c, removePrev_at_start c⟩

/-! ### (e) `close_eq_spec` -/

/-- Whatever the script (moves, peeks, inserts in both directions, accepted or rejected, removals),
the map left by `close()` is the old map with the script's accepted inserts and its removals
applied in order through `Spec.insert` / `Spec.remove`, and it is a sorted map again. -/
theorem c18_close_eq_spec (t : KT) (ops : List Op) (c : Cursor)
    (hs : Sorted t c.toMap) (hv : KeysValid t c.toMap) (hops : ∀ op ∈ ops, OpValid t op) :
    (run t c ops).toMap = applyEdits t c.toMap (edits t c ops) ∧
    Sorted t (run t c ops).toMap ∧ KeysValid t (run t c ops).toMap :=
  run_eq_edits (cmp_laws t) ops c hs hv hops

/-- the same from a bound: open at `lower_bound(b)` / `upper_bound(b)` of a sorted table `m`, run a
script, close: the table is `m` with the script's edits applied -/
theorem c18_session_eq_spec (t : KT) (m : Map) (b : Bound) (upper : Bool) (ops : List Op)
    (hs : Sorted t m) (hv : KeysValid t m)
    (hb : ∀ x, b = .incl x ∨ b = .excl x → valid t x = true) (hops : ∀ op ∈ ops, OpValid t op) :
    let c := if upper then upperBound t m b else lowerBound t m b
    (run t c ops).toMap = applyEdits t m (edits t c ops) ∧ Sorted t (run t c ops).toMap := by
  intro c
  have hm : c.toMap = m := by
    cases upper
    · exact (lowerBound_gap (cmp_laws t) m b hs hv hb).1
    · exact (upperBound_gap (cmp_laws t) m b hs hv hb).1
  have h := run_eq_edits (cmp_laws t) ops c (hm ▸ hs) (hm ▸ hv) hops
  exact ⟨hm ▸ h.1, h.2.1⟩

/-- batching is unobservable in the specification: an accepted ascending run of `insert_before`
is the one-pass splice `before ++ run ++ after` and equals the entries inserted one at a time -/
theorem c18_run_flush_eq_before (t : KT) (r : List Entry) (c c' : Cursor)
    (hs : Sorted t c.toMap) (hv : KeysValid t c.toMap) (hr : ∀ e ∈ r, valid t e.1 = true)
    (h : insertRunBefore t c r = some c') :
    c'.before = r.reverse ++ c.before ∧ c'.after = c.after ∧
    c'.toMap = r.foldl (fun m e => (Spec.insert t m e.1 e.2).1) c.toMap ∧
    Sorted t c'.toMap ∧ KeysValid t c'.toMap :=
  insertRunBefore_spec (cmp_laws t) r c c' hs hv hr h

/-- the same for a descending run of `insert_after` -/
theorem c18_run_flush_eq_after (t : KT) (r : List Entry) (c c' : Cursor)
    (hs : Sorted t c.toMap) (hv : KeysValid t c.toMap) (hr : ∀ e ∈ r, valid t e.1 = true)
    (h : insertRunAfter t c r = some c') :
    c'.before = c.before ∧ c'.after = r.reverse ++ c.after ∧
    c'.toMap = r.foldl (fun m e => (Spec.insert t m e.1 e.2).1) c.toMap ∧
    Sorted t c'.toMap ∧ KeysValid t c'.toMap :=
  insertRunAfter_spec (cmp_laws t) r c c' hs hv hr h

/-
Not stated here (no Lean model of the tree-level splice yet; DESIGN §C18 `splice_refines`):

  theorem c18_splice_refines (t) (tr : BTree.Tree) (path) (run : List Entry) :
      wf t none none d tr → runFitsGap t tr path run →
      wf t none none d' (spliceInsertRun t tr path run) ∧
      flatten (spliceInsertRun t tr path run) = run.foldl (fun m e => (Spec.insert t m e.1 e.2).1) (flatten tr)

i.e. that `MutateHelper::splice_insert_run` / `build_replacement_leaves` / `build_branch_nodes`
produce a well-formed tree whose entry list is the spec-level splice of `c18_run_flush_eq_*`. Until
then that step is covered only by the correspondence run (every answer, `scan` of the uncommitted
tree after a session, and `dump` after commit, at page sizes 512/1024/4096).
-/

end Redb.CursorSpec
