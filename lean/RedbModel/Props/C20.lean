import RedbModel.Lemmas.Backend
import RedbModel.Lemmas.CloseGuard
/-!
# C20 — The storage backend is used according to its contract

"redb reads and writes only within the current length of the storage and never shrinks it below a
page it still uses; it never touches the backend after calling close() and calls close() exactly
once for every backend it was given; a read-only database never writes, resizes or syncs."

Part 1 (temporal): `Redb.Backend.accept` is the automaton the driver runs on the recorded,
run-length encoded call stream of one backend instance. The theorems below hold for ALL streams and
say what acceptance means on the plain call sequence `expand calls`:
  * `c20_accept_iff`                      acceptance = the three counters
  * `run_closes/run_mutations/run_afterClose`  the counters are the declarative list quantities
  * `c20_close_exactly_once_and_last`     accepted ⇒ exactly one `close`, and it is the last call
  * `c20_readonly_never_mutates`          accepted read-only ⇒ no `write`/`setLen`/`sync` at all
  * `c20_accept_iff_declarative`          the two together are equivalent to acceptance
Part 2 (bounds): arithmetic of the region layout (`Redb.Format.Layout`, validated against real
images by C10): a page that is `inRange` lies entirely inside `fileLen` — with NO well-formedness
hypothesis on the layout at all (`inRange` as defined is strong enough) — and pages of different
regions, or of one region with disjoint base-page intervals, have disjoint address ranges.
Part 3 (interleavings): Part 1 speaks about ONE recorded stream. That the stream is accepted for
EVERY schedule of the threads that use the backend — a reader on another thread may be inside a
backend call while the `Database` is dropped — rests on the `in_flight` lock of `CheckedBackend`;
`Redb.CloseGuard` (Model/CloseGuard.lean) is an interleaving model of that protocol for any number
of caller threads, at the granularity of the code. For every reachable state of the guarded model:
  * `c20_no_call_after_close`        no `call` follows `close` in the backend's log, and no thread is
                                     between its latch test and its return while the closer holds the
                                     lock or after the backend was closed (no overlap either)
  * `c20_close_once`                 at most one `close` (exactly one iff `backendClosed`)
  * `c20_refused_after_flags`        a call that begins after `setFlags` never enters the backend
  * `c20_close_waits_while_held`     the closer cannot take the lock while a caller holds the guard
  * `c20_close_eventually_enabled`   … and the holders can all finish, without waiting for anything,
                                     in at most 2 (so certainly 3) steps each; then the closer can go on
  * `c20_unguarded_race_witness`, `c20_partial_guard_race_witness`: without the guard (the code before
    the fix), or with one class of calls skipping it (the seeded variant), a `call` after `close` IS
    reachable — the guard is what the property rests on
  * `c20_race_replay_guarded`        the forced schedule of the contract harness on the model: what the
                                     driver predicts for every `close-race-*` scenario line
NOT covered here: that every `read`/`write` offset the real backend sees is a `pageAddr` of an
in-range page or a header access, and the "never shrinks below a used page" part; both are checked
by the recording backend of the contract harness against the real length at the time of the call.
-/
namespace Redb.Backend

/-! ## Part 1: the temporal automaton -/

/-- acceptance is exactly: one `close`, no call after the first `close`, and no mutation when
read-only -/
theorem c20_accept_iff (ro : Bool) (calls : List (Call × Nat)) :
    accept ro calls = true ↔
      ((run calls).closes = 1 ∧ (run calls).afterClose = 0 ∧
        (ro = true → (run calls).mutations = 0)) := by
  cases ro <;> simp [accept, and_assoc]

/-- `closes` is the number of `close` calls of the stream -/
theorem run_closes (calls : List (Call × Nat)) :
    (run calls).closes = (expand calls).count .close := by
  rw [run_eq_runFrom, (runFrom_spec (expand calls) {}).1]; simp

/-- `mutations` is the number of `write`/`setLen`/`sync` calls of the stream -/
theorem run_mutations (calls : List (Call × Nat)) :
    (run calls).mutations = ((expand calls).filter Call.mutates).length := by
  rw [run_eq_runFrom, (runFrom_spec (expand calls) {}).2.1]; simp

/-- `afterClose` is the number of calls other than `close` after the first `close`:
`afterCloseCount l = (((l.dropWhile (· != .close)).drop 1).filter (· != .close)).length` -/
theorem run_afterClose (calls : List (Call × Nat)) :
    (run calls).afterClose = afterCloseCount (expand calls) := by
  rw [run_eq_runFrom, (runFrom_spec (expand calls) {}).2.2]; simp

theorem afterCloseCount_def (l : List Call) :
    afterCloseCount l = (((l.dropWhile (· != .close)).drop 1).filter (· != .close)).length := rfl

/-- the same reading without `dropWhile`: split the stream at its first `close` -/
theorem run_afterClose_split (calls : List (Call × Nat)) (pre post : List Call)
    (h : expand calls = pre ++ .close :: post) (hp : Call.close ∉ pre) :
    (run calls).afterClose = (post.filter (· != .close)).length := by
  rw [run_afterClose, afterCloseCount, h, afterFirstClose_spec pre post hp]; rfl

/-- … and such a split exists as soon as there is a `close`; without one the counter is 0 -/
theorem run_afterClose_cases (calls : List (Call × Nat)) :
    (Call.close ∉ expand calls ∧ (run calls).afterClose = 0) ∨
    (∃ pre post, expand calls = pre ++ .close :: post ∧ Call.close ∉ pre ∧
      (run calls).afterClose = (post.filter (· != .close)).length) := by
  by_cases h : Call.close ∈ expand calls
  · obtain ⟨pre, e, hp⟩ := exists_first_close _ h
    exact .inr ⟨pre, _, e, hp, run_afterClose_split calls pre _ e hp⟩
  · refine .inl ⟨h, ?_⟩
    rw [run_afterClose, afterCloseCount, afterFirstClose_no_close _ h]; rfl

/-- "never touches the backend after calling close() and calls close() exactly once":
an accepted stream consists of calls other than `close` followed by one final `close` -/
theorem c20_close_exactly_once_and_last (ro : Bool) (calls : List (Call × Nat))
    (h : accept ro calls = true) :
    ∃ pre, expand calls = pre ++ [.close] ∧ Call.close ∉ pre := by
  obtain ⟨h1, h2, _⟩ := (c20_accept_iff ro calls).1 h
  rw [run_closes] at h1
  rw [run_afterClose] at h2
  exact close_last_of_counts _ h1 h2

theorem mutations_zero_iff (l : List Call) :
    (l.filter Call.mutates).length = 0 ↔ ∀ c ∈ l, c.mutates = false := by
  simp [List.filter_eq_nil_iff]

/-- "a read-only database never writes, resizes or syncs" -/
theorem c20_readonly_never_mutates (calls : List (Call × Nat)) (h : accept true calls = true) :
    ∀ c ∈ expand calls, c.mutates = false := by
  obtain ⟨_, _, h3⟩ := (c20_accept_iff true calls).1 h
  have := h3 rfl
  rw [run_mutations] at this
  exact (mutations_zero_iff _).1 this

theorem Call.mutates_false_iff (c : Call) :
    c.mutates = false ↔ c ≠ .write ∧ c ≠ .setLen ∧ c ≠ .sync := by
  cases c <;> simp [Call.mutates]

/-- soundness and completeness of the automaton with respect to the declarative contract -/
theorem c20_accept_iff_declarative (ro : Bool) (calls : List (Call × Nat)) :
    accept ro calls = true ↔
      ((∃ pre, expand calls = pre ++ [.close] ∧ Call.close ∉ pre) ∧
        (ro = true → ∀ c ∈ expand calls, c.mutates = false)) := by
  constructor
  · intro h
    refine ⟨c20_close_exactly_once_and_last ro calls h, ?_⟩
    intro hro; subst hro
    exact c20_readonly_never_mutates calls h
  · rintro ⟨⟨pre, e, hp⟩, hm⟩
    rw [c20_accept_iff, run_closes, run_afterClose, run_mutations, e]
    obtain ⟨c1, c2⟩ := counts_of_close_last pre hp
    refine ⟨c1, c2, fun hro => ?_⟩
    rw [← e]
    exact (mutations_zero_iff _).2 (hm hro)

/-! ### the automaton on concrete streams -/

-- a normal read-write session: accepted
example : accept false [(.len, 1), (.read, 3), (.write, 2), (.read, 1), (.setLen, 1), (.write, 4),
    (.sync, 1), (.close, 1)] = true := by decide
-- a read-only session: accepted
example : accept true [(.len, 2), (.read, 7), (.len, 1), (.close, 1)] = true := by decide
-- zero-length runs are no calls
example : accept true [(.read, 1), (.write, 0), (.close, 0), (.close, 1), (.read, 0)] = true := by
  decide
-- two closes
example : accept false [(.read, 1), (.close, 1), (.close, 1)] = false := by decide
example : accept false [(.read, 1), (.close, 2)] = false := by decide
-- a read after close
example : accept false [(.write, 1), (.close, 1), (.read, 1)] = false := by decide
-- a `len` between two closes is counted once as after-close, and the double close is seen too
example : (run [(.close, 1), (.len, 1), (.close, 1)]).closes = 2 ∧
    (run [(.close, 1), (.len, 1), (.close, 1)]).afterClose = 1 := by decide
-- a write / resize / sync on a read-only stream
example : accept true [(.read, 2), (.write, 1), (.close, 1)] = false := by decide
example : accept true [(.read, 2), (.setLen, 1), (.close, 1)] = false := by decide
example : accept true [(.read, 2), (.sync, 1), (.close, 1)] = false := by decide
-- no close at all (leaked backend)
example : accept false [(.read, 2), (.write, 1), (.sync, 1)] = false := by decide
example : accept false [] = false := by decide

end Redb.Backend

namespace Redb.Format

/-! ## Part 2: in-range pages lie inside the file -/

/-- "a page that is in range lies entirely inside the file": start + length ≤ `fileLen`.
No hypothesis on the layout is needed (not even `0 < pageSize`): `inRange` demands an existing
region and `(index + 1) * 2^order ≤ regionPages region`, and `fileLen` covers the data section of
every existing region. -/
theorem c20_addr_in_bounds (L : Layout) (pn : PageNumber) (h : L.inRange pn = true) :
    (L.pageAddr pn).1 + (L.pageAddr pn).2 ≤ L.fileLen :=
  Nat.le_trans (page_end_le_dataEnd L pn h)
    (dataEnd_le_fileLen L pn.region ((inRange_iff L pn).1 h).2.1)

/-- the same bound with `pageAddr` unfolded: the byte range
`[start, start + pageSize * 2^order)` that `PageNumber::address_range` yields -/
theorem c20_addr_in_bounds' (L : Layout) (pn : PageNumber) (h : L.inRange pn = true) :
    L.pageSize + pn.region * (L.regionHeaderPages + L.regionMaxDataPages) * L.pageSize
      + L.regionHeaderPages * L.pageSize + pn.index * (L.pageSize * 2 ^ pn.order)
      + L.pageSize * 2 ^ pn.order ≤ L.fileLen :=
  c20_addr_in_bounds L pn h

/-- a page never overlaps the super header (page 0) nor the header of its own region -/
theorem c20_addr_above_headers (L : Layout) (pn : PageNumber) :
    L.pageSize ≤ (L.pageAddr pn).1 ∧
    L.regionBase pn.region + L.regionHeaderPages * L.pageSize ≤ (L.pageAddr pn).1 := by
  have := dataBase_le_page_start L pn
  rw [← regionBase_le_dataBase] at this
  refine ⟨?_, this⟩
  simp only [Layout.regionBase] at this
  omega

/-- an in-range page lies inside the data section of its region -/
theorem c20_addr_in_region (L : Layout) (pn : PageNumber) (h : L.inRange pn = true) :
    L.dataBase pn.region ≤ (L.pageAddr pn).1 ∧
    (L.pageAddr pn).1 + (L.pageAddr pn).2 ≤ L.dataEnd pn.region :=
  ⟨dataBase_le_page_start L pn, page_end_le_dataEnd L pn h⟩

/-- pages of different regions: the one in the lower region ends before the other begins -/
theorem c20_addr_regions_ordered (L : Layout) (p q : PageNumber) (hp : L.inRange p = true)
    (hq : L.inRange q = true) (hr : p.region < q.region) :
    (L.pageAddr p).1 + (L.pageAddr p).2 ≤ (L.pageAddr q).1 := by
  have hqr := ((inRange_iff L q).1 hq).2.1
  have hfull : p.region < L.numFullRegions := by
    simp only [Layout.numRegions] at hqr
    split at hqr <;> omega
  have h1 := page_end_le_dataEnd L p hp
  rw [dataEnd_full L _ hfull] at h1
  have h2 := regionBase_mono L (Nat.succ_le_of_lt hr)
  have h3 := dataBase_le_page_start L q
  rw [← regionBase_le_dataBase] at h3
  rw [Nat.succ_eq_add_one] at h2
  omega

/-- pages of different regions have disjoint address ranges -/
theorem c20_addr_disjoint_regions (L : Layout) (p q : PageNumber) (hp : L.inRange p = true)
    (hq : L.inRange q = true) (hr : p.region ≠ q.region) :
    (L.pageAddr p).1 + (L.pageAddr p).2 ≤ (L.pageAddr q).1 ∨
    (L.pageAddr q).1 + (L.pageAddr q).2 ≤ (L.pageAddr p).1 := by
  rcases Nat.lt_or_gt_of_ne hr with h | h
  · exact .inl (c20_addr_regions_ordered L p q hp hq h)
  · exact .inr (c20_addr_regions_ordered L q p hq hp h)

/-- pages of one region whose base-page intervals `[index * 2^order, (index + 1) * 2^order)` are
disjoint (what the buddy allocator guarantees, C09) have disjoint address ranges -/
theorem c20_addr_disjoint_same_region (L : Layout) (p q : PageNumber) (hr : p.region = q.region)
    (hi : (p.index + 1) * 2 ^ p.order ≤ q.index * 2 ^ q.order) :
    (L.pageAddr p).1 + (L.pageAddr p).2 ≤ (L.pageAddr q).1 := by
  rw [(pageAddr_eq L p).2, (pageAddr_eq L q).1, hr]
  exact Nat.add_le_add_left (Nat.mul_le_mul_right _ hi) _

/-- on an image at least as long as the layout says, the length test of `getPage` is implied by
`inRange`: every in-range page can be read -/
theorem c20_getPage_some (img : ByteArray) (L : Layout) (pn : PageNumber)
    (hlen : L.fileLen ≤ img.size) (h : L.inRange pn = true) :
    getPage img L pn =
      some (img.extract (L.pageAddr pn).1 ((L.pageAddr pn).1 + (L.pageAddr pn).2)).toList := by
  have := Nat.le_trans (c20_addr_in_bounds L pn h) hlen
  simp [getPage, h, this]

/-- the bound is tight: the last page of the last region ends exactly at `fileLen`, so `fileLen`
is the least length that contains every in-range page (trailing region present) -/
theorem c20_fileLen_tight (L : Layout) (ht : 0 < L.trailingPages) :
    let pn : PageNumber := { region := L.numFullRegions, index := L.trailingPages - 1, order := 0 }
    L.inRange pn = true ∧ (L.pageAddr pn).1 + (L.pageAddr pn).2 = L.fileLen := by
  intro pn
  have hin : L.inRange pn = true := by
    rw [inRange_iff]
    simp only [pn, Layout.numRegions, Layout.regionPages, ht, Nat.lt_irrefl, if_true, if_false]
    omega
  refine ⟨hin, ?_⟩
  rw [(pageAddr_eq L pn).2]
  simp only [pn, Layout.dataBase, Layout.fileLen, ht, if_true]
  rw [Nat.add_mul L.regionHeaderPages, Nat.sub_add_cancel ht, Nat.pow_zero, Nat.mul_one]
  omega

end Redb.Format

namespace Redb.CloseGuard

/-! ## Part 3: the close guard, for every interleaving -/

/-- (1) "never touches the backend after calling close()", for every interleaving of any number of
caller threads with the closer: in the backend's log no `call` follows `close`; and while the
closer holds the lock exclusively (which includes the instant of `backendClose`) or after the
backend was closed, no thread is inside the backend or about to enter it — a call does not overlap
the close either. -/
theorem c20_no_call_after_close {s : Sys} (h : Reachable .guarded s) :
    (∀ pre post, s.log = pre ++ .close :: post → ∀ t, Ev.call t ∉ post) ∧
    ((s.writer = true ∨ s.backendClosed = true) →
      ∀ t g, s.pc t ≠ .inBackend g ∧ s.pc t ≠ .passedLatch g) := by
  have hi := inv_reachable h
  constructor
  · obtain ⟨cs, hl⟩ := hi.log
    have hno : callAfterClose s.log = false := by
      rw [hl, callAfterClose_calls]
      cases s.backendClosed <;> rfl
    intro pre post e t ht
    have := (callAfterClose_iff s.log).2 ⟨pre, post, t, e, ht⟩
    rw [hno] at this; cases this
  · intro hwc t g
    have hpa : s.cpc.pastAcquire = true := by
      rcases hwc with hw | hc
      · rw [hi.writer] at hw
        cases hcpc : s.cpc <;> simp_all [CPC.holdsExclusive, CPC.pastAcquire]
      · rw [hi.closed] at hc
        exact pastClose_pastAcquire hc
    have := hi.quiet hpa t
    constructor <;> intro e <;> simp [e, PC.committed] at this

/-- the same, as the Boolean check that the witnesses below use -/
theorem c20_no_call_after_close_bool {s : Sys} (h : Reachable .guarded s) :
    callAfterClose s.log = false := by
  cases hc : callAfterClose s.log with
  | false => rfl
  | true =>
    obtain ⟨pre, post, t, e, ht⟩ := (callAfterClose_iff _).1 hc
    exact absurd ht ((c20_no_call_after_close h).1 pre post e t)

/-- (2) "calls close() exactly once": at most one `close` event, and exactly one as soon as the
closer has passed `backendClose` -/
theorem c20_close_once {s : Sys} (h : Reachable .guarded s) :
    s.log.count .close ≤ 1 ∧ s.log.count .close = if s.backendClosed then 1 else 0 := by
  obtain ⟨cs, hl⟩ := (inv_reachable h).log
  have : s.log.count .close = if s.backendClosed then 1 else 0 := by
    rw [hl, List.count_append, count_close_calls]
    cases s.backendClosed <;> simp
  refine ⟨?_, this⟩
  rw [this]; split <;> omega

/-- (3) a caller that starts a call — takes the shared guard — after `setFlags` is refused: from a
state in which the flags are set and thread `t` is not past the latch test of a call, no
execution contains `enterBackend` of `t`, `t` is never inside the backend, and the backend sees no
further call of `t`. This is the latch alone and holds in all three variants; what the guard adds
is (1) for the callers that passed the latch BEFORE `setFlags`. -/
theorem c20_refused_after_flags {v : Variant} {s s' : Sys} {tr : List Action} {t : Nat}
    (hflag : s.closedFlag = true) (hpc : (s.pc t).committed = false) (hex : Exec v s tr s') :
    Action.caller t .enterBackend ∉ tr ∧ (∀ g, s'.pc t ≠ .inBackend g) ∧
      s'.log.count (.call t) = s.log.count (.call t) := by
  obtain ⟨_, h2, h3, h4⟩ := latch_exec hex hflag hpc
  refine ⟨h3, fun g e => ?_, h4⟩
  simp [e, PC.committed] at h2

/-- (3), one step: the latch test of such a caller answers "refused" and gives the guard back -/
theorem c20_latch_refuses {s s1 s2 : Sys} {t : Nat} (hflag : s.closedFlag = true)
    (h1 : Step s (.caller t .acquireShared) s1) (h2 : Step s1 (.caller t .testLatch) s2) :
    s2.pc t = .refused ∧ s2.readers = s.readers := by
  cases stepI_of_step h1 with
  | acquire _ hpc _ _ =>
    cases stepI_of_step h2 with
    | refuseG _ _ _ => simp [setPc]
    | passG _ _ hl => simp [Sys.latchShut, hflag] at hl
    | refuseU _ hp _ _ => simp [setPc] at hp
    | passU _ hp _ _ => simp [setPc] at hp

/-- the closer waits: `acquireExclusive` is not enabled while some thread holds the shared guard -/
theorem c20_close_waits_while_held {s : Sys} {t : Nat} (h : Reachable .guarded s)
    (ht : (s.pc t).holds = true) : step .guarded s (.closer .acquireExclusive) = none := by
  obtain ⟨hs, hh⟩ := (inv_reachable h).holders
  cases hcpc : s.cpc <;> simp only [step, hcpc]
  split
  · rename_i h0
    have := holders_zero (h0 ▸ hh) t
    rw [ht] at this; cases this
  · rfl

/-- a thread that holds the guard never waits: its next action (`testLatch`, `enterBackend` or
`leaveBackend`) is enabled in every state, whatever the closer and the other threads do -/
theorem c20_holder_never_waits {v : Variant} {s : Sys} {t : Nat} (h : (s.pc t).holds = true) :
    ∃ c s', c.nonBlocking = true ∧ StepV v s (.caller t c) s' :=
  holder_never_waits h

/-- (4) no deadlock, weak form: from any reachable state in which the closer waits for the
exclusive lock there is a finite execution — only non-blocking steps of threads that hold the
shared guard now, at most 2 (a fortiori 3) per holder: `readers` is the number of holders — after
which `acquireExclusive` is enabled. So under fair scheduling the close is eventually enabled. -/
theorem c20_close_eventually_enabled {s : Sys} (h : Reachable .guarded s) (hw : s.cpc = .flagged) :
    ∃ tr s', Exec .guarded s tr s' ∧ tr.length ≤ 2 * s.readers ∧ tr.length ≤ 3 * s.readers ∧
      (∀ a ∈ tr, ∃ t c, a = .caller t c ∧ (s.pc t).holds = true ∧ c.nonBlocking = true) ∧
      ∃ s'', Step s' (.closer .acquireExclusive) s'' := by
  have hi := inv_reachable h
  obtain ⟨hs, hh⟩ := hi.holders
  have hf : s.closedFlag = true := by rw [hi.flag, hw]; rfl
  obtain ⟨tr, s', e, l, r, c, _, _, a⟩ := drain (v := .guarded) hs s hf hh
  rw [hh.2.1] at l
  refine ⟨tr, s', e, l, by omega, a, { s' with writer := true, cpc := .exclusive }, ?_⟩
  simp [Step, StepV, step, c, hw, r]

/-- the reader passes the latch, the closer runs up to `backendClose`, the reader goes on -/
def unguardedRace : List Action :=
  [.caller 1 .testLatch, .closer .setFlags, .closer .acquireExclusive, .closer .backendClose,
   .caller 1 .enterBackend]

/-- (5a) without the guard (`StepNoGuard`, the code before the fix) a `call` after `close` is
reachable: the reader passes the latch, the closer runs up to `backendClose`, the reader goes on
into the backend -/
theorem c20_unguarded_race_witness :
    ∃ tr s, Exec .noGuard init tr s ∧ ∃ pre post t, s.log = pre ++ .close :: post ∧
      Ev.call t ∈ post := by
  have h : (exec .noGuard init unguardedRace).map Sys.log = some [.close, .call 1] := by decide
  obtain ⟨s, he, hl⟩ := exec_log_witness h
  exact ⟨_, s, he, [], [.call 1], 1, hl, by simp⟩

/-- thread 1 makes a guarded call, thread 2 a call of the class that skips the guard -/
def partialGuardRace : List Action :=
  [.caller 1 .acquireShared, .caller 1 .testLatch, .caller 2 .testLatch, .closer .setFlags,
   .caller 1 .enterBackend, .caller 1 (.leaveBackend false),
   .closer .acquireExclusive, .closer .backendClose, .closer .releaseExclusive,
   .caller 2 .enterBackend]

/-- (5b) the seeded variant (`StepPartial`): thread 1 makes a guarded call, thread 2 a call of the
class that skips the guard; the closer does wait for thread 1 — and then closes under thread 2's
feet: `call 1; close; call 2` -/
theorem c20_partial_guard_race_witness :
    ∃ tr s, Exec .partialGuard init tr s ∧ ∃ pre post t, s.log = pre ++ .close :: post ∧
      Ev.call t ∈ post := by
  have h : (exec .partialGuard init partialGuardRace).map Sys.log =
      some [.call 1, .close, .call 2] := by decide
  obtain ⟨s, he, hl⟩ := exec_log_witness h
  exact ⟨_, s, he, [.call 1], [.call 2], 2, hl, by simp⟩

/-- the forced schedule of the contract harness (`close_race`: reader parked between latch test
and backend call, another thread drops the `Database`, reader released) on the guarded model: every
action is enabled where the schedule puts it, the closer has to wait while the reader is parked and
can go on once the reader has left the backend, the reader's next call is refused, and the backend
sees `call; close`. This is the prediction the driver checks `close-race-*` lines against. -/
theorem c20_race_replay_guarded :
    raceReplay .guarded true =
      { ran := true, closeWaited := true, closeRan := true, nextRefused := true,
        log := [.call 1, .close] } ∧
    raceReplay .guarded false =
      { ran := true, closeWaited := false, closeRan := true, nextRefused := true,
        log := [.call 1, .close] } := by
  constructor <;> decide

/-! ### non-vacuity -/

-- the guarded model does reach states with a call, a close, and a refused caller
example : (exec .guarded init
    [.caller 1 .acquireShared, .caller 1 .testLatch, .caller 1 .enterBackend,
     .caller 1 (.leaveBackend false), .closer .setFlags, .closer .acquireExclusive,
     .closer .backendClose, .closer .releaseExclusive, .caller 1 .next,
     .caller 1 .acquireShared, .caller 1 .testLatch]).map (fun s => (s.log, s.pc 1, s.readers))
    = some ([.call 1, .close], .refused, 0) := by decide
-- two readers in flight: the closer is blocked until the second one has left
example : (exec .guarded init
    [.caller 1 .acquireShared, .caller 2 .acquireShared, .caller 1 .testLatch,
     .caller 2 .testLatch, .closer .setFlags, .caller 1 .enterBackend,
     .caller 1 (.leaveBackend false)]).map (fun s => (s.canAcquireExclusive .guarded, s.readers))
    = some (false, 1) := by decide
example : (exec .guarded init
    [.caller 1 .acquireShared, .caller 2 .acquireShared, .caller 1 .testLatch,
     .caller 2 .testLatch, .closer .setFlags, .caller 1 .enterBackend,
     .caller 1 (.leaveBackend false), .caller 2 .enterBackend,
     .caller 2 (.leaveBackend true)]).map (fun s => (s.canAcquireExclusive .guarded, s.readers))
    = some (true, 0) := by decide
-- the racy schedules are not schedules of the guarded model …
example : (exec .guarded init unguardedRace).isNone = true := by decide
example : (exec .guarded init partialGuardRace).isNone = true := by decide
-- … and with the guard taken the closer cannot overtake the parked reader
example : (exec .guarded init
    [.caller 1 .acquireShared, .caller 1 .testLatch, .closer .setFlags,
     .closer .acquireExclusive]).isNone = true := by decide
-- while the closer holds the lock no new call can begin
example : (exec .guarded init
    [.closer .setFlags, .closer .acquireExclusive, .caller 1 .acquireShared]).isNone = true := by
  decide
-- the harness schedule on the broken variants: the closer does not wait, the call comes after
example : (raceReplay .noGuard true).closeWaited = false ∧
    callAfterClose (raceReplay .noGuard true).log = true := by decide
-- a failed call latches `io_failed`: the next call is refused before any close
example : (exec .guarded init
    [.caller 1 .acquireShared, .caller 1 .testLatch, .caller 1 .enterBackend,
     .caller 1 (.leaveBackend true), .caller 2 .acquireShared, .caller 2 .testLatch]).map
      (fun s => (s.pc 2, s.readers, s.log)) = some (.refused, 0, [.call 1]) := by decide
example : callAfterClose [.call 1, .close] = false ∧ callAfterClose [.close, .call 1] = true ∧
    callAfterClose [.call 1, .close, .close] = false := by decide

end Redb.CloseGuard

section axioms
open Redb.Backend Redb.Format Redb.CloseGuard
#print axioms c20_accept_iff
#print axioms run_closes
#print axioms run_mutations
#print axioms run_afterClose
#print axioms run_afterClose_split
#print axioms run_afterClose_cases
#print axioms c20_close_exactly_once_and_last
#print axioms c20_readonly_never_mutates
#print axioms c20_accept_iff_declarative
#print axioms c20_addr_in_bounds
#print axioms c20_addr_in_bounds'
#print axioms c20_addr_above_headers
#print axioms c20_addr_in_region
#print axioms c20_addr_regions_ordered
#print axioms c20_addr_disjoint_regions
#print axioms c20_addr_disjoint_same_region
#print axioms c20_getPage_some
#print axioms c20_fileLen_tight
#print axioms c20_no_call_after_close
#print axioms c20_no_call_after_close_bool
#print axioms c20_close_once
#print axioms c20_refused_after_flags
#print axioms c20_latch_refuses
#print axioms c20_close_waits_while_held
#print axioms c20_holder_never_waits
#print axioms c20_close_eventually_enabled
#print axioms c20_unguarded_race_witness
#print axioms c20_partial_guard_race_witness
#print axioms c20_race_replay_guarded
end axioms
