import RedbModel.Model.Format
import RedbModel.Lemmas.Format
/-!
# C10 — the bytes on storage decode into well-formed, checksummed B-trees
# C12 — a stored checksum binds the bytes it covers

`Redb.Format.checkImage` (Model/Format.lean) is the executable validator the driver runs on real
database images after every durable commit. The theorems here state its SOUNDNESS: whenever a check
succeeds, the declarative conjunct of C10 it stands for holds — for all images (byte arrays),
layouts, page numbers, key types and fuel. The declarative predicates (`ChecksumsMatch`,
`FreshPages`, `RangesDisjoint`, `depthIs`, `TreeOk`, `NormalTableOk`, `MultimapTableOk`,
`MasterOk`, `UserTableOk`, `SystemTableOk`, `ImageOk`, `SlotChecksumValid`, `coveredPrefix`) are
defined in Lemmas/Format.lean. The hash function occurs only as `Redb.Xxh3.checksum`, opaquely.

C12 (binding) assumes injectivity of the hash as an explicit hypothesis `hinj` (the standard
idealisation), never assumed globally.
-/
namespace Redb.Format
open Redb.Key Redb.Spec Redb.BTree

/-! ## 1. every stored checksum matches the bytes it covers -/

/-- A successful `decodeTree` of page `pn` under the stored checksum `ck`: `ck` is the XXH3-128 of
the covered prefix of `pn`, and recursively every child checksum stored in a branch page is the
XXH3-128 of the covered prefix of that child page. -/
theorem c10_tree_checksums (img : ByteArray) (lay : Layout) (kw vw : Option Nat) (fuel : Nat)
    (pn : PageNumber) (ck : Bytes) (seen : List PageNumber) (t : PTree) (pages : List PageNumber)
    (h : decodeTree img lay kw vw fuel pn ck seen = .ok (t, pages)) :
    ChecksumsMatch img lay kw vw pn ck t :=
  decodeTree_checksums img lay kw vw fuel pn ck seen t pages h

/-- the root-level reading: the checksum stored for `pn` is the hash of `page[0 .. used]` -/
theorem c10_root_checksum (img : ByteArray) (lay : Layout) (kw vw : Option Nat) (fuel : Nat)
    (pn : PageNumber) (ck : Bytes) (seen : List PageNumber) (t : PTree) (pages : List PageNumber)
    (h : decodeTree img lay kw vw fuel pn ck seen = .ok (t, pages)) :
    ∃ bytes, coveredPrefix img lay kw vw pn = some bytes ∧
      ck = Redb.Xxh3.checksum bytes.toByteArray :=
  checksumsMatch_covered (decodeTree_checksums img lay kw vw fuel pn ck seen t pages h)

/-! ## 2. no page is referenced twice -/

/-- The list returned by a successful `decodeTree` is the pages of the tree pushed onto `seen`;
the pages of the tree are pairwise different and none of them is in `seen`. -/
theorem c10_tree_no_page_twice (img : ByteArray) (lay : Layout) (kw vw : Option Nat) (fuel : Nat)
    (pn : PageNumber) (ck : Bytes) (seen : List PageNumber) (t : PTree) (pages : List PageNumber)
    (h : decodeTree img lay kw vw fuel pn ck seen = .ok (t, pages)) :
    pages = t.pages.reverse ++ seen ∧ t.pages.Nodup ∧ ∀ x ∈ t.pages, x ∉ seen :=
  decodeTree_pages img lay kw vw fuel pn ck seen t pages h

/-- hence the returned list has no duplicates when `seen` had none -/
theorem c10_tree_pages_nodup (img : ByteArray) (lay : Layout) (kw vw : Option Nat) (fuel : Nat)
    (pn : PageNumber) (ck : Bytes) (seen : List PageNumber) (t : PTree) (pages : List PageNumber)
    (hs : seen.Nodup) (h : decodeTree img lay kw vw fuel pn ck seen = .ok (t, pages)) :
    pages.Nodup := by
  obtain ⟨h1, h2, h3⟩ := decodeTree_pages img lay kw vw fuel pn ck seen t pages h
  rw [h1]
  refine List.nodup_append.2 ⟨?_, hs, ?_⟩
  · rw [List.Nodup, List.pairwise_reverse]; exact h2.imp (fun h => Ne.symm h)
  · intro x hx y hy hxy
    subst hxy
    exact h3 x (List.mem_reverse.1 hx) hy

/-- `pagesDisjoint` finds no overlap ⇒ the address ranges of the pages are pairwise disjoint -/
theorem c10_pages_disjoint (lay : Layout) (pages : List PageNumber)
    (h : pagesDisjoint lay pages = none) :
    pages.Pairwise (fun a b =>
      (lay.pageAddr a).1 + (lay.pageAddr a).2 ≤ (lay.pageAddr b).1 ∨
      (lay.pageAddr b).1 + (lay.pageAddr b).2 ≤ (lay.pageAddr a).1) :=
  pagesDisjoint_none lay pages h

/-! ## 3. ordering, routing keys, uniform depth -/

/-- a successful `checkTree` yields an abstract tree that is well-formed at some height -/
theorem c10_tree_wf (kt : KT) (what : String) (pt : PTree) (h : checkTree kt what pt = .ok ()) :
    ∃ depth, wf kt none none depth pt.erase = true :=
  ⟨_, checkTree_ok h⟩

/-- the same for `decodeCheckedTree` -/
theorem c10_checked_tree_wf (img : ByteArray) (lay : Layout) (kt : KT) (kw vw : Option Nat)
    (what : String) (root : Option BtreeHeader) (seen : List PageNumber) (pt : PTree)
    (pages : List PageNumber)
    (h : decodeCheckedTree img lay kt kw vw what root seen = .ok (some pt, pages)) :
    ∃ depth, wf kt none none depth pt.erase = true := by
  have hr := decodeCheckedTree_sound h
  cases root with
  | none => obtain ⟨h1, _⟩ := hr; cases h1
  | some hd => obtain ⟨pt', h1, hok, _⟩ := hr; cases h1; exact ⟨_, hok.wf⟩

/-- entries strictly increasing under the key type's comparator, all keys valid encodings -/
theorem c10_tree_sorted (kt : KT) (what : String) (pt : PTree) (h : checkTree kt what pt = .ok ()) :
    Sorted kt (flatten pt.erase) ∧ ∀ e, e ∈ flatten pt.erase → valid kt e.1 = true :=
  let ⟨s1, s2, _, _⟩ := wf_consequences kt _ _ (checkTree_ok h); ⟨s1, s2⟩

/-- routing by the stored (possibly shortened) separators finds exactly the entries present -/
theorem c10_tree_lookup (kt : KT) (what : String) (pt : PTree) (h : checkTree kt what pt = .ok ())
    (k : Bytes) (hk : valid kt k = true) :
    lookup kt pt.erase k = Spec.get kt (flatten pt.erase) k :=
  (wf_consequences kt _ _ (checkTree_ok h)).2.2.2 k hk

/-- all leaves are at the same depth -/
theorem c10_uniform_depth (kt : KT) (what : String) (pt : PTree) (h : checkTree kt what pt = .ok ()) :
    ∃ d, depthIs d pt.erase :=
  ⟨_, (wf_consequences kt _ _ (checkTree_ok h)).2.2.1⟩

/-- `depthIs` reads as intended: a leaf has depth 0; a branch has depth `d + 1` iff all children
have depth `d` -/
theorem c10_depthIs_spec :
    (∀ d es, depthIs d (.leaf es) ↔ d = 0) ∧
    (∀ d cs ks, depthIs d (.branch cs ks) ↔ ∃ d', d = d' + 1 ∧ ∀ c ∈ cs, depthIs d' c) :=
  ⟨depthIs_leaf, depthIs_branch⟩

/-! ## 4. stored counts match the entries present -/

/-- `BtreeHeader.length` of a checked root = number of pairs in the tree -/
theorem c10_header_length (img : ByteArray) (lay : Layout) (kt : KT) (kw vw : Option Nat)
    (what : String) (hd : BtreeHeader) (seen : List PageNumber) (r : Option PTree)
    (pages : List PageNumber)
    (h : decodeCheckedTree img lay kt kw vw what (some hd) seen = .ok (r, pages)) :
    ∃ pt, r = some pt ∧ hd.length = (flatten pt.erase).length := by
  obtain ⟨pt, h1, hok, _⟩ := decodeCheckedTree_sound h
  exact ⟨pt, h1, hok.length.symm⟩

/-- normal table: `table_length` = number of pairs decoded, and these are the pairs of its tree -/
theorem c10_counts_match (img : ByteArray) (lay : Layout) (name : String) (kt : KT) (d : TableDef)
    (seen : List PageNumber) (es : List Entry) (pages : List PageNumber)
    (h : checkNormalTable img lay name kt d seen = .ok (es, pages)) :
    d.tableLength = es.length ∧
    ∃ r, es = entriesOf r ∧ (∀ hd, d.root = some hd → hd.length = es.length) ∧
      (d.root = none → es = []) := by
  obtain ⟨r, hr, he, hl⟩ := checkNormalTable_sound h
  refine ⟨hl, r, he, ?_, ?_⟩
  · intro hd hroot
    simp only at hr he
    rw [hroot] at hr
    obtain ⟨pt, rfl, hok, _⟩ := hr
    rw [he]; exact hok.length.symm
  · intro hroot
    simp only at hr he
    rw [hroot] at hr
    obtain ⟨rfl, _⟩ := hr
    exact he

/-- multimap table: `table_length` = number of (key, value) pairs decoded; the keys are the keys
of the tree, each with a non-empty, strictly increasing value set -/
theorem c10_counts_match_multimap (img : ByteArray) (lay : Layout) (name : String) (kt vt : KT)
    (d : TableDef) (seen : List PageNumber) (es : List (Bytes × List Bytes))
    (pages : List PageNumber)
    (h : checkMultimapTable img lay name kt vt d seen = .ok (es, pages)) :
    d.tableLength = (es.map (fun e => e.2.length)).sum ∧
    ∃ r, es.map (·.1) = (entriesOf r).map (·.1) ∧
      (∀ hd, d.root = some hd → hd.length = es.length) ∧
      ∀ e ∈ es, e.2 ≠ [] ∧ StrictIncr vt e.2 := by
  obtain ⟨r, p1, hr, hc, hl⟩ := checkMultimapTable_sound h
  refine ⟨hl, r, hc.keys, ?_, hc.values⟩
  intro hd hroot
  simp only at hr hc
  rw [hroot] at hr
  obtain ⟨pt, rfl, hok, _⟩ := hr
  have := congrArg List.length hc.keys
  simp only [List.length_map] at this
  rw [this]; exact hok.length.symm

/-! ## 5. commit slot and whole image -/

/-- `slotChecksumOk` ⇔ the stored bytes 112.. equal the XXH3-128 of the first 112 slot bytes -/
theorem c10_slot_checksum (slotBytes : Bytes) :
    slotChecksumOk slotBytes = true ↔
      slotBytes.drop 112 = Redb.Xxh3.checksum (slotBytes.take 112).toByteArray :=
  slotChecksumOk_iff slotBytes

/-- for a decodable (128-byte) slot these are the 16 bytes of its `checksum` field -/
theorem c10_slot_checksum_field (slotBytes : Bytes) (slot : Slot)
    (h : decodeSlot slotBytes = some slot) (hok : slotChecksumOk slotBytes = true) :
    slot.checksum.length = 16 ∧
    slot.checksum = Redb.Xxh3.checksum (slotBytes.take 112).toByteArray := by
  obtain ⟨hl, hc⟩ := decodeSlot_checksum h
  refine ⟨by rw [hc]; simp [hl], ?_⟩
  rw [hc]; exact (slotChecksumOk_iff _).1 hok

/-- `checkImage` succeeds ⇒ the image satisfies C10 declaratively (`ImageOk`): the primary slot's
checksum is valid, both master trees and every table named in them are checked (`MasterOk`,
`UserTableOk`, `SystemTableOk`, each unfolding to `TreeOk` = conjuncts 1, 3, 4), and all referenced
pages are pairwise different and occupy pairwise disjoint address ranges. -/
theorem c10_image_ok (img : ByteArray) (pageSize : Nat) (specs : List TableSpec)
    (h : checkImage img pageSize specs = .ok ()) : ImageOk img pageSize specs :=
  checkImage_sound h

/-- what `TreeOk` (the per-tree part of `ImageOk`) means in terms of conjuncts 1, 3 and 4 -/
theorem c10_treeOk_spec (img : ByteArray) (lay : Layout) (kt : KT) (kw vw : Option Nat)
    (hd : BtreeHeader) (pt : PTree) (h : TreeOk img lay kt kw vw hd pt) :
    ChecksumsMatch img lay kw vw hd.root hd.checksum pt ∧
    Sorted kt (flatten pt.erase) ∧ (∀ e, e ∈ flatten pt.erase → valid kt e.1 = true) ∧
    (∃ d, depthIs d pt.erase) ∧
    (∀ k, valid kt k = true → lookup kt pt.erase k = Spec.get kt (flatten pt.erase) k) ∧
    hd.length = (flatten pt.erase).length :=
  let ⟨s1, s2, s3, s4⟩ := wf_consequences kt _ _ h.wf
  ⟨h.checksums, s1, s2, ⟨_, s3⟩, s4, h.length.symm⟩

/-- what `NormalTableOk` (the per-table part of `ImageOk` for normal and system tables) means:
the stored count, the order of the entries, and — when the root is not null — a tree satisfying
conjuncts 1, 3, 4 whose pages are all in the list of pages returned -/
theorem c10_normal_table_spec (img : ByteArray) (lay : Layout) (kt : KT) (d : TableDef)
    (seen : List PageNumber) (es : List Entry) (pages : List PageNumber)
    (h : NormalTableOk img lay kt d seen es pages) :
    d.tableLength = es.length ∧ Sorted kt es ∧ (∀ e, e ∈ es → valid kt e.1 = true) ∧
    (d.root = none → es = []) ∧
    (∀ hd, d.root = some hd → ∃ pt, es = flatten pt.erase ∧
      TreeOk img lay kt d.fixedKey d.fixedValue hd pt ∧ (∀ x ∈ pt.pages, x ∈ pages) ∧
      pt.pages.Nodup ∧ ∀ x ∈ pt.pages, x ∉ seen) := by
  obtain ⟨r, hr, he, hl⟩ := h
  cases hroot : d.root with
  | none =>
    rw [hroot] at hr
    obtain ⟨rfl, _⟩ := hr
    subst he
    exact ⟨hl, trivial, (by intro e he; cases he), fun _ => rfl, (by intro hd h; cases h)⟩
  | some hd =>
    rw [hroot] at hr
    obtain ⟨pt, rfl, hok, hf⟩ := hr
    subst he
    obtain ⟨s1, s2, _, _⟩ := wf_consequences kt _ _ hok.wf
    refine ⟨hl, s1, s2, (by intro h; cases h), ?_⟩
    intro hd' h'
    cases h'
    exact ⟨pt, rfl, hok, hf.mem, hf.2.1, hf.2.2⟩

/-- the pages of a checked tree are among the pages of every later list -/
theorem c10_tree_pages_in_all (img : ByteArray) (lay : Layout) (kt : KT) (kw vw : Option Nat)
    (root : Option BtreeHeader) (seen pages all : List PageNumber) (pt : PTree)
    (h : RootChecked img lay kt kw vw root seen (some pt) pages) (he : Extends pages all) :
    ∀ x ∈ pt.pages, x ∈ all :=
  fun x hx => he.subset x (h.pages_mem x hx)

/-! ## 6. C12: binding -/

/-- If page `pn` decodes in two images under the SAME stored checksum `ck`, and the hash is
injective, the covered prefixes of the page are the same bytes in both images. -/
theorem c12_page_binding
    (hinj : Function.Injective (fun (b : ByteArray) => Redb.Xxh3.checksum b))
    (img img' : ByteArray) (lay lay' : Layout) (kw vw : Option Nat) (fuel fuel' : Nat)
    (pn : PageNumber) (ck : Bytes) (seen seen' pages pages' : List PageNumber) (t t' : PTree)
    (h : decodeTree img lay kw vw fuel pn ck seen = .ok (t, pages))
    (h' : decodeTree img' lay' kw vw fuel' pn ck seen' = .ok (t', pages')) :
    ∃ bytes, coveredPrefix img lay kw vw pn = some bytes ∧
      coveredPrefix img' lay' kw vw pn = some bytes ∧
      ck = Redb.Xxh3.checksum bytes.toByteArray :=
  page_binding hinj h h'

/-- Same root page, same root checksum, both images decode ⇒ the same tree (all keys, values, page
numbers) and, started from the same `seen`, the same list of visited pages. -/
theorem c12_tree_binding
    (hinj : Function.Injective (fun (b : ByteArray) => Redb.Xxh3.checksum b))
    (img img' : ByteArray) (lay lay' : Layout) (kw vw : Option Nat) (fuel fuel' : Nat)
    (pn : PageNumber) (ck : Bytes) (seen pages pages' : List PageNumber) (t t' : PTree)
    (h : decodeTree img lay kw vw fuel pn ck seen = .ok (t, pages))
    (h' : decodeTree img' lay' kw vw fuel' pn ck seen = .ok (t', pages')) :
    t = t' ∧ pages = pages' := by
  have ht := tree_binding hinj img img' lay lay' kw vw fuel fuel' pn ck seen seen t t' pages pages' h h'
  subst ht
  exact ⟨rfl, by
    rw [(decodeTree_pages _ _ _ _ _ _ _ _ _ _ h).1, (decodeTree_pages _ _ _ _ _ _ _ _ _ _ h').1]⟩

/-- the tree does not depend on the `seen` lists either -/
theorem c12_tree_binding_any_seen
    (hinj : Function.Injective (fun (b : ByteArray) => Redb.Xxh3.checksum b))
    (img img' : ByteArray) (lay lay' : Layout) (kw vw : Option Nat) (fuel fuel' : Nat)
    (pn : PageNumber) (ck : Bytes) (seen seen' pages pages' : List PageNumber) (t t' : PTree)
    (h : decodeTree img lay kw vw fuel pn ck seen = .ok (t, pages))
    (h' : decodeTree img' lay' kw vw fuel' pn ck seen' = .ok (t', pages')) :
    t = t' :=
  tree_binding hinj img img' lay lay' kw vw fuel fuel' pn ck seen seen' t t' pages pages' h h'

/-! ## 7. non-vacuity -/
namespace Example

/-- a leaf page with two pairs of `u8` keys / `u8` values: 5 ↦ 50, 9 ↦ 90 -/
def leafBytes : Bytes := [1, 0, 2, 0, 5, 9, 50, 90]
/-- an 8-byte super-header page followed by one region with this page as its only data page -/
def img : ByteArray := ⟨#[0, 0, 0, 0, 0, 0, 0, 0, 1, 0, 2, 0, 5, 9, 50, 90]⟩
def lay : Layout :=
  { pageSize := 8, regionHeaderPages := 0, regionMaxDataPages := 1, numFullRegions := 1, trailingPages := 0 }
def pn : PageNumber := ⟨0, 0, 0⟩
def entries : List Entry := [([5], [50]), ([9], [90])]
/-- XXH3-128 of the eight bytes of the page (computed by the model, checked by the kernel below) -/
def ck : Bytes := [65, 214, 192, 58, 177, 145, 163, 239, 184, 206, 228, 26, 176, 145, 39, 29]

theorem getPage_eq : getPage img lay pn = some leafBytes := by
  have h1 : img.extract 8 16 = ⟨#[1, 0, 2, 0, 5, 9, 50, 90]⟩ := by decide
  have h2 : (ByteArray.mk #[1, 0, 2, 0, 5, 9, 50, 90]).toList = leafBytes := by
    simp [ByteArray.toList, ByteArray.toList.loop, ByteArray.size, ByteArray.get!, leafBytes]
  have : (img.extract 8 16).toList = leafBytes := by rw [h1, h2]
  simpa [getPage, lay, pn, Layout.inRange, Layout.pageAddr, Layout.numRegions, Layout.regionPages,
    ByteArray.size, img] using this

theorem decodeLeaf_eq' : decodeLeaf (some 1) (some 1) leafBytes = some { entries := entries, used := 8 } := by
  rfl

set_option maxRecDepth 4000 in
theorem checksum_eq : pageChecksum leafBytes 8 = ck := by
  have h : (leafBytes.take 8).toByteArray = ⟨#[1, 0, 2, 0, 5, 9, 50, 90]⟩ := by decide
  have h2 : Redb.Xxh3.checksum ⟨#[1, 0, 2, 0, 5, 9, 50, 90]⟩ = ck := by decide
  rw [pageChecksum, h, h2]

/-- the page decodes, under its true checksum, to the expected one-leaf tree -/
theorem decodeTree_eq :
    decodeTree img lay (some 1) (some 1) 1 pn ck [] = .ok (.leaf pn entries, [pn]) := by
  have hb : byteAt leafBytes 0 = 1 := by decide
  simp [decodeTree, getPage_eq, hb, decodeLeaf_eq', checksum_eq]

theorem wf_eq : wf (.uint 1) none none 0 (Tree.leaf entries) = true := by
  simp [wf, keysOk, aboveLo, belowHi, valid, cmp, leNat, entries]
  decide

theorem checkTree_eq : checkTree (.uint 1) "example" (.leaf pn entries) = .ok () := by
  have : depthLeft 129 (Tree.leaf entries) = 0 := rfl
  simp [checkTree, this, PTree.erase, wf_eq]

/-- the hypotheses of the C10 theorems are satisfiable, and their conclusions hold here -/
example : ChecksumsMatch img lay (some 1) (some 1) pn ck (.leaf pn entries) :=
  c10_tree_checksums _ _ _ _ _ _ _ _ _ _ decodeTree_eq

example : Sorted (.uint 1) entries ∧ ∀ e, e ∈ entries → valid (.uint 1) e.1 = true :=
  c10_tree_sorted (.uint 1) "example" (.leaf pn entries) checkTree_eq

example : lookup (.uint 1) (Tree.leaf entries) [9] = some [90] := by
  rw [show Tree.leaf entries = (PTree.leaf pn entries).erase from rfl,
    c10_tree_lookup (.uint 1) "example" (.leaf pn entries) checkTree_eq [9] (by simp [valid])]
  simp [PTree.erase, flatten, entries, Spec.get, cmp, leNat]
  decide

/-- a two-level tree with a shortened separator (10 is not a key) is well-formed -/
example : wf (.uint 1) none none 1
    (.branch [.leaf [([5], [50]), ([9], [90])], .leaf [([12], [1])]] [[10]]) = true := by
  simp [wf, wfChildren, keysOk, aboveLo, belowHi, valid, cmp, leNat]
  decide

/-- … and a tree whose separator does not bound its left subtree is rejected -/
example : wf (.uint 1) none none 1
    (.branch [.leaf [([5], [50]), ([11], [90])], .leaf [([12], [1])]] [[10]]) = false := by
  simp [wf, wfChildren, keysOk, aboveLo, belowHi, valid, cmp, leNat]
  decide

/-- a wrong stored checksum is rejected -/
example : ∃ e, decodeTree img lay (some 1) (some 1) 1 pn (0 :: ck.tail) [] = .error e := by
  have hb : byteAt leafBytes 0 = 1 := by decide
  have hne : (ck != 0 :: ck.tail) = true := by decide
  simp [decodeTree, getPage_eq, hb, decodeLeaf_eq', checksum_eq, hne, fail]

/-! ### a whole image: empty database (both master trees null) -/

def slotPrefix : Bytes := 3 :: List.replicate 111 0
def slotCk : Bytes := [26, 106, 181, 239, 97, 209, 128, 141, 7, 44, 3, 147, 134, 251, 188, 63]
def slot0 : Bytes := slotPrefix ++ slotCk
def header : Bytes :=
  magic ++ [0, 0, 0] ++ [64, 1, 0, 0] ++ [0, 0, 0, 0] ++ [1, 0, 0, 0] ++ [1, 0, 0, 0] ++ [0, 0, 0, 0] ++
    List.replicate 32 0 ++ slot0 ++ List.replicate 128 0
def emptyDb : ByteArray := (header ++ List.replicate 320 0).toByteArray


set_option maxRecDepth 20000

theorem emptyDb_size : emptyDb.size = 640 := by
  rw [emptyDb, List.size_toByteArray]; rfl

def emptyLayout : Layout :=
  { pageSize := 320, regionHeaderPages := 0, regionMaxDataPages := 1, numFullRegions := 1, trailingPages := 0 }

def emptyHeader : Header :=
  { layout := emptyLayout, primarySlot := 0, recoveryRequired := false, twoPhaseCommit := false,
    slot0 := slot0, slot1 := List.replicate 128 0 }

theorem emptyDb_header : decodeHeader emptyDb = some emptyHeader := by
  have h : (emptyDb.extract 0 320).toList = header := by
    rw [emptyDb, extract_toByteArray_toList]; rfl
  simp only [decodeHeader, emptyDb_size, h]
  rfl

set_option maxRecDepth 8000 in
theorem slot0_checksum : slotChecksumOk slot0 = true := by
  have h1 : slot0.take 112 = slotPrefix := by rfl
  have h2 : slot0.drop 112 = slotCk := by rfl
  have h3 : Redb.Xxh3.checksum slotPrefix.toByteArray = slotCk := by decide +kernel
  rw [slotChecksumOk, h1, h2, h3]; decide

theorem slot0_decode : decodeSlot slot0 = some
    { version := 3, userRoot := none, systemRoot := none, txnId := 0, checksum := slotCk } := by
  rfl

/-- an image whose primary slot is valid and has two null roots passes, whatever the rest is -/
theorem checkImage_null_roots (img : ByteArray) (ps : Nat) (h : Header) (slot : Slot)
    (hh : decodeHeader img = some h) (h1 : h.layout.pageSize = ps)
    (h2 : h.layout.regionMaxDataPages ≠ 0) (h3 : h.layout.numRegions ≠ 0)
    (h4 : h.layout.fileLen ≤ img.size) (h5 : slotChecksumOk h.primary = true)
    (h6 : decodeSlot h.primary = some slot) (h7 : slot.version = 3)
    (h8 : slot.userRoot = none) (h9 : slot.systemRoot = none) :
    checkImage img ps [] = .ok () := by
  have h4' : ¬ img.size < h.layout.fileLen := Nat.not_lt.mpr h4
  simp [checkImage, hh, h1, h2, h3, h4', h5, h6, h7, h8, h9, decodeMaster, decodeCheckedTree,
    pagesDisjoint, firstOverlap, bind, Except.bind, pure, Except.pure]

/-- a database image with an empty data master tree and an empty system master tree passes the
whole-image check, so the hypothesis of `c10_image_ok` is satisfiable -/
theorem emptyDb_ok : checkImage emptyDb 320 [] = .ok () :=
  checkImage_null_roots emptyDb 320 emptyHeader _ emptyDb_header rfl (by decide) (by decide)
    (by rw [emptyDb_size]; exact Nat.le_refl _) slot0_checksum slot0_decode rfl rfl rfl

end Example
end Redb.Format
