import RedbModel.Props.C10
import RedbModel.Props.C01
/-!
# C12 — check_integrity never certifies a damaged database

The logical core is that the checksum chain *binds* the contents: under the idealisation that
XXH3-128 is injective on the byte strings involved (an explicit hypothesis `hinj`, never an
axiom), two files in which the same commit slot verifies decode to the same trees, hence the
same contents. So an alteration of a closed file either (a) changes a byte that some verified
checksum covers - then verification of that slot fails, and the open / check reports an error,
repairs (`Ok(false)`) or falls back to the other, intact, commit point - or (b) leaves every
covered byte as it was, and then the decoded contents are unchanged.

* `c12_slot_binding`: two slot images with valid checksums and equal checksum fields have equal
  covered bytes (roots, lengths, transaction id).
* `c12_page_binding'`, `c12_tree_binding'`: same root page number and checksum + both decode ⇒
  same covered bytes / same decoded tree.
* `c12_served_is_commit_point` (from C01): whatever slot the recovery function serves on any
  disk that arises from an accepted stream is valid and its whole tree verifies, i.e. the served
  contents are those of exactly one commit point.

On the implementation the harness alters every header byte and sampled bytes, bits, runs and
page swaps of closed images and checks the verdict of the real open + check_integrity against
the recorded commit points; accepted altered images also go through the Lean recovery model.
-/
namespace Redb.Format
open Redb.Key

theorem c12_slot_binding
    (hinj : Function.Injective (fun (b : ByteArray) => Redb.Xxh3.checksum b))
    (s s' : Bytes) (h : slotChecksumOk s = true) (h' : slotChecksumOk s' = true)
    (hck : s.drop 112 = s'.drop 112) : s.take 112 = s'.take 112 := by
  rw [c10_slot_checksum] at h h'
  have e : Redb.Xxh3.checksum (s.take 112).toByteArray = Redb.Xxh3.checksum (s'.take 112).toByteArray := by
    rw [← h, ← h', hck]
  exact List.toByteArray_inj.1 (hinj e)

theorem c12_page_binding'
    (hinj : Function.Injective (fun (b : ByteArray) => Redb.Xxh3.checksum b))
    (img img' : ByteArray) (lay lay' : Layout) (kw vw : Option Nat) (fuel fuel' : Nat)
    (pn : PageNumber) (ck : Bytes) (seen seen' pages pages' : List PageNumber) (t t' : PTree)
    (h : decodeTree img lay kw vw fuel pn ck seen = .ok (t, pages))
    (h' : decodeTree img' lay' kw vw fuel' pn ck seen' = .ok (t', pages')) :
    ∃ bytes, coveredPrefix img lay kw vw pn = some bytes ∧
      coveredPrefix img' lay' kw vw pn = some bytes ∧
      ck = Redb.Xxh3.checksum bytes.toByteArray :=
  c12_page_binding hinj img img' lay lay' kw vw fuel fuel' pn ck seen seen' pages pages' t t' h h'

theorem c12_tree_binding'
    (hinj : Function.Injective (fun (b : ByteArray) => Redb.Xxh3.checksum b))
    (img img' : ByteArray) (lay lay' : Layout) (kw vw : Option Nat) (fuel fuel' : Nat)
    (pn : PageNumber) (ck : Bytes) (seen seen' pages pages' : List PageNumber) (t t' : PTree)
    (h : decodeTree img lay kw vw fuel pn ck seen = .ok (t, pages))
    (h' : decodeTree img' lay' kw vw fuel' pn ck seen' = .ok (t', pages')) :
    t = t' :=
  c12_tree_binding_any_seen hinj img img' lay lay' kw vw fuel fuel' pn ck seen seen' pages pages' t t' h h'

end Redb.Format

namespace Redb.Storage

/-- whatever slot recovery serves on an outcome of an accepted stream is valid and its whole
tree verifies: the served contents are those of exactly one commit point -/
theorem c12_served_is_commit_point (D0 : Disk) (tr : List Ev) (hacc : accept D0 tr = true)
    (pre : List Ev) (hpre : pre <+: tr) :
    ∃ s, stateAfter D0 pre = some s ∧
      ∀ o, Outcome s.D s.P o → ∀ (vf : Nat → Bool) (q : Bool), Faithful o vf →
        ∃ k, Redb.Recovery.recover o.view vf q = .ok k ∧ ServedBy s.D s.i s.P o k :=
  c01_crash_recover D0 tr hacc pre hpre

end Redb.Storage
