import RedbModel.Model.Spec
import RedbModel.Model.BTree
import RedbModel.Lemmas.Spec
import RedbModel.Lemmas.BTree
/-!
# C04 — A table behaves as an ordered map

Two layers. (1) The specification `Spec` (a strictly sorted association list under the key
type's comparator) really is a sorted map: the laws below hold for every key type whose
comparator satisfies `CmpLaws` (proved for the built-in types in C15), every map and every key.
The implementation is held to `Spec` by the correspondence run (every returned value and the
committed contents). (2) Any well-formed B+tree (the structural conditions that the driver
checks on every committed image, C10) answers lookups exactly as the sorted list of its entries.
-/
namespace Redb.Spec
open Redb.Key

theorem c04_insert_sorted (t : KT) (hc : CmpLaws t) (m : Map) (k v : Bytes)
    (hs : Sorted t m) (hv : KeysValid t m) (hk : valid t k = true) :
    Sorted t (insert t m k v).1 ∧ KeysValid t (insert t m k v).1 := insert_sorted t hc m k v hs hv hk

theorem c04_insert_returns_old (t : KT) (m : Map) (k v : Bytes) :
    (insert t m k v).2 = get t m k := insert_returns_old t m k v

theorem c04_get_insert (t : KT) (hc : CmpLaws t) (m : Map) (k v k' : Bytes)
    (hs : Sorted t m) (hv : KeysValid t m) (hk : valid t k = true) (hk' : valid t k' = true) :
    get t (insert t m k v).1 k' = if cmp t k' k = .eq then some v else get t m k' :=
  get_insert t hc m k v k' hs hv hk hk'

theorem c04_remove_sorted (t : KT) (hc : CmpLaws t) (m : Map) (k : Bytes)
    (hs : Sorted t m) (hv : KeysValid t m) (hk : valid t k = true) :
    Sorted t (remove t m k).1 ∧ KeysValid t (remove t m k).1 := remove_sorted t hc m k hs hv hk

theorem c04_remove_returns_old (t : KT) (m : Map) (k : Bytes) :
    (remove t m k).2 = get t m k := remove_returns_old t m k

theorem c04_get_remove (t : KT) (hc : CmpLaws t) (m : Map) (k k' : Bytes)
    (hs : Sorted t m) (hv : KeysValid t m) (hk : valid t k = true) (hk' : valid t k' = true) :
    get t (remove t m k).1 k' = if cmp t k' k = .eq then none else get t m k' :=
  get_remove t hc m k k' hs hv hk hk'

theorem c04_len_insert (t : KT) (m : Map) (k v : Bytes) :
    (insert t m k v).1.length = m.length + (if (get t m k).isSome then 0 else 1) := insert_length t m k v

theorem c04_len_remove (t : KT) (m : Map) (k : Bytes) :
    (remove t m k).1.length + (if (get t m k).isSome then 1 else 0) = m.length := remove_length t m k

theorem c04_get_mem (t : KT) (hc : CmpLaws t) (m : Map) (hs : Sorted t m) (hv : KeysValid t m)
    (e : Entry) (he : e ∈ m) : get t m e.1 = some e.2 := get_mem t hc m hs hv e he

theorem c04_first_is_min (t : KT) (hc : CmpLaws t) (m : Map) (hs : Sorted t m) (hv : KeysValid t m)
    (e x : Entry) (hh : m.head? = some e) (hx : x ∈ m) : cmp t e.1 x.1 ≠ .gt :=
  head_is_min t hc m hs hv e x hh hx

theorem c04_last_is_max (t : KT) (hc : CmpLaws t) (m : Map) (hs : Sorted t m) (hv : KeysValid t m)
    (e x : Entry) (hh : m.getLast? = some e) (hx : x ∈ m) : cmp t x.1 e.1 ≠ .gt :=
  last_is_max t hc m hs hv e x hh hx

theorem c04_pop_sorted (t : KT) (m : Map) (hs : Sorted t m) :
    Sorted t (popFirst m).1 ∧ Sorted t (popLast m).1 := ⟨popFirst_sorted t m hs, popLast_sorted t m hs⟩

theorem c04_range_retain_sorted (t : KT) (hc : CmpLaws t) (m : Map) (hs : Sorted t m) (hv : KeysValid t m)
    (lo hi : Bound) (p : Bytes → Bytes → Bool) :
    Sorted t (range t m lo hi) ∧ Sorted t (retainIn t m lo hi p) :=
  ⟨(filter_sorted t hc m hs hv _).1, (filter_sorted t hc m hs hv _).1⟩

theorem c04_extract_if (t : KT) (hc : CmpLaws t) (m : Map) (lo hi : Bound) (p : Bytes → Bytes → Bool)
    (mode : Mode) (limit : Nat) (hs : Sorted t m) (hv : KeysValid t m) :
    Sorted t (extractIf t m lo hi p mode limit).1 ∧
    (∀ e, e ∈ (extractIf t m lo hi p mode limit).2 → e ∈ m ∧ inRange t lo hi e.1 = true ∧ p e.1 e.2 = true) ∧
    (∀ e, e ∈ m → (e ∈ (extractIf t m lo hi p mode limit).1 ↔ e ∉ (extractIf t m lo hi p mode limit).2)) :=
  extractIf_spec t hc m lo hi p mode limit hs hv

end Redb.Spec

namespace Redb.BTree
open Redb.Key Redb.Spec

theorem c04_flatten_sorted (t : KT) (hc : CmpLaws t)
    (lo hi : Option Bytes) (hlo : ∀ l, lo = some l → valid t l = true)
    (hhi : ∀ h, hi = some h → valid t h = true) (d : Nat) (tr : Tree)
    (h : wf t lo hi d tr = true) :
    Sorted t (flatten tr) ∧ KeysValid t (flatten tr) ∧
    ∀ e, e ∈ flatten tr → aboveLo t lo e.1 = true ∧ belowHi t hi e.1 = true :=
  flatten_sorted t hc lo hi hlo hhi d tr h

/-- the root case: a well-formed tree holds a strictly sorted list of valid keys -/
theorem c04_root_sorted (t : KT) (hc : CmpLaws t) (d : Nat) (tr : Tree)
    (h : wf t none none d tr = true) : Sorted t (flatten tr) ∧ KeysValid t (flatten tr) :=
  let r := flatten_sorted t hc none none (by simp) (by simp) d tr h
  ⟨r.1, r.2.1⟩

theorem c04_lookup_of_wf (t : KT) (hc : CmpLaws t) (lo hi : Option Bytes) (d : Nat) (tr : Tree)
    (h : wf t lo hi d tr = true) (k : Bytes) (hk : valid t k = true) :
    lookup t tr k = Spec.get t (flatten tr) k := lookup_of_wf t hc lo hi d tr h k hk

end Redb.BTree
