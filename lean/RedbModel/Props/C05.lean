import RedbModel.Props.Life
/-!
# C05 — Abandoned or failed transactions leave no trace

After every aborted, dropped or refused write transaction the driver checks `abortOk s s'`
between the state before the transaction began and the state after it was abandoned. The
theorems turn that check into: exactly the same pages are allocated (no space stays consumed,
nothing the transaction freed stays freed), every page has the same owner, the committed and
durable ids are unchanged, pins stay properly accounted, and the pair is a legal step as far as
page moves go.
NOT covered: table contents / user-visible data after the abort (checked by the harness
model-based oracle), the transaction-id counter (not part of `St`), and region/file length.
-/
namespace Redb.Life

theorem c05_abort_no_trace {s s' : St} (h : ownOk s = true) (h' : ownOk s' = true)
    (ha : abortOk s s' = true) :
    (∀ p, p ∈ s'.alloc ↔ p ∈ s.alloc) ∧ (∀ p, owner s' p = owner s p) ∧
      s'.id = s.id ∧ s'.dur = s.dur :=
  abort_no_trace h h' ha

/-- no extra hypothesis is needed (not even `ownOk`) -/
theorem c05_abort_keeps_pins {s s' : St} (ha : abortOk s s' = true) (hp : pinOk s = true)
    (hpins : s'.pins = s.pins) : pinOk s' = true :=
  abort_keeps_pins ha hp hpins

theorem c05_abort_stepOk {s s' : St} (h : ownOk s = true) (h' : ownOk s' = true)
    (ha : abortOk s s' = true) : s.alloc.all (moveOk s s') = true :=
  abort_stepOk h h' ha

end Redb.Life
