import RedbModel.Model.Conc
/-!
# C16 — One write transaction may be used from many threads

"When different tables of the same write transaction are opened and modified concurrently from
several threads, the committed result is the same as if each table's operations had been applied
on their own, no page ends up shared between tables, and the transaction's bookkeeping — savepoint
eligibility, allocation tracking, page accounting — stays correct."

Part 1 — the `tables` lock (`Redb.Conc.Tables`, Model/Conc.lean). `TableNamespace::set_dirty`
(first table open: `dirty := true`, and allocation tracking is switched off iff no savepoint
exists) and `WriteTransaction::ephemeral_savepoint` (refuse if `dirty`, else register the
savepoint) both run under the `tables` mutex, i.e. each is ONE atomic action:
  * `c16_tracking_on_if_savepoint`  every interleaving of any number of the two atomic actions keeps
                                    `savepointExists → trackingOn`
  * `c16_no_savepoint_after_any_dirtying_call`  over the API surface: after any call sequence containing
                                    one of the six calls that hand out a table or change the catalog,
                                    `ephemeral_savepoint` is refused (`c16_savepoint_granted_when_clean`:
                                    and granted when there was none)
  * `c16_unlocked_race_witness`     if check and registration of `ephemeral_savepoint` can be
                                    separated (no lock) three actions reach `savepointExists ∧ ¬trackingOn`
  * `c16_locked_is_atomic_pair`     the locked action = check immediately followed by registration
Part 2 — tables of one transaction modified concurrently, abstractly: a state maps every table
name to its contents and its set of pages; an operation of a table transforms that table's
contents and may take one page from the allocator. Hypothesis (= C14 `alloc_sound`): an allocation
is one atomic action that hands out a page that is not currently allocated — it is the enabling
condition `Enabled` of an operation.
  * `c16_tables_disjoint`           for every interleaving of per-table operation streams the page
                                    sets of different tables stay disjoint (and allocated)
  * `c16_contents_own_stream`       the final contents of a table are its own stream applied in order
  * `c16_ops_commute`               operations of different tables commute (state and enabledness)
-/
namespace Redb.Conc.Tables

/-! ## Part 1: the `tables` lock -/

/-- the invariant behind the property: a clean transaction still tracks, and so does one with a
savepoint -/
def Good (s : St) : Prop :=
  (s.dirty = false → s.trackingOn = true) ∧ (s.savepointExists = true → s.trackingOn = true)

theorem good_init : Good init := by simp [Good, init]

theorem good_step {s : St} (h : Good s) (o : Op) : Good (step s o) := by
  obtain ⟨h1, h2⟩ := h
  cases o
  · -- setDirty
    cases hsp : s.savepointExists <;> simp_all [Good, step]
  · -- ephemeralSavepoint
    cases hd : s.dirty <;> simp_all [Good, step]

theorem good_run {s : St} (h : Good s) (ops : List Op) : Good (run s ops) := by
  induction ops generalizing s with
  | nil => exact h
  | cons o ops ih => exact ih (good_step h o)

/-- In every state reachable by any interleaving of any number of `setDirty` /
`ephemeralSavepoint` actions (each atomic, by whichever thread) from a fresh write transaction:
if a savepoint exists, allocation tracking is on. -/
theorem c16_tracking_on_if_savepoint (ops : List Op) :
    (run init ops).savepointExists = true → (run init ops).trackingOn = true :=
  (good_run good_init ops).2

/-- a refused `ephemeral_savepoint` changes nothing, and a dirty transaction never gets a
savepoint: savepoint eligibility is decided atomically with the registration -/
theorem c16_savepoint_refused_when_dirty (s : St) (h : s.dirty = true) :
    step s .ephemeralSavepoint = s := by simp [step, h]

theorem dirty_step_mono {s : St} (h : s.dirty = true) (o : Op) : (step s o).dirty = true := by
  cases o <;> simp [step, h]

theorem dirty_run_mono {s : St} (h : s.dirty = true) (ops : List Op) : (run s ops).dirty = true := by
  induction ops generalizing s with
  | nil => exact h
  | cons o ops ih => exact ih (dirty_step_mono h o)

theorem dirty_after_dirtying_call (s : St) (c : Call) (hc : c.dirtying = true) :
    (step s c.op).dirty = true := by
  cases c <;> simp_all [Call.op, Call.dirtying, step]

theorem dirty_of_mem (s : St) (cs : List Call) (c : Call) (hm : c ∈ cs) (hc : c.dirtying = true) :
    (runCalls s cs).dirty = true := by
  induction cs generalizing s with
  | nil => cases hm
  | cons d ds ih =>
    simp only [runCalls, run, List.map_cons, List.foldl_cons]
    rcases List.mem_cons.mp hm with rfl | hm'
    · exact dirty_run_mono (dirty_after_dirtying_call s c hc) _
    · exact ih (step s d.op) hm'

/-- Savepoint eligibility over the whole API surface: after ANY sequence of calls on a write
transaction (in the order in which they took the `tables` lock, whichever threads made them) that
contains at least one call handing out a table or changing the catalog - `open_table`,
`open_multimap_table`, `delete_table`, `rename_table`, `delete_multimap_table`,
`rename_multimap_table` - a following `ephemeral_savepoint` is refused: it changes nothing, in
particular it registers no savepoint. -/
theorem c16_no_savepoint_after_any_dirtying_call (cs : List Call) (c : Call) (hm : c ∈ cs)
    (hc : c.dirtying = true) :
    runCalls init (cs ++ [.ephemeralSavepoint]) = runCalls init cs := by
  have hd := dirty_of_mem init cs c hm hc
  simp only [runCalls, run, List.map_append, List.foldl_append, List.map_cons, List.map_nil,
    List.foldl_cons, List.foldl_nil, Call.op] at hd ⊢
  exact c16_savepoint_refused_when_dirty _ hd

/-- and a transaction on which none of them has been called is granted the savepoint -/
theorem c16_savepoint_granted_when_clean (n : Nat) :
    (runCalls init (List.replicate n .ephemeralSavepoint ++ [.ephemeralSavepoint])).savepointExists = true := by
  have clean : ∀ (k : Nat) (s : St), s.dirty = false →
      (run s (List.replicate k Op.ephemeralSavepoint)).dirty = false := by
    intro k
    induction k with
    | zero => intro s h; simpa [run] using h
    | succ k ih =>
      intro s h
      simp only [run, List.replicate_succ, List.foldl_cons]
      exact ih _ (by simp [step, h])
  have hd := clean n init (by simp [init])
  simp only [runCalls, run, List.map_append, List.map_replicate, List.foldl_append, List.map_cons,
    List.map_nil, List.foldl_cons, List.foldl_nil, Call.op] at hd ⊢
  simp [step, hd]

example : (Call.openMultimapTable).dirtying = true ∧ Call.openMultimapTable ∈ [Call.openMultimapTable] := by decide

/-- NEGATIVE result: without the lock — `ephemeral_savepoint` split into its check and its
registration, separately schedulable — three actions reach a state in which a savepoint exists
while allocation tracking is off. The property depends on the lock. -/
theorem c16_unlocked_race_witness :
    ∃ ops : List UOp, ops.length = 3 ∧
      (urun init ops).savepointExists = true ∧ (urun init ops).trackingOn = false :=
  ⟨[.spCheck, .setDirty, .spRegister], by decide⟩

/-- the locked `ephemeralSavepoint` is exactly "check ; register" with nothing in between -/
theorem c16_locked_is_atomic_pair (s : St) (h : s.checked = false) :
    ustep (ustep s .spCheck) .spRegister = step s .ephemeralSavepoint := by
  cases hd : s.dirty <;> simp [ustep, step, hd, h]

end Redb.Conc.Tables

/-! ## Part 2: concurrent operations on different tables -/
namespace Redb.Conc.Multi

variable {Name Content Page : Type} [DecidableEq Name]

/-- abstract state of a write transaction's tables -/
structure TSt (Name Content Page : Type) where
  contents : Name → Content
  pages : Name → Page → Prop
  allocated : Page → Prop

/-- one operation on one table: what it does to the contents, and the page the allocator hands out
for it (if it needs one) -/
structure TOp (Name Content Page : Type) where
  table : Name
  f : Content → Content
  alloc : Option Page

/-- `alloc_sound`: the page handed out is not currently allocated -/
def Enabled (s : TSt Name Content Page) (o : TOp Name Content Page) : Prop :=
  ∀ pg, o.alloc = some pg → ¬ s.allocated pg

/-- the effect of an operation: one atomic action -/
def apply (s : TSt Name Content Page) (o : TOp Name Content Page) : TSt Name Content Page :=
  { contents := fun n => if n = o.table then o.f (s.contents n) else s.contents n
    pages := fun n pg => s.pages n pg ∨ (n = o.table ∧ o.alloc = some pg)
    allocated := fun pg => s.allocated pg ∨ o.alloc = some pg }

/-- any interleaving of the threads' operation streams is some sequence of enabled operations -/
inductive Run : TSt Name Content Page → List (TOp Name Content Page) → TSt Name Content Page → Prop where
  | nil (s) : Run s [] s
  | cons {s s' o ops} : Enabled s o → Run (apply s o) ops s' → Run s (o :: ops) s'

/-- page accounting: the pages of the tables are allocated, and no page belongs to two tables -/
def WF (s : TSt Name Content Page) : Prop :=
  (∀ n pg, s.pages n pg → s.allocated pg) ∧
  (∀ n m pg, n ≠ m → ¬ (s.pages n pg ∧ s.pages m pg))

theorem wf_apply {s : TSt Name Content Page} {o : TOp Name Content Page} (h : WF s)
    (he : Enabled s o) : WF (apply s o) := by
  obtain ⟨h1, h2⟩ := h
  constructor
  · intro n pg hp
    rcases hp with hp | ⟨_, hp⟩
    · exact Or.inl (h1 n pg hp)
    · exact Or.inr hp
  · intro n m pg hnm ⟨hn, hm⟩
    rcases hn with hn | ⟨hn1, hn2⟩ <;> rcases hm with hm | ⟨hm1, hm2⟩
    · exact h2 n m pg hnm ⟨hn, hm⟩
    · exact he pg hm2 (h1 n pg hn)
    · exact he pg hn2 (h1 m pg hm)
    · exact hnm (hn1.trans hm1.symm)

/-- For any interleaving of per-table operation streams (every allocation being an atomic action
handing out an unallocated page): the page sets of different tables are disjoint, and every page of
a table is accounted as allocated. -/
theorem c16_tables_disjoint {s s' : TSt Name Content Page} {ops : List (TOp Name Content Page)}
    (h : WF s) (hr : Run s ops s') :
    (∀ n m pg, n ≠ m → ¬ (s'.pages n pg ∧ s'.pages m pg)) ∧ (∀ n pg, s'.pages n pg → s'.allocated pg) := by
  induction hr with
  | nil => exact ⟨h.2, h.1⟩
  | cons he _ ih => exact ih (wf_apply h he)

omit [DecidableEq Name] in
/-- a fresh transaction (no table owns a page) is well-formed -/
theorem wf_fresh (c : Name → Content) (a : Page → Prop) :
    WF ({ contents := c, pages := fun _ _ => False, allocated := a } : TSt Name Content Page) := by
  constructor
  · intro n pg h; exact h.elim
  · intro n m pg _ h; exact h.1.elim

/-- the operations of table `n` in a stream, applied in order -/
def ownStream (n : Name) (ops : List (TOp Name Content Page)) (c : Content) : Content :=
  (ops.filter (fun o => o.table = n)).foldl (fun c o => o.f c) c

/-- The final contents of every table are what its own operations, applied on their own in their
order, produce: they do not depend on how the other tables' operations were interleaved, nor on
which pages the allocator handed out. -/
theorem c16_contents_own_stream {s s' : TSt Name Content Page} {ops : List (TOp Name Content Page)}
    (hr : Run s ops s') (n : Name) : s'.contents n = ownStream n ops (s.contents n) := by
  induction hr with
  | nil => simp [ownStream]
  | @cons s s' o ops he _ ih =>
    rw [ih]
    by_cases hn : o.table = n
    · simp [ownStream, apply, hn]
    · have hn' : ¬ n = o.table := fun h => hn h.symm
      simp [ownStream, apply, hn, hn']

/-- Operations of different tables commute: in either order they are enabled together or not at
all, and they lead to the same state. -/
theorem c16_ops_commute (s : TSt Name Content Page) (o1 o2 : TOp Name Content Page)
    (hne : o1.table ≠ o2.table) :
    apply (apply s o1) o2 = apply (apply s o2) o1 ∧
    ((Enabled s o1 ∧ Enabled (apply s o1) o2) ↔ (Enabled s o2 ∧ Enabled (apply s o2) o1)) := by
  constructor
  · simp only [apply]
    congr 1
    · funext n
      have hne' : o2.table ≠ o1.table := fun h => hne h.symm
      by_cases h1 : n = o1.table <;> by_cases h2 : n = o2.table
      · exact absurd (h1.symm.trans h2) hne
      · subst h1; simp [hne]
      · subst h2; simp [hne']
      · simp [h1, h2]
    · funext n pg
      apply propext
      constructor
      · rintro ((h | h) | h)
        · exact Or.inl (Or.inl h)
        · exact Or.inr h
        · exact Or.inl (Or.inr h)
      · rintro ((h | h) | h)
        · exact Or.inl (Or.inl h)
        · exact Or.inr h
        · exact Or.inl (Or.inr h)
    · funext pg
      apply propext
      constructor
      · rintro ((h | h) | h)
        · exact Or.inl (Or.inl h)
        · exact Or.inr h
        · exact Or.inl (Or.inr h)
      · rintro ((h | h) | h)
        · exact Or.inl (Or.inl h)
        · exact Or.inr h
        · exact Or.inl (Or.inr h)
  · constructor
    · rintro ⟨h1, h2⟩
      refine ⟨fun pg hp ha => h2 pg hp (Or.inl ha), ?_⟩
      intro pg hp ha
      rcases ha with ha | ha
      · exact h1 pg hp ha
      · exact h2 pg ha (Or.inr hp)
    · rintro ⟨h1, h2⟩
      refine ⟨fun pg hp ha => h2 pg hp (Or.inl ha), ?_⟩
      intro pg hp ha
      rcases ha with ha | ha
      · exact h1 pg hp ha
      · exact h2 pg ha (Or.inr hp)

end Redb.Conc.Multi
