import RedbModel.Props.Life
/-!
# C02 — A read transaction sees one frozen snapshot

A live read transaction is a `Pin` (kind `reader`) listing the pages of the tree it opened. At
the ownership level "frozen" means: for as long as the pin is present, each of its pages stays
allocated and stays owned by the latest data tree or by a pending-free record of a LATER
transaction, i.e. it is never released and never handed to another use (`sys`, `sfreed`, free),
and its owner changes only by the legal `PinnedMove`s.
NOT covered here: byte-level immutability of the pinned pages (a page rewritten in place, or
released and re-allocated to the data tree between two observations) — that is checked at run
time by the harness page fingerprint oracle, not proved; nor that the pin's page list is the
reader's real reachable set (harness decoder).
-/
namespace Redb.Life

/-- in one state: a pinned page is in the latest data tree or waits in a later record -/
theorem c02_pin_owner {s : St} {π : Pin} {p : Page} (h : ownOk s = true) (hp : pinOk s = true)
    (hπ : π ∈ s.pins) (hpp : p ∈ π.pages) :
    owner s p = some .data ∨ ∃ t, π.id < t ∧ owner s p = some (.dfreed t) :=
  pin_owner h hp hπ hpp

/-- across one legal step: a page of a surviving pin stays allocated and data-side -/
theorem c02_step_keeps_pinned {s s' : St} {π : Pin} {p : Page}
    (h : ownOk s = true) (hp : pinOk s = true) (h' : ownOk s' = true)
    (hs : stepOk false s s' = true) (hπ : π ∈ surviving s s') (hpp : p ∈ π.pages) :
    p ∈ s'.alloc ∧ ∃ o o', owner s p = some o ∧ owner s' p = some o' ∧
      (o = .data ∨ ∃ t, π.id < t ∧ o = .dfreed t) ∧ PinnedMove s p o o' ∧
      (o' = .data ∨ ∃ t, π.id < t ∧ o' = .dfreed t) :=
  step_keeps_pinned h hp h' hs hπ hpp

/-- over a whole trace in which the pin lives -/
theorem c02_pinned_never_released {tr : List (Bool × St)} {π : Pin} {p : Page}
    (hacc : accept tr = true)
    (hnc : ∀ x ∈ tr.tail, x.1 = false)
    (hpin : ∀ x ∈ tr, x.2.pins.any (fun π' => π.same π') = true)
    (hp : p ∈ π.pages) :
    (∀ x ∈ tr, p ∈ x.2.alloc ∧
      (owner x.2 p = some .data ∨ ∃ t, π.id < t ∧ owner x.2 p = some (.dfreed t))) ∧
    (∀ pre x y post, tr = pre ++ x :: y :: post →
      ∃ o o', owner x.2 p = some o ∧ owner y.2 p = some o' ∧ PinnedMove x.2 p o o') :=
  pinned_never_released hacc hnc hpin hp

/-- negative form: never free, never a system page -/
theorem c02_pinned_never_reused {tr : List (Bool × St)} {π : Pin} {p : Page}
    (hacc : accept tr = true)
    (hnc : ∀ x ∈ tr.tail, x.1 = false)
    (hpin : ∀ x ∈ tr, x.2.pins.any (fun π' => π.same π') = true)
    (hp : p ∈ π.pages) :
    ∀ x ∈ tr, owner x.2 p ≠ none ∧ owner x.2 p ≠ some .sys ∧
      ∀ t, owner x.2 p ≠ some (.sfreed t) :=
  pinned_never_reused hacc hnc hpin hp

end Redb.Life
