import RedbModel.Lemmas.Storage
/-!
# C01 -- commits are atomic and durable across crashes

Models: `Model/Recovery.lean` (`recover` = the slot choice of `Database::new` + `do_repair`, checked
against the real recovery on crash images by `img recover`), `Model/Storage.lean` (abstract disk,
crash outcomes `Outcome`, protocol monitor `accept`; the same executable definitions are run on the
recorded storage streams by `Driver/Storage.lean`).

The two idealisations (stated in full in the header of `Model/Storage.lean`; they stand for XXH3-128
collision freedom, there is no axiom):
  (I1) a page whose bytes differ from those the slot's checksum chain covers fails verification
       (pages carry tags, a slot lists the (page, tag) pairs of its trees, garbage has no tag);
  (I2) a torn slot image (a mixture of two different slot images) is not a valid slot.

Reading guide.  `stateAfter D0 pre = some s`: after the prefix `pre` of an accepted stream the
monitor is in state `s`; `s.D` is the durable disk (`durableOf`: everything up to the last `sync`
applied), `s.P` the events issued since (`pendingOf`, newest first) and `s.i` the slot a recovery
serves on `s.D` (`stateAfter_spec`).  `Outcome s.D s.P o`: `o` may be found on the medium if the
process stops now.  `ServedBy D i r o k` (Lemmas/Storage.lean): slot `k` of `o` is valid, its whole
tree verifies on `o`, and its image is the image the durable disk serves, or an image with a
GREATER transaction id that a header write put into the other slot (durable or still pending --
requested, not acknowledged).  The recovery is quantified over every verification oracle `vf`
that is right on valid slots (what it answers on torn slots is irrelevant) and over both values
of `quick`.
-/
set_option linter.unusedSimpArgs false
set_option linter.unusedVariables false
namespace Redb.Storage
open Redb.Recovery

/-- monitor state after the events `pre` from the fully durable disk `D0` -/
def stateAfter (D0 : Disk) (pre : List Ev) : Option St :=
  match start D0 with
  | some s => run s pre
  | none => none

/-- the durable disk after a stream: pending events are applied at every `sync` -/
def durableOf (D : Disk) (P : List Ev) : List Ev → Disk
  | [] => D
  | .sync :: es => durableOf (flush D P) [] es
  | e :: es => durableOf D (e :: P) es

/-- the events issued since the last `sync`, newest first -/
def pendingOf (P : List Ev) : List Ev → List Ev
  | [] => P
  | .sync :: es => pendingOf [] es
  | e :: es => pendingOf (e :: P) es

theorem step_spec {s s' : St} {e : Ev} (h : step s e = some s') :
    s'.D = durableOf s.D s.P [e] ∧ s'.P = pendingOf s.P [e] := by
  cases e with
  | sync =>
    simp only [step] at h
    split at h
    · cases h; exact ⟨rfl, rfl⟩
    · cases h
  | header _ => simp only [step] at h; split at h <;> cases h; exact ⟨rfl, rfl⟩
  | write _ => simp only [step] at h; split at h <;> cases h; exact ⟨rfl, rfl⟩
  | setLen _ => simp only [step] at h; split at h <;> cases h; exact ⟨rfl, rfl⟩

theorem durableOf_cons (D : Disk) (P : List Ev) (e : Ev) (es : List Ev) :
    durableOf D P (e :: es) = durableOf (durableOf D P [e]) (pendingOf P [e]) es := by
  cases e <;> simp [durableOf, pendingOf]

theorem pendingOf_cons (P : List Ev) (e : Ev) (es : List Ev) :
    pendingOf P (e :: es) = pendingOf (pendingOf P [e]) es := by
  cases e <;> simp [pendingOf]

theorem run_spec {s s' : St} {tr : List Ev} (h : run s tr = some s') :
    s'.D = durableOf s.D s.P tr ∧ s'.P = pendingOf s.P tr := by
  induction tr generalizing s with
  | nil => simp only [run] at h; cases h; exact ⟨rfl, rfl⟩
  | cons e es ih =>
    simp only [run] at h
    split at h
    · rename_i s1 h1
      obtain ⟨a, b⟩ := step_spec h1
      obtain ⟨c, d⟩ := ih h
      refine ⟨?_, ?_⟩
      · rw [durableOf_cons, ← a, ← b]; exact c
      · rw [pendingOf_cons s.P e es, ← b]; exact d
    · cases h

/-- `vf` answers like the verification of the trees on every valid slot (on a torn slot the code
would walk garbage roots; the theorems hold whatever it answers there) -/
def Faithful (o : Disk) (vf : Nat → Bool) : Prop :=
  ∀ k, (o.hdr.slot k).isGood = true → vf k = o.verifies k

theorem accept_prefix {D0 : Disk} {tr : List Ev} (hacc : accept D0 tr = true) {pre : List Ev}
    (hpre : pre <+: tr) : ∃ s0 s, start D0 = some s0 ∧ run s0 pre = some s ∧ RunInv s0 ∧ RunInv s := by
  unfold accept at hacc
  split at hacc
  · rename_i s0 hs0
    obtain ⟨rest, rfl⟩ := hpre
    cases hr : run s0 (pre ++ rest) with
    | none => simp [hr] at hacc
    | some s'' =>
      obtain ⟨s, h1, _⟩ := run_append hr
      have hi0 := (start_inv hs0).1
      exact ⟨s0, s, hs0, h1, hi0, (run_inv hi0 h1).1⟩
  · cases hacc

/-- what the monitor state after a prefix is: the durable disk, the pending events, and the slot a
recovery serves on the durable disk -/
theorem stateAfter_spec {D0 : Disk} {pre : List Ev} {s : St} (h : stateAfter D0 pre = some s) :
    s.D = durableOf D0 [] pre ∧ s.P = pendingOf [] pre ∧ s.D.served = .ok s.i := by
  unfold stateAfter at h
  split at h
  · rename_i s0 hs0
    obtain ⟨hi0, hD, hP⟩ := start_inv hs0
    obtain ⟨a, b⟩ := run_spec h
    rw [hD, hP] at a
    rw [hP] at b
    exact ⟨a, b, (run_inv hi0 h).1.good.served⟩
  · cases h

/-- **C01, crash recovery.** For every accepted event stream, every prefix of it, and every crash
outcome `o` of the durable disk and the pending events at that prefix, the recovery succeeds -- it
never reports an error -- and serves a slot `k` of `o` that is valid, whose whole tree verifies on
`o`, and that holds either the commit the durable disk serves or a newer commit that was
requested (written into the other slot by a header write of the stream) -- never anything else. -/
theorem c01_crash_recover (D0 : Disk) (tr : List Ev) (hacc : accept D0 tr = true)
    (pre : List Ev) (hpre : pre <+: tr) :
    ∃ s, stateAfter D0 pre = some s ∧
      ∀ o, Outcome s.D s.P o → ∀ (vf : Nat → Bool) (q : Bool), Faithful o vf →
        ∃ k, recover o.view vf q = .ok k ∧ ServedBy s.D s.i s.P o k := by
  obtain ⟨s0, s, h0, h1, _, hs⟩ := accept_prefix hacc hpre
  refine ⟨s, by simp [stateAfter, h0, h1], ?_⟩
  intro o ho vf q hvf
  exact outcome_served hs ho vf q hvf

/-- **C01, never a mixture.** Whatever slot the recovery serves on a crash outcome, it is a valid
slot and every page of its trees holds in `o` exactly the bytes it had when the slot was written:
the contents are those of exactly one commit point. -/
theorem c01_never_mixture (D0 : Disk) (tr : List Ev) (hacc : accept D0 tr = true)
    (pre : List Ev) (hpre : pre <+: tr) :
    ∃ s, stateAfter D0 pre = some s ∧
      ∀ o, Outcome s.D s.P o → ∀ (vf : Nat → Bool) (q : Bool), Faithful o vf →
        ∀ k, recover o.view vf q = .ok k →
          (o.hdr.slot k).isGood = true ∧
          verifiesImg o.pages o.len (o.hdr.slot k) = true := by
  obtain ⟨s, hs, h⟩ := c01_crash_recover D0 tr hacc pre hpre
  refine ⟨s, hs, ?_⟩
  intro o ho vf q hvf k hk
  obtain ⟨k', hk', hsb⟩ := h o ho vf q hvf
  rw [hk] at hk'; cases hk'
  exact ⟨hsb.2.1, hsb.2.2.1⟩

/-- **C01, durable commits are not lost.** Let `s1` be the monitor state after `tr1` (if `tr1`
ends with the `sync` that completes a commit, `s1.D` is the disk made durable by that sync and
slot `s1.i` of it holds that commit). Then on every crash outcome at any later point of the stream
the recovery serves a commit whose transaction id is at least that of the commit served at `s1`:
the acknowledged commit itself or a later one. -/
theorem c01_durable_not_lost (D0 : Disk) (tr1 tr2 : List Ev)
    (hacc : accept D0 (tr1 ++ tr2) = true) :
    ∃ s1 s2, stateAfter D0 tr1 = some s1 ∧ stateAfter D0 (tr1 ++ tr2) = some s2 ∧
      ∀ o, Outcome s2.D s2.P o → ∀ (vf : Nat → Bool) (q : Bool), Faithful o vf →
        ∃ k, recover o.view vf q = .ok k ∧
          (s1.D.hdr.slot s1.i).id ≤ (o.hdr.slot k).id ∧
          (s2.D.hdr.slot s2.i).id ≤ (o.hdr.slot k).id := by
  obtain ⟨s0, s2, h0, h2, hi0, hs2⟩ := accept_prefix hacc (List.prefix_refl _)
  obtain ⟨s1, h1, h12⟩ := run_append h2
  have hs1 := (run_inv hi0 h1).1
  have hle := (run_inv hs1 h12).2
  refine ⟨s1, s2, by simp [stateAfter, h0, h1], by simp [stateAfter, h0, h2], ?_⟩
  intro o ho vf q hvf
  obtain ⟨k, hk, hsb⟩ := outcome_served hs2 ho vf q hvf
  refine ⟨k, hk, ?_⟩
  have : (s2.D.hdr.slot s2.i).id ≤ (o.hdr.slot k).id := by
    rcases hsb.2.2.2 with e | ⟨e, _⟩
    · rw [e]; exact Nat.le_refl _
    · exact Nat.le_of_lt e
  exact ⟨Nat.le_trans hle this, this⟩

/-! ## crashes during the recovery run -/

def setSlot (h : HeaderImg) (j : Nat) (x : SlotImg) : HeaderImg :=
  if j = 0 then { h with slot0 := x } else { h with slot1 := x }

theorem setSlot_same (h : HeaderImg) (j : Nat) (x : SlotImg) : (setSlot h j x).slot j = x := by
  unfold setSlot HeaderImg.slot; split <;> simp_all
theorem setSlot_other (h : HeaderImg) {i : Nat} (hi : i < 2) (x : SlotImg) :
    (setSlot h (other i) x).slot i = h.slot i := by
  unfold setSlot HeaderImg.slot other; split <;> split <;> simp_all
theorem setSlot_god (h : HeaderImg) (j : Nat) (x : SlotImg) : (setSlot h j x).god = h.god := by
  unfold setSlot; split <;> rfl
theorem setSlot_layLen (h : HeaderImg) (j : Nat) (x : SlotImg) : (setSlot h j x).layLen = h.layLen := by
  unfold setSlot; split <;> rfl

/-- the header after the repair commit's slot write -/
def repairHdr1 (D : Disk) (i id' : Nat) : HeaderImg :=
  setSlot D.hdr (other i) (.good id' (D.hdr.slot i).tree)
/-- ... and after its flip of the primary bit with the 2-phase flag -/
def repairHdr2 (D : Disk) (i id' : Nat) : HeaderImg :=
  { repairHdr1 D i id' with god := { D.hdr.god with primary := other i, tp := true } }

/-- the repair commit of `Database::new` / `check_integrity`: a 2-phase commit of the roots that
were just verified (the same trees), with a fresh id, into the other slot -/
def repairCommit (D : Disk) (i id' : Nat) : List Ev :=
  [ .header (repairHdr1 D i id'), .sync, .header (repairHdr2 D i id'), .sync ]

theorem verifies_retag {pages : PageMap} {len : Nat} {s : SlotImg} (id' : Nat)
    (h : verifiesImg pages len s = true) : verifiesImg pages len (.good id' s.tree) = true := by
  cases s with
  | torn => simp [verifiesImg] at h
  | good _ _ => exact h

theorem repair_hdr1_ok {D : Disk} {i : Nat} (g : Good D i) {id' : Nat}
    (hid : (D.hdr.slot i).id < id') : evOk D i [] (.header (repairHdr1 D i id')) = true := by
  have hnf : flips (repairHdr1 D i id') (other i) = false := by
    unfold flips repairHdr1; rw [setSlot_god]
    cases htp : D.hdr.god.tp with
    | false => simp
    | true =>
      have := g.notFlipped htp
      simp only [Bool.true_and, beq_eq_false_iff_ne, ne_eq, this]
      exact fun e => other_ne e.symm
  have hL : (D.hdr.god.rr || decide (D.hdr.layLen ≤ D.len)) = true := by
    cases hrr : D.hdr.god.rr with
    | true => rfl
    | false => simpa using g.layOk hrr
  simp only [evOk, hdrOk, pendHdr, Option.isNone_none, hnf, hasSetLen, List.all_nil]
  unfold repairHdr1
  rw [setSlot_same, setSlot_other _ g.ilt, setSlot_god, setSlot_layLen]
  simp [g.plt, newer, hid]
  cases hrr : D.hdr.god.rr <;> simp_all

theorem repairHdr2_slot (D : Disk) (i id' k : Nat) :
    (repairHdr2 D i id').slot k = (repairHdr1 D i id').slot k := rfl

theorem repair_hdr2_ok {D : Disk} {i : Nat} (g : Good D i) {id' : Nat}
    (hid : (D.hdr.slot i).id < id') {k1 : Nat} (hk1 : k1 < 2) :
    evOk { D with hdr := repairHdr1 D i id' } k1 [] (.header (repairHdr2 D i id')) = true := by
  have hL : D.hdr.god.rr = true ∨ D.hdr.layLen ≤ D.len := by
    cases hrr : D.hdr.god.rr with
    | true => left; rfl
    | false => right; exact g.layOk hrr
  have hlay1 : (repairHdr1 D i id').layLen = D.hdr.layLen := setSlot_layLen _ _ _
  have hlay2 : (repairHdr2 D i id').layLen = D.hdr.layLen := hlay1
  have hgod1 : (repairHdr1 D i id').god = D.hdr.god := setSlot_god _ _ _
  have hrr2 : (repairHdr2 D i id').god.rr = D.hdr.god.rr := rfl
  have hp2 : (repairHdr2 D i id').god.primary = other i := rfl
  have htp2 : (repairHdr2 D i id').god.tp = true := rfl
  have hsj : (repairHdr1 D i id').slot (other i) = .good id' (D.hdr.slot i).tree := setSlot_same _ _ _
  have hsi : (repairHdr1 D i id').slot i = D.hdr.slot i := setSlot_other _ g.ilt _
  simp only [evOk, hdrOk, pendHdr, Option.isNone_none, hasSetLen, List.all_nil, repairHdr2_slot,
    hlay1, hlay2, hgod1, hrr2, hp2, decide_true, Bool.true_and, Bool.and_true, Bool.true_or]
  rcases eq_or_other g.ilt hk1 with rfl | rfl
  · have hf : flips (repairHdr2 D k1 id') (other k1) = true := by simp [flips, htp2, hp2]
    have hv : verifiesImg D.pages D.len (SlotImg.good id' (D.hdr.slot k1).tree) = true :=
      verifies_retag id' g.verI
    rw [hf, hsj, hsi]
    rcases hL with hL | hL <;> simp [other_lt, newer, hid, hv, hL]
  · have hf : flips (repairHdr2 D i id') (other (other i)) = false := by
      simp only [flips, htp2, hp2, Bool.true_and, beq_eq_false_iff_ne, ne_eq, other_other g.ilt]
      exact other_ne
    rw [hf]
    rcases hL with hL | hL <;> simp [other_lt, hL]

theorem sync_exists {s : St} (hs : RunInv s) :
    ∃ k, step s .sync = some ⟨flush s.D s.P, [], k⟩ ∧ RunInv ⟨flush s.D s.P, [], k⟩ := by
  obtain ⟨k, hk, _⟩ := outcome_served hs (outcome_flush s.D s.P) (flush s.D s.P).verifies false
    (fun _ _ => rfl)
  have hst : step s .sync = some ⟨flush s.D s.P, [], k⟩ := by
    simp only [step]
    have : (flush s.D s.P).served = .ok k := hk
    rw [this]
  exact ⟨k, hst, (step_inv hs hst).1⟩

/-- a newer valid verifying commit in the other slot is only passed over under the 2-phase flag -/
theorem recover_no_newer {v : HeaderView} {vf : Nat → Bool} {q : Bool} {i : Nat} (hi : i < 2)
    (hp : v.primary < 2) (h : recover v vf q = .ok i) (htp : v.twoPhase = false)
    (hvj : v.valid (other i) = true) (hvfj : vf (other i) = true)
    (hid : v.id i < v.id (other i)) : False := by
  have hoo := other_other hi
  have hne : other i ≠ i := other_ne
  unfold recover selectSlot at h
  rcases eq_or_other hi hp with hpi | hpj
  · simp only [htp, hpi, hvj, hid] at h
    cases hw : v.wellFormed <;> cases hvi : v.valid i <;> simp [hw, hvi, hvfj] at h <;>
      exact hne h
  · have hid' : ¬ v.id i < v.id i := Nat.lt_irrefl _
    have hid2 : ¬ v.id (other i) < v.id i := by omega
    simp only [htp, hpj, hvj, hoo, hid2] at h
    cases hw : v.wellFormed <;> cases hvi : v.valid i <;> simp [hw, hvi, hvfj] at h <;>
      exact hne h

theorem Good.noNewer {D : Disk} {i : Nat} (g : Good D i)
    (hgj : (D.hdr.slot (other i)).isGood = true) (hvj : D.verifies (other i) = true)
    (hid : (D.hdr.slot i).id < (D.hdr.slot (other i)).id) : D.hdr.god.tp = true := by
  cases htp : D.hdr.god.tp with
  | true => rfl
  | false =>
    exfalso
    exact recover_no_newer g.ilt g.plt g.served htp (by rw [view_valid]; exact hgj) hvj
      (by rw [view_id, view_id]; exact hid)

/-- on an outcome whose header write left the god byte and the pages alone, the recovery serves
the old commit or the new slot image, never the overwritten one -/
theorem served_tree_epoch1 {D : Disk} {i : Nat} (g : Good D i) {r : List Ev} {o : Disk}
    (hp : pendOk D i r = true) (ho : Outcome D r o)
    (hgod : o.hdr.god = D.hdr.god) (hpg : o.pages = D.pages) (hlen : o.len = D.len)
    {vf : Nat → Bool} {q : Bool} {k : Nat} (hk : recover o.view vf q = .ok k)
    (hsb : ServedBy D i r o k) : o.hdr.slot k ≠ D.hdr.slot (other i) ∨ o.hdr.slot k = D.hdr.slot i := by
  have I := inv_of_outcome g hp ho
  by_cases he : o.hdr.slot k = D.hdr.slot (other i)
  · rcases hsb.2.2.2 with e | ⟨hid, _⟩
    · right; exact e
    · exfalso
      have hvj : D.verifies (other i) = true := by
        have := hsb.2.2.1
        unfold Disk.verifies at this ⊢
        rw [he, hpg, hlen] at this; exact this
      have htp := g.noNewer (by rw [← he]; exact hsb.2.1) hvj (by rw [← he]; exact hid)
      have hk' : k = o.view.primary := recover_twoPhase hk (by show o.hdr.god.tp = true; rw [hgod]; exact htp)
      have : k = i := by rw [hk']; show o.hdr.god.primary = i; rw [hgod]; exact g.notFlipped htp
      subst this
      rw [I.slotI] at hid
      exact Nat.lt_irrefl _ hid
  · left; exact he

theorem servedBy_tree {D' : Disk} {i' : Nat} {r : List Ev} {o : Disk} {k : Nat} (T : List (Nat × Nat))
    (hD : ∀ x, x < 2 → (D'.hdr.slot x).tree = T)
    (hh : ∀ h, pendHdr r = some h → ∀ x, x < 2 → (h.slot x).tree = T) (hi' : i' < 2)
    (hsb : ServedBy D' i' r o k) : (o.hdr.slot k).tree = T := by
  rcases hsb.2.2.2 with e | ⟨_, e | ⟨h, hph, e⟩⟩
  · rw [e]; exact hD _ hi'
  · rw [e]; exact hD _ (other_lt _)
  · rw [e]; exact hh h hph _ (other_lt _)

theorem repairHdr1_tree {D : Disk} {i : Nat} (hi : i < 2) (id' : Nat) {x : Nat} (hx : x < 2) :
    ((repairHdr1 D i id').slot x).tree = (D.hdr.slot i).tree := by
  rcases eq_or_other hi hx with rfl | rfl
  · unfold repairHdr1; rw [setSlot_other _ hi]
  · unfold repairHdr1; rw [setSlot_same]; rfl

theorem prefix_cases4 {α : Type} {a b c d : α} {pre : List α} (h : pre <+: [a, b, c, d]) :
    pre = [] ∨ pre = [a] ∨ pre = [a, b] ∨ pre = [a, b, c] ∨ pre = [a, b, c, d] := by
  obtain ⟨t, ht⟩ := h
  rcases pre with _ | ⟨x1, pre⟩
  · simp
  simp only [List.cons_append, List.cons.injEq] at ht
  obtain ⟨rfl, ht⟩ := ht
  rcases pre with _ | ⟨x2, pre⟩
  · simp
  simp only [List.cons_append, List.cons.injEq] at ht
  obtain ⟨rfl, ht⟩ := ht
  rcases pre with _ | ⟨x3, pre⟩
  · simp
  simp only [List.cons_append, List.cons.injEq] at ht
  obtain ⟨rfl, ht⟩ := ht
  rcases pre with _ | ⟨x4, pre⟩
  · simp
  simp only [List.cons_append, List.cons.injEq] at ht
  obtain ⟨rfl, ht⟩ := ht
  rcases pre with _ | ⟨x5, pre⟩
  · simp
  · simp at ht

/-- the recovery served slot `k` of `o` with the trees of slot `i` of `D`: a valid slot, wholly
verifying, with the same (page, tag) list, i.e. the same contents -/
def SameContents (D : Disk) (i : Nat) (o : Disk) (k : Nat) : Prop :=
  (o.hdr.slot k).isGood = true ∧ o.verifies k = true ∧ (o.hdr.slot k).tree = (D.hdr.slot i).tree

theorem repair_core {D : Disk} {i : Nat} (g : Good D i) {id' : Nat}
    (hid : (D.hdr.slot i).id < id') (pre : List Ev) (hpre : pre <+: repairCommit D i id') :
    ∃ s', run ⟨D, [], i⟩ pre = some s' ∧ RunInv s' ∧
      ∀ o, Outcome s'.D s'.P o → ∀ (vf : Nat → Bool) (q : Bool), Faithful o vf →
        ∃ k, recover o.view vf q = .ok k ∧ SameContents D i o k := by
  -- the five states
  have hs0 : RunInv ⟨D, [], i⟩ := ⟨g, rfl⟩
  have st1 : step ⟨D, [], i⟩ (.header (repairHdr1 D i id')) =
      some ⟨D, [.header (repairHdr1 D i id')], i⟩ := by
    simp [step, repair_hdr1_ok g hid]
  have hs1 := (step_inv hs0 st1).1
  obtain ⟨k1, st2, hs2⟩ := sync_exists hs1
  have hfl1 : flush D [Ev.header (repairHdr1 D i id')] = { D with hdr := repairHdr1 D i id' } := rfl
  simp only [hfl1] at st2 hs2
  have st3 : step ⟨{ D with hdr := repairHdr1 D i id' }, [], k1⟩ (.header (repairHdr2 D i id')) =
      some ⟨{ D with hdr := repairHdr1 D i id' }, [.header (repairHdr2 D i id')], k1⟩ := by
    simp [step, repair_hdr2_ok g hid hs2.good.ilt]
  have hs3 := (step_inv hs2 st3).1
  obtain ⟨k2, st4, hs4⟩ := sync_exists hs3
  have hfl2 : flush { D with hdr := repairHdr1 D i id' } [Ev.header (repairHdr2 D i id')] =
      { D with hdr := repairHdr2 D i id' } := rfl
  simp only [hfl2] at st4 hs4
  -- contents on the states over the new headers
  have late : ∀ (s' : St), RunInv s' → (∀ x, x < 2 → (s'.D.hdr.slot x).tree = (D.hdr.slot i).tree) →
      (∀ h, pendHdr s'.P = some h → ∀ x, x < 2 → (h.slot x).tree = (D.hdr.slot i).tree) →
      ∀ o, Outcome s'.D s'.P o → ∀ (vf : Nat → Bool) (q : Bool), Faithful o vf →
        ∃ k, recover o.view vf q = .ok k ∧ SameContents D i o k := by
    intro s' hs' hD hh o ho vf q hvf
    obtain ⟨k, hk, hsb⟩ := outcome_served hs' ho vf q hvf
    exact ⟨k, hk, hsb.2.1, hsb.2.2.1, servedBy_tree _ hD hh hs'.good.ilt hsb⟩
  -- contents on the states over the old header
  have early : ∀ (r : List Ev), RunInv ⟨D, r, i⟩ →
      (∀ h, pendHdr r = some h → h = repairHdr1 D i id') →
      (∀ o, Outcome D r o → o.hdr.god = D.hdr.god ∧ o.pages = D.pages ∧ o.len = D.len) →
      ∀ o, Outcome D r o → ∀ (vf : Nat → Bool) (q : Bool), Faithful o vf →
        ∃ k, recover o.view vf q = .ok k ∧ SameContents D i o k := by
    intro r hr hh hsame o ho vf q hvf
    obtain ⟨k, hk, hsb⟩ := outcome_served hr ho vf q hvf
    obtain ⟨hgod, hpg, hlen⟩ := hsame o ho
    refine ⟨k, hk, hsb.2.1, hsb.2.2.1, ?_⟩
    have hcase := served_tree_epoch1 g hr.pend ho hgod hpg hlen hk hsb
    rcases hsb.2.2.2 with e | ⟨_, e | ⟨h, hph, e⟩⟩
    · rw [e]
    · rcases hcase with hc | hc
      · exact absurd e hc
      · rw [hc]
    · rw [e, hh h hph]; exact repairHdr1_tree g.ilt id' (other_lt _)
  rcases prefix_cases4 hpre with rfl | rfl | rfl | rfl | rfl
  · refine ⟨_, rfl, hs0, early [] hs0 (by intro h hh; simp [pendHdr] at hh) ?_⟩
    intro o ho; simp only [Outcome] at ho; subst ho; exact ⟨rfl, rfl, rfl⟩
  · refine ⟨_, by simp [run, st1], hs1, early _ hs1 (by intro h hh; simpa [pendHdr] using hh.symm) ?_⟩
    intro o ho
    obtain ⟨o', ho', hst⟩ := ho
    simp only [Outcome] at ho'; subst ho'
    simp only [StepOut] at hst
    obtain ⟨hpg, hl, hgod, _⟩ := hst
    refine ⟨?_, hpg, hl⟩
    rcases hgod with h | h
    · exact h
    · rw [h]; exact setSlot_god _ _ _
  · refine ⟨_, by simp [run, st1, st2], hs2, late _ hs2 ?_ ?_⟩
    · intro x hx; exact repairHdr1_tree g.ilt id' hx
    · intro h hh; simp [pendHdr] at hh
  · refine ⟨_, by simp [run, st1, st2, st3], hs3, late _ hs3 ?_ ?_⟩
    · intro x hx; exact repairHdr1_tree g.ilt id' hx
    · intro h hh x hx
      simp only [pendHdr, Option.some.injEq] at hh
      subst hh; rw [repairHdr2_slot]; exact repairHdr1_tree g.ilt id' hx
  · refine ⟨_, by simp [run, st1, st2, st3, st4], hs4, late _ hs4 ?_ ?_⟩
    · intro x hx; show ((repairHdr2 D i id').slot x).tree = _
      rw [repairHdr2_slot]; exact repairHdr1_tree g.ilt id' hx
    · intro h hh; simp [pendHdr] at hh

/-- **C01, recovery is covered again.** Take any crash outcome `o` covered by `c01_crash_recover`
and let `k` be the slot the (full) recovery serves on it. Started from `o` as the durable disk,
the repair commit of the recovery run -- a 2-phase commit of the trees just verified, with a fresh
id `id'`, into the other slot (`repairCommit`) -- is accepted by the monitor, so
`c01_crash_recover` applies to every crash DURING the recovery as well; and on every crash outcome
`o'` at every point of that run the recovery serves the same contents again. -/
theorem c01_recovery_idempotent (D0 : Disk) (tr : List Ev) (hacc : accept D0 tr = true)
    (pre : List Ev) (hpre : pre <+: tr) :
    ∃ s, stateAfter D0 pre = some s ∧
      ∀ o, Outcome s.D s.P o → ∀ k, o.served = .ok k → ∀ id', (o.hdr.slot k).id < id' →
        start o = some ⟨o, [], k⟩ ∧ accept o (repairCommit o k id') = true ∧
        ∀ pre', pre' <+: repairCommit o k id' →
          ∃ s', stateAfter o pre' = some s' ∧
            ∀ o', Outcome s'.D s'.P o' → ∀ (vf : Nat → Bool) (q : Bool), Faithful o' vf →
              ∃ k', recover o'.view vf q = .ok k' ∧ SameContents o k o' k' := by
  obtain ⟨s0, s, h0, h1, _, hs⟩ := accept_prefix hacc hpre
  refine ⟨s, by simp [stateAfter, h0, h1], ?_⟩
  intro o ho k hk id' hid
  have g := (outcome_good hs ho hk).1
  have hst : start o = some ⟨o, [], k⟩ := by
    unfold start; rw [hk]; simp [g.plt, g.distinct]
  refine ⟨hst, ?_, ?_⟩
  · obtain ⟨s', hr, _⟩ := repair_core g hid _ (List.prefix_refl _)
    simp [accept, hst, hr]
  · intro pre' hpre'
    obtain ⟨s', hr, _, hc⟩ := repair_core g hid pre' hpre'
    exact ⟨s', by simp [stateAfter, hst, hr], hc⟩

/-! ## non-vacuity: concrete accepted and rejected streams -/

/-- a freshly created database: empty trees, slot 1 (id 1) primary, written 2-phase -/
def exD0 : Disk :=
  { hdr := { god := { primary := 1, rr := true, tp := true }
             slot0 := .good 0 [], slot1 := .good 1 [], layLen := 10 }
    pages := [], len := 10 }

def exTree : List (Nat × Nat) := [(3, 30), (4, 40)]

/-- a 1-phase commit: ONE header write (new slot 0 and the primary bit, no 2-phase flag) together
with the pages, then the sync -/
def ex1PC : List Ev :=
  [ .header { god := { primary := 0, rr := true, tp := false }
              slot0 := .good 2 exTree, slot1 := .good 1 [], layLen := 10 },
    .write [(3, 30)], .write [(4, 40)], .sync ]

example : accept exD0 ex1PC = true := by decide

/-- a 2-phase commit: slot and pages, sync, flip of the primary bit with the 2-phase flag, sync -/
def ex2PC : List Ev :=
  [ .header { god := { primary := 1, rr := true, tp := true }
              slot0 := .good 2 exTree, slot1 := .good 1 [], layLen := 10 },
    .write [(3, 30), (4, 40)], .sync,
    .header { god := { primary := 0, rr := true, tp := true }
              slot0 := .good 2 exTree, slot1 := .good 1 [], layLen := 10 },
    .sync ]

example : accept exD0 ex2PC = true := by decide

/-- a non-durable commit (pages only, no header, no sync; page 3 is even rewritten by a second
non-durable commit) followed by a durable 1-phase commit, a shrink of the file after it, and a
further 2-phase commit into the other slot that reuses nothing of the served tree -/
def exNonDurable : List Ev :=
  [ .write [(3, 30)], .write [(3, 31)],
    .header { god := { primary := 0, rr := true, tp := false }
              slot0 := .good 4 [(3, 31), (5, 50)], slot1 := .good 1 [], layLen := 8 },
    .write [(5, 50)], .sync, .setLen 8,
    .header { god := { primary := 0, rr := true, tp := false }
              slot0 := .good 4 [(3, 31), (5, 50)], slot1 := .good 5 [(3, 31), (6, 60)], layLen := 8 },
    .write [(6, 60)], .sync,
    .header { god := { primary := 1, rr := true, tp := true }
              slot0 := .good 4 [(3, 31), (5, 50)], slot1 := .good 5 [(3, 31), (6, 60)], layLen := 8 },
    .sync ]

example : accept exD0 exNonDurable = true := by decide

/-- a clean close (the recovery flag is cleared after everything is durable) and the reopen -/
def exCloseReopen : List Ev :=
  ex2PC ++
  [ .header { god := { primary := 0, rr := false, tp := true }
              slot0 := .good 2 exTree, slot1 := .good 1 [], layLen := 10 }, .sync,
    .header { god := { primary := 0, rr := true, tp := true }
              slot0 := .good 2 exTree, slot1 := .good 1 [], layLen := 10 }, .sync ]

example : accept exD0 exCloseReopen = true := by decide

/-- REJECTED: the recovery flag is cleared while a `set_len` is still pending (condition L1) -/
example : accept exD0
    (ex2PC ++ [ .setLen 8,
      .header { god := { primary := 0, rr := false, tp := true }
                slot0 := .good 2 exTree, slot1 := .good 1 [], layLen := 8 }, .sync ]) = false := by
  decide

/-- a crash outcome of `ex1PC`: the god byte and half of the new slot reached the disk, one page did
not. The complete recovery run on it (header rewritten with the primary switched back, recovery
flag cleared, repair commit 2-phase with id 2 into slot 0, flag set again by `begin_writable`) is
accepted, so crashes during the recovery are covered by `c01_crash_recover` as well. -/
def exCrashed : Disk :=
  { hdr := { god := { primary := 0, rr := true, tp := false }
             slot0 := .torn, slot1 := .good 1 [], layLen := 10 }
    pages := [(3, some 30)], len := 10 }

/-- the recovery falls back to slot 1, the last durable commit -/
example : (start exCrashed).map (·.i) = some 1 := by decide

def exRecoveryRun : List Ev :=
  [ .header { god := { primary := 1, rr := true, tp := false }, slot0 := .torn, slot1 := .good 1 [], layLen := 10 }, .sync,
    .header { god := { primary := 1, rr := false, tp := false }, slot0 := .torn, slot1 := .good 1 [], layLen := 10 }, .sync,
    .header { god := { primary := 1, rr := false, tp := false }, slot0 := .good 2 [], slot1 := .good 1 [], layLen := 10 }, .sync,
    .header { god := { primary := 0, rr := false, tp := true }, slot0 := .good 2 [], slot1 := .good 1 [], layLen := 10 }, .sync,
    .header { god := { primary := 0, rr := true, tp := true }, slot0 := .good 2 [], slot1 := .good 1 [], layLen := 10 }, .sync ]

example : accept exCrashed exRecoveryRun = true := by decide

/-- REJECTED: the primary bit is flipped with the 2-phase flag before the slot and its pages were
synced (condition H3) -/
example : accept exD0
    [ .header { god := { primary := 0, rr := true, tp := true }
                slot0 := .good 2 exTree, slot1 := .good 1 [], layLen := 10 },
      .write [(3, 30), (4, 40)], .sync ] = false := by decide

/-- REJECTED: 2-phase commit whose flip is issued without the sync in between (condition H0) -/
example : accept exD0
    [ .header { god := { primary := 1, rr := true, tp := true }
                slot0 := .good 2 exTree, slot1 := .good 1 [], layLen := 10 },
      .write [(3, 30), (4, 40)],
      .header { god := { primary := 0, rr := true, tp := true }
                slot0 := .good 2 exTree, slot1 := .good 1 [], layLen := 10 },
      .sync ] = false := by decide

/-- REJECTED: a page write into the tree of the durable commit (condition M1) -/
example : accept exD0 (ex1PC ++ [.write [(4, 41)]]) = false := by decide

/-- REJECTED: a truncation that cuts the tree of the durable commit (condition M4) -/
example : accept exD0 (ex1PC ++ [.setLen 4]) = false := by decide

/-- REJECTED: a new commit whose id is not newer than the served one (condition H2/M3) -/
example : accept exD0
    [ .header { god := { primary := 0, rr := true, tp := false }
                slot0 := .good 1 exTree, slot1 := .good 1 [], layLen := 10 },
      .write [(3, 30), (4, 40)], .sync ] = false := by decide

/-- REJECTED: the header write changes the bytes of the served slot (condition H1) -/
example : accept exD0
    [ .header { god := { primary := 1, rr := true, tp := true }
                slot0 := .good 0 [], slot1 := .good 1 exTree, layLen := 10 } ] = false := by decide

end Redb.Storage
