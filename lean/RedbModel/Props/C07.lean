import RedbModel.Props.Life
/-!
# C07 — Savepoints restore exactly the captured state

A savepoint is a `Pin` of kind `savepoint` listing the pages of the captured tree. For a restore
to give back exactly the captured state those pages must still exist unchanged: the theorems
show that while the savepoint lives its pages stay allocated and data-side (in the latest tree
or in a pending-free record later than the savepoint), and that the only way a page can come
BACK from a pending-free record into the latest data tree is a restore justified by a savepoint
older than the record that pins it (or the page was pinned by nothing at all).
NOT covered: that the restored tree's root/contents equal the captured ones (harness
model-based and fingerprint oracles), and persistence of savepoints across reopen (C11 side).
-/
namespace Redb.Life

/-- the pages of a savepoint that lives through the trace are kept -/
theorem c07_savepoint_pages_kept {tr : List (Bool × St)} {π : Pin} {p : Page}
    (_hk : π.kind = .savepoint)
    (hacc : accept tr = true)
    (hnc : ∀ x ∈ tr.tail, x.1 = false)
    (hpin : ∀ x ∈ tr, x.2.pins.any (fun π' => π.same π') = true)
    (hp : p ∈ π.pages) :
    (∀ x ∈ tr, p ∈ x.2.alloc ∧
      (owner x.2 p = some .data ∨ ∃ t, π.id < t ∧ owner x.2 p = some (.dfreed t))) ∧
    (∀ pre x y post, tr = pre ++ x :: y :: post →
      ∃ o o', owner x.2 p = some o ∧ owner y.2 p = some o' ∧ PinnedMove x.2 p o o') :=
  pinned_never_released hacc hnc hpin hp

/-- a page comes back from the record of transaction `t` into the data tree only if a savepoint
older than `t` pins it, or nothing pins it -/
theorem c07_restore_move_needs_savepoint {s s' : St} {p : Page} {t : Nat}
    (hm : moveOk s s' p = true) (ho : owner s p = some (.dfreed t))
    (ho' : owner s' p = some .data) :
    (∃ σ ∈ s.pins, σ.kind = .savepoint ∧ σ.id < t ∧ p ∈ σ.pages) ∨
    ((∀ π ∈ surviving s s', p ∉ π.pages) ∧ (s.dur = s'.dur → p ∉ s.dsys)) := by
  rcases move_spec hm with hn | hu | ⟨o, o', h1, h2, hl⟩
  · rw [ho] at hn; cases hn
  · exact .inr (unpinned_iff.1 hu)
  · rw [ho] at h1; rw [ho'] at h2
    cases h1; cases h2
    cases hl with
    | restored _ h => exact .inl h

theorem c07_pin_pages_allocated {s : St} {π : Pin} {p : Page} (h : ownOk s = true)
    (hp : pinOk s = true) (hπ : π ∈ s.pins) (hpp : p ∈ π.pages) : p ∈ s.alloc :=
  pin_pages_allocated h hp hπ hpp

end Redb.Life
