import RedbModel.Model.Lifecycle
import RedbModel.Lemmas.Lifecycle
/-!
# The proven page life-cycle monitor (C06 / C02 / C05 / C07 / C11 / C13 at the ownership level)

`RedbModel/Model/Lifecycle.lean` defines the executable conditions (`ownOk`, `pinOk`, `moveOk`,
`stepOk`, `accept`) that the driver evaluates on traces recorded from the real database. The
theorems below say what `accept tr = true` MEANS and IMPLIES, for all states and all traces:

* `own_iff`, `owner_unique`, `owner_spec`, `owner_none_iff` — "every allocated page has exactly
  one owner and every other page is free";
* `pin_pages_allocated`, `pin_owner`, `dsys_pages_allocated`, `dsys_owner` — what a pin means
  in one state;
* `move_spec`, `step_keeps_pinned`, `step_keeps_dsys` — what a legal transition does to a page
  that is still pinned;
* `accept_cons`, `accept_states`, `accept_spec` — `accept` is "all states ok, all steps ok";
* `pinned_never_released`, `pinned_never_reused`, `pinned_allocated_always` — trace level: the
  pages of a pin that lives through the trace are never released nor handed to another owner;
* `released_only_unpinned` — a page released by a legal step was reached by no surviving pin
  and not by the unchanged durable system tree;
* `durable_sys_never_released`, `durable_sys_never_released_of_listed` — the same for the
  durable system tree while `dur` does not change;
* `abort_no_trace`, `abort_keeps_pins`, `abort_stepOk` — an abandoned transaction (`abortOk`)
  leaves the page accounting unchanged;
* examples at the end — non-vacuity.

Auxiliary definitions (`PinnedMove`, `DsysMove`, `LegalMove`, `Consec`) are in
`RedbModel/Lemmas/Lifecycle.lean`.
-/
namespace Redb.Life

/-! ## 1–2. `ownOk`: exactly one owner -/

/-- `ownOk` says: no page is claimed twice, the allocator list has no duplicates, and the
allocated pages are exactly the claimed pages. -/
theorem own_iff {s : St} :
    ownOk s = true ↔ ((owned s).Nodup ∧ s.alloc.Nodup ∧ (∀ p, p ∈ s.alloc ↔ p ∈ owned s)) :=
  ownOk_iff

/-- Under `ownOk` a page has at most one owner. -/
theorem owner_unique {s : St} {p : Page} {o₁ o₂ : Owner} (h : ownOk s = true)
    (h1 : (p, o₁) ∈ claims s) (h2 : (p, o₂) ∈ claims s) : o₁ = o₂ :=
  claim_unique h h1 h2

/-- Under `ownOk` the executable `owner` is exactly the claim relation. -/
theorem owner_spec {s : St} {p : Page} {o : Owner} (h : ownOk s = true) :
    owner s p = some o ↔ (p, o) ∈ claims s :=
  owner_eq_some_iff h

/-- Under `ownOk` a page has no owner iff it is free in the allocator. -/
theorem owner_none_iff {s : St} {p : Page} (h : ownOk s = true) :
    owner s p = none ↔ p ∉ s.alloc :=
  owner_eq_none_iff h

/-- The claim relation spelled out. -/
theorem claims_spec {s : St} {p : Page} {o : Owner} :
    (p, o) ∈ claims s ↔
      (o = .data ∧ p ∈ s.data) ∨ (o = .sys ∧ p ∈ s.sys) ∨
      (∃ r ∈ s.dfreed, o = .dfreed r.1 ∧ p ∈ r.2) ∨
      (∃ r ∈ s.sfreed, o = .sfreed r.1 ∧ p ∈ r.2) :=
  mem_claims

/-! ## 3–4. `pinOk`: what a pin means in one state -/

/-- `pinOk` spelled out. -/
theorem pin_spec {s : St} :
    pinOk s = true ↔
      (∀ π ∈ s.pins, ∀ p ∈ π.pages,
        p ∈ s.data ∨ ∃ r ∈ s.dfreed, π.id < r.1 ∧ p ∈ r.2) ∧
      (∀ p ∈ s.dsys, p ∈ s.sys ∨ ∃ r ∈ s.sfreed, s.dur < r.1 ∧ p ∈ r.2) ∧
      (∀ π ∈ s.pins, π.kind = .durable → π.id = s.dur) ∧
      (∀ π ∈ s.pins, π.id ≤ s.id) := by
  rw [pin_iff]
  constructor
  · rintro ⟨h1, h2, h3⟩
    exact ⟨fun π hπ p hp => mem_reachableFrom.1 (h1 π hπ p hp),
      fun p hp => mem_sysReachableFrom.1 (h2 p hp), h3⟩
  · rintro ⟨h1, h2, h3⟩
    exact ⟨fun π hπ p hp => mem_reachableFrom.2 (h1 π hπ p hp),
      fun p hp => mem_sysReachableFrom.2 (h2 p hp), h3⟩

/-- No pin is from the future. -/
theorem pin_id_le {s : St} {π : Pin} (hp : pinOk s = true) (hπ : π ∈ s.pins) : π.id ≤ s.id :=
  pin_id_le' hp hπ

/-- The durable pin is the snapshot of the last durable commit. -/
theorem durable_pin_id {s : St} {π : Pin} (hp : pinOk s = true) (hπ : π ∈ s.pins)
    (hk : π.kind = .durable) : π.id = s.dur :=
  durable_pin_id' hp hπ hk

/-- Every page of every pin is allocated. -/
theorem pin_pages_allocated {s : St} {π : Pin} {p : Page} (h : ownOk s = true)
    (hp : pinOk s = true) (hπ : π ∈ s.pins) (hpp : p ∈ π.pages) : p ∈ s.alloc :=
  pin_mem_alloc h hp hπ hpp

/-- Every page of the durable system tree is allocated. -/
theorem dsys_pages_allocated {s : St} {p : Page} (h : ownOk s = true)
    (hp : pinOk s = true) (hd : p ∈ s.dsys) : p ∈ s.alloc :=
  dsys_mem_alloc h hp hd

/-- A pinned page is in the latest data tree or waits in the record of a LATER transaction. -/
theorem pin_owner {s : St} {π : Pin} {p : Page} (h : ownOk s = true) (hp : pinOk s = true)
    (hπ : π ∈ s.pins) (hpp : p ∈ π.pages) :
    owner s p = some .data ∨ ∃ t, π.id < t ∧ owner s p = some (.dfreed t) :=
  pin_owner_cases h hp hπ hpp

/-- A page of the durable system tree is in the latest system tree or waits in the record of a
transaction later than the durable one. -/
theorem dsys_owner {s : St} {p : Page} (h : ownOk s = true) (hp : pinOk s = true)
    (hd : p ∈ s.dsys) :
    owner s p = some .sys ∨ ∃ t, s.dur < t ∧ owner s p = some (.sfreed t) :=
  dsys_owner_cases h hp hd

/-! ## 5. Transitions -/

/-- `Pin.same` is equality, so `surviving s s'` are the pins present in both states. -/
theorem surviving_spec {s s' : St} {π : Pin} :
    π ∈ surviving s s' ↔ π ∈ s.pins ∧ π ∈ s'.pins :=
  mem_surviving

/-- Reading of `moveOk`: the page was free, or no surviving pin / unchanged durable root reaches
it, or its owner changed by a `LegalMove` (same owner; `data → dfreed t`, `sys → sfreed t` with
`s.id < t`; `dfreed t → dfreed t'`, `sfreed t → sfreed t'` with `t ≤ t'`; `dfreed t → data`
justified by a savepoint older than `t` that pins the page). -/
theorem move_spec {s s' : St} {p : Page} (hm : moveOk s s' p = true) :
    owner s p = none ∨ unpinned s s' p = true ∨
      ∃ o o', owner s p = some o ∧ owner s' p = some o' ∧ LegalMove s p o o' :=
  moveOk_cases hm

/-- For a page that is owned and still pinned, `moveOk` is exactly "legal move". -/
theorem move_iff_of_pinned {s s' : St} {p : Page} {o : Owner}
    (ho : owner s p = some o) (hu : unpinned s s' p = false) :
    moveOk s s' p = true ↔ ∃ o', owner s' p = some o' ∧ LegalMove s p o o' :=
  moveOk_iff_of_pinned ho hu

/-- Core safety lemma. Across a legal non-crash transition, a page reached by a surviving pin
stays allocated; its old owner `o` is `data` or a record later than the pin; its new owner `o'`
is obtained by a `PinnedMove` (same owner, `data → dfreed t` with `s.id < t`,
`dfreed t → dfreed t'` with `t ≤ t'`, or `dfreed t → data` justified by a savepoint); hence
(using `π.id ≤ s.id`, and WITHOUT assuming `pinOk s'`) `o'` is again `data` or a `dfreed` record
later than the pin: the page is not free in `s'`, not owned by `sys`/`sfreed`, and still where a
snapshot of the pin's age finds it. -/
theorem step_keeps_pinned {s s' : St} {π : Pin} {p : Page}
    (h : ownOk s = true) (hp : pinOk s = true) (h' : ownOk s' = true)
    (hs : stepOk false s s' = true) (hπ : π ∈ surviving s s') (hpp : p ∈ π.pages) :
    p ∈ s'.alloc ∧ ∃ o o', owner s p = some o ∧ owner s' p = some o' ∧
      (o = .data ∨ ∃ t, π.id < t ∧ o = .dfreed t) ∧ PinnedMove s p o o' ∧
      (o' = .data ∨ ∃ t, π.id < t ∧ o' = .dfreed t) :=
  step_pinned h hp h' hs hπ hpp

/-- **Pages reachable from the last durable commit, from any live read transaction or from any
savepoint are never freed**: a page released by a legal non-crash transition is in the pages of
no surviving pin, and not in the durable system tree unless the durable commit advanced. -/
theorem released_only_unpinned {s s' : St} {p : Page} (h : ownOk s = true) (h' : ownOk s' = true)
    (hs : stepOk false s s' = true) (hp : p ∈ s.alloc) (hp' : p ∉ s'.alloc) :
    (∀ π ∈ surviving s s', p ∉ π.pages) ∧ (s.dur = s'.dur → p ∉ s.dsys) :=
  released_unpinned h h' hs hp hp'

/-- The same for a page of the durable system tree across a transition that does not advance
the durable commit. -/
theorem step_keeps_dsys {s s' : St} {p : Page}
    (h : ownOk s = true) (hp : pinOk s = true) (h' : ownOk s' = true)
    (hs : stepOk false s s' = true) (hdur : s.dur = s'.dur) (hd : p ∈ s.dsys) :
    p ∈ s'.alloc ∧ ∃ o o', owner s p = some o ∧ owner s' p = some o' ∧
      (o = .sys ∨ ∃ t, s.dur < t ∧ o = .sfreed t) ∧ DsysMove s o o' ∧
      (o' = .sys ∨ ∃ t, o' = .sfreed t) :=
  step_dsys h hp h' hs hdur hd

/-- Transaction ids never go back on a non-crash step; the durable id never goes back at all. -/
theorem step_monotone {c : Bool} {s s' : St} (hs : stepOk c s s' = true) :
    s.dur ≤ s'.dur ∧ (c = false → s.id ≤ s'.id) :=
  ⟨step_dur_le hs, fun hc => by subst hc; exact step_id_le hs⟩

/-- `stepOk` without a crash, spelled out. -/
theorem step_spec {s s' : St} :
    stepOk false s s' = true ↔
      (∀ p ∈ s.alloc, moveOk s s' p = true) ∧ s.id ≤ s'.id ∧ s.dur ≤ s'.dur ∧
      (s.dur = s'.dur → s.dsys = s'.dsys) :=
  stepOk_false_iff

/-! ## 6. `accept` -/

/-- One unfolding of `accept`. -/
theorem accept_cons {x : Bool × St} {tr : List (Bool × St)} (h : accept (x :: tr) = true) :
    ownOk x.2 = true ∧ pinOk x.2 = true ∧ accept tr = true ∧
      ∀ y ∈ tr.head?, stepOk y.1 x.2 y.2 = true :=
  accept_head h

/-- An accepted trace has only well-accounted states and only legal transitions. -/
theorem accept_states {tr : List (Bool × St)} (h : accept tr = true) :
    (∀ x ∈ tr, ownOk x.2 = true ∧ pinOk x.2 = true) ∧
    (∀ pre x y post, tr = pre ++ x :: y :: post → stepOk y.1 x.2 y.2 = true) :=
  ⟨accept_all_states h, accept_all_steps h⟩

/-- ... and that is all `accept` checks. -/
theorem accept_spec {tr : List (Bool × St)} :
    accept tr = true ↔
      (∀ x ∈ tr, ownOk x.2 = true ∧ pinOk x.2 = true) ∧
      (∀ pre x y post, tr = pre ++ x :: y :: post → stepOk y.1 x.2 y.2 = true) :=
  accept_iff

/-! ## 7. Pins over whole traces -/

/-- **Pages reachable from a live read transaction or savepoint are never freed or handed out
again** (ownership level). If the trace is accepted, no state after the first was reached by a
crash, and the pin `π` is present in every state, then every page of `π`
* is allocated in every state and owned there by `data` or by a `dfreed` record of a
  transaction later than the pin, and
* between any two consecutive states changes owner only by a `PinnedMove`. -/
theorem pinned_never_released {tr : List (Bool × St)} {π : Pin} {p : Page}
    (hacc : accept tr = true)
    (hnc : ∀ x ∈ tr.tail, x.1 = false)
    (hpin : ∀ x ∈ tr, x.2.pins.any (fun π' => π.same π') = true)
    (hp : p ∈ π.pages) :
    (∀ x ∈ tr, p ∈ x.2.alloc ∧
      (owner x.2 p = some .data ∨ ∃ t, π.id < t ∧ owner x.2 p = some (.dfreed t))) ∧
    (∀ pre x y post, tr = pre ++ x :: y :: post →
      ∃ o o', owner x.2 p = some o ∧ owner y.2 p = some o' ∧ PinnedMove x.2 p o o') :=
  pinned_trace hacc hnc hpin hp

/-- Negative form: the page is never free and never owned by the system tree or a system
record while the pin lives. -/
theorem pinned_never_reused {tr : List (Bool × St)} {π : Pin} {p : Page}
    (hacc : accept tr = true)
    (hnc : ∀ x ∈ tr.tail, x.1 = false)
    (hpin : ∀ x ∈ tr, x.2.pins.any (fun π' => π.same π') = true)
    (hp : p ∈ π.pages) :
    ∀ x ∈ tr, owner x.2 p ≠ none ∧ owner x.2 p ≠ some .sys ∧
      ∀ t, owner x.2 p ≠ some (.sfreed t) := by
  intro x hx
  rcases ((pinned_trace hacc hnc hpin hp).1 x hx).2 with h | ⟨t, _, h⟩ <;>
    rw [h] <;> simp

/-- The per-state half does not need the no-crash hypothesis: `pinOk` of the recovered state
already accounts for the persistent savepoints and the durable root. -/
theorem pinned_allocated_always {tr : List (Bool × St)} {π : Pin} {p : Page}
    (hacc : accept tr = true)
    (hpin : ∀ x ∈ tr, x.2.pins.any (fun π' => π.same π') = true)
    (hp : p ∈ π.pages) :
    ∀ x ∈ tr, p ∈ x.2.alloc ∧
      (owner x.2 p = some .data ∨ ∃ t, π.id < t ∧ owner x.2 p = some (.dfreed t)) := by
  intro x hx
  have hm : π ∈ x.2.pins := by
    have := hpin x hx
    simp only [List.any_eq_true, Pin.same_iff] at this
    obtain ⟨π', h', rfl⟩ := this; exact h'
  obtain ⟨ho, hpk⟩ := accept_all_states hacc x hx
  exact ⟨pin_mem_alloc ho hpk hm hp, pin_owner_cases ho hpk hm hp⟩

/-! ## 8. The durable system tree over whole traces -/

/-- **Pages of the durable system tree are never freed or handed out again while the durable
commit does not advance.** If the trace is accepted, no state after the first was reached by a
crash and `dur` does not change, then every page of the first state's durable system tree
* is, in every state, allocated, still listed in `dsys`, and owned by `sys` or by an `sfreed`
  record of a transaction later than `dur`, and
* between any two consecutive states changes owner only by a `DsysMove` (same owner,
  `sys → sfreed t` with `id < t`, `sfreed t → sfreed t'` with `t ≤ t'`). -/
theorem durable_sys_never_released {x0 : Bool × St} {tr : List (Bool × St)} {p : Page}
    (hacc : accept (x0 :: tr) = true)
    (hnc : ∀ x ∈ tr, x.1 = false)
    (hdur : ∀ x ∈ tr, x.2.dur = x0.2.dur)
    (hp : p ∈ x0.2.dsys) :
    (∀ x ∈ x0 :: tr, p ∈ x.2.alloc ∧ p ∈ x.2.dsys ∧
      (owner x.2 p = some .sys ∨ ∃ t, x0.2.dur < t ∧ owner x.2 p = some (.sfreed t))) ∧
    (∀ pre x y post, x0 :: tr = pre ++ x :: y :: post →
      ∃ o o', owner x.2 p = some o ∧ owner y.2 p = some o' ∧ DsysMove x.2 o o') :=
  dsys_trace_full hacc hnc hdur hp

/-- Variant (the former `_partial`): for a page listed in `dsys` of every state. -/
theorem durable_sys_never_released_of_listed {tr : List (Bool × St)} {d : Nat} {p : Page}
    (hacc : accept tr = true)
    (hnc : ∀ x ∈ tr.tail, x.1 = false)
    (hdur : ∀ x ∈ tr, x.2.dur = d)
    (hd : ∀ x ∈ tr, p ∈ x.2.dsys) :
    (∀ x ∈ tr, p ∈ x.2.alloc ∧
      (owner x.2 p = some .sys ∨ ∃ t, d < t ∧ owner x.2 p = some (.sfreed t))) ∧
    (∀ pre x y post, tr = pre ++ x :: y :: post →
      ∃ o o', owner x.2 p = some o ∧ owner y.2 p = some o' ∧ DsysMove x.2 o o') :=
  dsys_trace hacc hnc hdur hd

/-- While a durable pin lives, the durable commit does not advance (crash or not). -/
theorem durable_pin_fixes_dur {tr : List (Bool × St)} {π : Pin}
    (hacc : accept tr = true) (hk : π.kind = .durable)
    (hpin : ∀ x ∈ tr, x.2.pins.any (fun π' => π.same π') = true) :
    ∀ x ∈ tr, x.2.dur = π.id := by
  intro x hx
  have hm : π ∈ x.2.pins := by
    have := hpin x hx
    simp only [List.any_eq_true, Pin.same_iff] at this
    obtain ⟨π', h', rfl⟩ := this; exact h'
  exact (durable_pin_id' (accept_all_states hacc x hx).2 hm hk).symm

/-- the trace that the monitor accepted before `stepOk` fixed `dsys` while `dur` is fixed: page 1
is the durable system tree; the second state forgets it in `dsys` without advancing `dur`; the
third releases it -/
def cex0 : St := ⟨1, 1, [1], [], [1], [], [], [1], []⟩
def cex1 : St := ⟨1, 1, [1], [], [1], [], [], [], []⟩
def cex2 : St := ⟨2, 1, [], [], [], [], [], [], []⟩

/-- the strengthened monitor REJECTS that trace, at its first transition -/
example : accept [(false, cex0), (false, cex1), (false, cex2)] = false := by decide
example : stepOk false cex0 cex1 = false := by decide
/-- releasing a page of the unchanged durable system tree directly is rejected as well -/
example : stepOk false cex0 ⟨2, 1, [], [], [], [], [], [1], []⟩ = false := by decide
/-- ... but it is fine once the durable commit has advanced -/
example : accept [(false, cex0), (false, ⟨2, 2, [2], [], [2], [], [], [2], []⟩)] = true := by
  decide

/-! ## 8b. Abandoned transactions (`abortOk`) -/

/-- `abortOk` spelled out (`sameSet`: same elements; `sameRecords`: same records up to order). -/
theorem abort_spec {s s' : St} :
    abortOk s s' = true ↔
      sameSet s.alloc s'.alloc = true ∧ sameSet s.data s'.data = true ∧
      sameSet s.sys s'.sys = true ∧ sameRecords s.dfreed s'.dfreed = true ∧
      sameRecords s.sfreed s'.sfreed = true ∧ s.id = s'.id ∧ s.dur = s'.dur ∧
      sameSet s.dsys s'.dsys = true :=
  abortOk_iff

/-- An abandoned transaction leaves no trace in the page accounting: exactly the same pages are
allocated (no space stays consumed, nothing it freed stays freed), every page has the same
owner, and the committed and durable transaction ids are unchanged. -/
theorem abort_no_trace {s s' : St} (h : ownOk s = true) (h' : ownOk s' = true)
    (ha : abortOk s s' = true) :
    (∀ p, p ∈ s'.alloc ↔ p ∈ s.alloc) ∧ (∀ p, owner s' p = owner s p) ∧
      s'.id = s.id ∧ s'.dur = s.dur :=
  abort_no_trace' h h' ha

/-- The same pins are still properly accounted for afterwards (no `ownOk` needed). -/
theorem abort_keeps_pins {s s' : St} (ha : abortOk s s' = true) (hp : pinOk s = true)
    (hpins : s'.pins = s.pins) : pinOk s' = true :=
  abort_pinOk ha hp hpins

/-- An abandoned transaction is in particular a legal step as far as page moves go. -/
theorem abort_stepOk {s s' : St} (h : ownOk s = true) (h' : ownOk s' = true)
    (ha : abortOk s s' = true) : s.alloc.all (moveOk s s') = true :=
  abort_moves h h' ha

/-- non-vacuity: records and lists may be reordered; a leaked page is rejected -/
example :
    abortOk ⟨2, 1, [1, 2, 3, 4], [1, 4], [3], [(2, [2])], [], [3], []⟩
            ⟨2, 1, [4, 3, 2, 1], [4, 1], [3], [(2, [2])], [], [3], []⟩ = true ∧
    abortOk ⟨2, 1, [1, 2, 3, 4], [1, 4], [3], [(2, [2])], [], [3], []⟩
            ⟨2, 1, [1, 2, 3, 4, 5], [1, 4, 5], [3], [(2, [2])], [], [3], []⟩ = false := by
  decide

/-! ## 9. Non-vacuity -/

/-- a reader of transaction 1 pins pages 1 and 2 -/
def rd : Pin := ⟨1, .reader, [1, 2]⟩
/-- after commit 1: data tree {1,2}, system tree {3} -/
def ex0 : St := ⟨1, 1, [1, 2, 3], [1, 2], [3], [], [], [3], [rd]⟩
/-- commit 2 rewrites page 2 into the new page 4; page 2 waits in the record of transaction 2 -/
def ex1 : St := ⟨2, 1, [1, 2, 3, 4], [1, 4], [3], [(2, [2])], [], [3], [rd]⟩
/-- the reader is gone; commit 3 processes the record and page 2 is released -/
def ex2 : St := ⟨3, 1, [1, 3, 4], [1, 4], [3], [], [], [3], []⟩
/-- BAD: page 2 released although the reader is still there -/
def exBad : St := ⟨3, 1, [1, 3, 4], [1, 4], [3], [], [], [3], [rd]⟩

example : accept [(false, ex0), (false, ex1), (false, ex2)] = true := by decide
example : owner ex0 2 = some .data ∧ owner ex1 2 = some (.dfreed 2) ∧ owner ex2 2 = none := by
  decide
/-- releasing a pinned page is rejected by the transition check ... -/
example : ownOk exBad = true ∧ stepOk false ex1 exBad = false := by decide
/-- ... and by the state check -/
example : pinOk exBad = false := by decide
/-- handing a pinned page to the system tree is rejected as well -/
example :
    stepOk false ex1 ⟨3, 1, [1, 2, 3, 4], [1, 4], [3, 2], [], [], [3], [rd]⟩ = false := by decide
/-- a durable pin must carry the durable id, and no pin may be from the future -/
example : pinOk { ex0 with pins := [⟨1, .durable, [1, 2]⟩] } = true ∧
    pinOk { ex1 with pins := [⟨2, .durable, [1, 4]⟩] } = false ∧
    pinOk { ex0 with pins := [⟨2, .reader, [1, 2]⟩] } = false := by decide
/-- the hypotheses of `pinned_never_released` are satisfiable -/
example : ∀ x ∈ [(false, ex0), (false, ex1)], x.2.pins.any (fun π' => rd.same π') = true := by
  decide

end Redb.Life
