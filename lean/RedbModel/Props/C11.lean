import RedbModel.Props.Life
/-!
# C11 — Reopening reconstructs exactly the right allocation state

A reopen (clean, or crash + recovery: trace element flag `true`) produces a new observed state.
`accept` imposes the full per-state conditions on it: the allocator rebuilt by the open agrees
exactly with the pages claimed by the trees and pending-free records found in the file
(`ownOk`: nothing leaked, nothing double-used, nothing free that is in use), every persistent
savepoint and the durable root have all their pages allocated (`pinOk`), and the durable
transaction id never goes back across the crash.
NOT covered: that the recovered state equals a specific earlier commit (the crash harness C01
checks the allowed commit window), and page moves across a crash (rolled back, so not
constrained by `stepOk true`).
-/
namespace Redb.Life

/-- every state of an accepted trace — in particular the one observed after any open — has
allocated = claimed with unique owners -/
theorem c11_own_iff {tr : List (Bool × St)} {x : Bool × St} (hacc : accept tr = true)
    (hx : x ∈ tr) :
    (owned x.2).Nodup ∧ x.2.alloc.Nodup ∧ (∀ p, p ∈ x.2.alloc ↔ p ∈ owned x.2) :=
  own_iff.1 ((accept_states hacc).1 x hx).1

/-- across crash + recovery the durable transaction id does not go back (and that is all
`stepOk true` asks of the pair) -/
theorem c11_crash_step {s s' : St} : stepOk true s s' = true ↔ s.dur ≤ s'.dur := by
  simp [stepOk]

/-- in the reopened state all pages of all pins (persistent savepoints, durable root) and of
the durable system tree are allocated -/
theorem c11_pins_after_open {tr : List (Bool × St)} {x : Bool × St} (hacc : accept tr = true)
    (hx : x ∈ tr) :
    (∀ π ∈ x.2.pins, ∀ p ∈ π.pages, p ∈ x.2.alloc) ∧ (∀ p ∈ x.2.dsys, p ∈ x.2.alloc) :=
  have h := (accept_states hacc).1 x hx
  ⟨fun _ hπ _ hp => pin_pages_allocated h.1 h.2 hπ hp,
   fun _ hp => dsys_pages_allocated h.1 h.2 hp⟩

end Redb.Life
