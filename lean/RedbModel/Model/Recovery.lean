/-
Executable, total model of the commit-slot choice made when a redb database is opened
(property C01). No imports: the model works on a `HeaderView`, the few facts of the 320-byte
database header that the choice depends on; the drivers compute the view from real bytes
(`Driver/Recover.lean`, with the decoders of `Model/Format.lean`), the crash model computes it
from an abstract disk (`Model/Storage.lean`).

What is modelled, function by function:

* `UnrepairedDatabaseHeader::from_bytes` + `finalize` (src/tree_store/page_store/header.rs):
  every way these two can fail before a slot is chosen (magic number, page size, region
  geometry, slot version byte ≠ 3, and the reconciliation of the stored region layout with the
  file length) is collapsed into the one bit `wellFormed`.  The reconciliation is:
    recovery_required set   → the layout is rebuilt from the file length (the stored counts are
                               ignored); fails only if the length maps onto no region layout;
    recovery_required clear → fails if the file is shorter than the stored layout.
* `UnrepairedDatabaseHeader::select_primary_slot` = `selectSlot`.
* `Database::new` + `Database::do_repair` (src/db.rs) = `recover`:
    - `get_allocator_state_table`: when the god byte carries the 2-phase flag and the system tree
      of the selected slot holds an allocator-state snapshot for exactly that slot's transaction
      id (`quick`), the slot is used without any verification ("quick repair");
    - otherwise `do_repair`: the selected slot's trees are verified; if that fails and the flag is
      2-phase: error; else `repair_primary_corrupted` switches to the other slot, whose trees are
      verified (its slot checksum is NOT consulted again); if that fails too: error.

Where the code differs from the informal description "if recovery is not required the selected
slot is trusted": the code has no such branch.  `recovery_required` influences only the layout
reconciliation and whether the header is rewritten; the slot choice and the decision to verify
are independent of it.  (A cleanly closed database is trusted through the quick path: the last
commit before a clean close is 2-phase and stores the allocator state.)
-/
namespace Redb.Recovery

/-- reasons for which opening fails (all are `StorageError::Corrupted` in the code) -/
inductive Err where
  /-- `from_bytes` / `finalize` rejected the header before looking at the slots -/
  | malformed
  /-- "Primary is corrupted despite 2-phase commit" (`select_primary_slot`) -/
  | primaryCorrupt2PC
  /-- "Both commit slots are corrupted" -/
  | bothSlotsCorrupt
  /-- "Primary is corrupted despite 2-phase commit" (`do_repair`: the trees do not verify) -/
  | primaryTree2PC
  /-- "Failed to repair database. All roots are corrupted" -/
  | allRootsCorrupt
deriving DecidableEq, Repr, Inhabited

/-- the facts of the database header that the slot choice depends on -/
structure HeaderView where
  /-- god byte bit 0 -/
  primary : Nat
  /-- god byte bit 1 -/
  recoveryRequired : Bool
  /-- god byte bit 2 -/
  twoPhase : Bool
  /-- slot i: XXH3-128 of bytes 0..112 equals bytes 112..128 -/
  valid0 : Bool
  valid1 : Bool
  /-- slot i: transaction id -/
  id0 : Nat
  id1 : Nat
  /-- `from_bytes` and the layout reconciliation of `finalize` succeed -/
  wellFormed : Bool := true
deriving DecidableEq, Repr, Inhabited

/-- the slot that is not `i` -/
def other (i : Nat) : Nat := if i = 0 then 1 else 0

def HeaderView.valid (h : HeaderView) (i : Nat) : Bool := if i = 0 then h.valid0 else h.valid1
def HeaderView.id (h : HeaderView) (i : Nat) : Nat := if i = 0 then h.id0 else h.id1

/-- `select_primary_slot` -/
def selectSlot (h : HeaderView) : Except Err Nat :=
  if h.twoPhase then
    -- the primary was written 2-phase: never look at the secondary
    if h.valid h.primary then .ok h.primary else .error .primaryCorrupt2PC
  else if !h.valid h.primary then
    if h.valid (other h.primary) then .ok (other h.primary) else .error .bothSlotsCorrupt
  else if h.id h.primary < h.id (other h.primary) && h.valid (other h.primary) then
    .ok (other h.primary)
  else .ok h.primary

/-- The slot served after `Database::new`. `verifies i`: all checksums of the trees of slot `i`
verify (`verify_primary_checksums`, with a `Corrupted` error counted as `false` as
`primary_verifies` does). `quick`: a valid allocator-state snapshot exists for the selected slot. -/
def recover (h : HeaderView) (verifies : Nat → Bool) (quick : Bool) : Except Err Nat :=
  if !h.wellFormed then .error .malformed else
  match selectSlot h with
  | .error e => .error e
  | .ok s =>
    if h.twoPhase && quick then .ok s
    else if verifies s then .ok s
    else if h.twoPhase then .error .primaryTree2PC
    else if verifies (other s) then .ok (other s)
    else .error .allRootsCorrupt

end Redb.Recovery
