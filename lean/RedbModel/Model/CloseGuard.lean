/-!
# Interleaving model of the close guard of `CheckedBackend` (property C20)

Import-free, executable, total.

"redb never touches the backend after calling close() and calls close() exactly once" has to hold
for every interleaving of threads: a `ReadTransaction` may outlive the `Database` and be used on
another thread while the `Database` is dropped. What is modelled
(src/tree_store/page_store/cached_file.rs, `struct CheckedBackend { file, io_failed, closed,
in_flight: RwLock<()> }`):

* every backend call (`len`, `read`, `set_len`, `sync_data`, `write`, `write_best_effort`) starts
  with `let _in_flight = self.begin_call()?;`:
    `in_flight.read()`                        ⇒ `acquireShared`  (enabled iff no exclusive holder)
    `check_failure()?`                        ⇒ `testLatch`      (reads the latch: refuse and drop
                                                                  the guard, or proceed)
    `self.file.<call>(..)` begins             ⇒ `enterBackend`   (event `call t`)
    the call returns, `_in_flight` is dropped ⇒ `leaveBackend`   (a failed call sets `io_failed`)
  The harness pause point `backend.<call>` sits between `testLatch` and `enterBackend`.
* `close()`:
    `closed.store(true); io_failed.store(true)`  ⇒ `setFlags`
    `in_flight.write()`                          ⇒ `acquireExclusive` (enabled iff no shared holder)
    `self.file.close()`                          ⇒ `backendClose`     (event `close`)
    `_no_calls` is dropped                       ⇒ `releaseExclusive`
  `check_failure` reads `io_failed` FIRST and looks at `closed` only to name the error, and
  `close()` stores `io_failed` LAST: between the two stores the latch still lets callers through,
  so the two stores are one atomic action of the model, placed at the `io_failed` store.

Caller threads are natural numbers — there is no bound on their number — and each of them makes any
number of calls (`next`). There is one closer (`Database::drop` → `PagedCachedFile::close`).
The model's lock lets a new shared holder in whenever there is no exclusive HOLDER; a
writer-preferring `RwLock` allows fewer schedules, never more.

Two broken variants, as separate step relations over the same states:
* `noGuard` (`StepNoGuard`): no call takes the guard — the code before the fix;
* `partialGuard` (`StepPartial`): a call may or may not take it — one class of calls
  (`write_best_effort` in the seeded variant) skips `begin_call`'s lock, the others do not.
A call that skips the guard goes from `idle` straight through `testLatch`.
-/
namespace Redb.CloseGuard

/-- program counter of a caller thread; `g` = this call holds the shared guard -/
inductive PC where
  | idle
  | holdsShared                 -- holds the guard, latch not tested yet
  | passedLatch (g : Bool)      -- latch was open; about to call the backend (the pause point)
  | inBackend (g : Bool)        -- inside `file.<call>()`
  | done                        -- the call returned
  | refused                     -- the latch was shut: `DatabaseClosed` / `PreviousIo`
deriving DecidableEq, Repr

/-- the thread holds the shared guard -/
def PC.holds : PC → Bool
  | .holdsShared => true
  | .passedLatch g => g
  | .inBackend g => g
  | _ => false

/-- the thread is past the latch test of its current call and has not left the backend yet -/
def PC.committed : PC → Bool
  | .passedLatch _ | .inBackend _ => true
  | _ => false

/-- program counter of the closer -/
inductive CPC where
  | start | flagged | exclusive | closedB | finished
deriving DecidableEq, Repr

def CPC.holdsExclusive : CPC → Bool
  | .exclusive | .closedB => true
  | _ => false

/-- what the backend sees -/
inductive Ev where
  | call (t : Nat)
  | close
deriving DecidableEq, Repr

/-- actions of a caller thread -/
inductive CAct where
  | acquireShared
  | testLatch
  | enterBackend
  | leaveBackend (failed : Bool)   -- includes `releaseShared`; `failed` = the call set `io_failed`
  | next                           -- start over with the next call
deriving DecidableEq, Repr

/-- actions of the closer -/
inductive KAct where
  | setFlags | acquireExclusive | backendClose | releaseExclusive
deriving DecidableEq, Repr

inductive Action where
  | caller (t : Nat) (a : CAct)
  | closer (a : KAct)
deriving DecidableEq, Repr

structure Sys where
  closedFlag : Bool
  ioFailed : Bool
  /-- number of shared holders of `in_flight` -/
  readers : Nat
  /-- `in_flight` is held exclusively -/
  writer : Bool
  backendClosed : Bool
  /-- the backend's view, in the order of the events -/
  log : List Ev
  pc : Nat → PC
  cpc : CPC

/-- `check_failure()` returns an error -/
def Sys.latchShut (s : Sys) : Bool := s.closedFlag || s.ioFailed

def setPc (f : Nat → PC) (t : Nat) (p : PC) : Nat → PC := fun u => if u = t then p else f u

inductive Variant where
  | guarded | noGuard | partialGuard
deriving DecidableEq, Repr

/-- calls that take the guard exist -/
def Variant.mayGuard : Variant → Bool
  | .noGuard => false
  | _ => true

/-- calls that skip the guard exist -/
def Variant.maySkip : Variant → Bool
  | .guarded => false
  | _ => true

/-- the small-step function: `none` = the action is not enabled -/
def step (v : Variant) (s : Sys) : Action → Option Sys
  | .caller t a =>
    match a, s.pc t with
    | .acquireShared, .idle =>
      if v.mayGuard && !s.writer then
        some { s with readers := s.readers + 1, pc := setPc s.pc t .holdsShared }
      else none
    | .testLatch, .holdsShared =>
      if s.latchShut then some { s with readers := s.readers - 1, pc := setPc s.pc t .refused }
      else some { s with pc := setPc s.pc t (.passedLatch true) }
    | .testLatch, .idle =>
      if v.maySkip then
        if s.latchShut then some { s with pc := setPc s.pc t .refused }
        else some { s with pc := setPc s.pc t (.passedLatch false) }
      else none
    | .enterBackend, .passedLatch g =>
      some { s with log := s.log ++ [.call t], pc := setPc s.pc t (.inBackend g) }
    | .leaveBackend failed, .inBackend g =>
      some { s with
        readers := if g then s.readers - 1 else s.readers
        ioFailed := s.ioFailed || failed
        pc := setPc s.pc t .done }
    | .next, .done => some { s with pc := setPc s.pc t .idle }
    | .next, .refused => some { s with pc := setPc s.pc t .idle }
    | _, _ => none
  | .closer a =>
    match a, s.cpc with
    | .setFlags, .start => some { s with closedFlag := true, ioFailed := true, cpc := .flagged }
    | .acquireExclusive, .flagged =>
      if s.readers = 0 then some { s with writer := true, cpc := .exclusive } else none
    | .backendClose, .exclusive =>
      some { s with backendClosed := true, log := s.log ++ [.close], cpc := .closedB }
    | .releaseExclusive, .closedB => some { s with writer := false, cpc := .finished }
    | _, _ => none

def StepV (v : Variant) (s : Sys) (a : Action) (s' : Sys) : Prop := step v s a = some s'

/-- the code as it is: every call takes the guard -/
def Step : Sys → Action → Sys → Prop := StepV .guarded
/-- the code before the fix: no call takes the guard -/
def StepNoGuard : Sys → Action → Sys → Prop := StepV .noGuard
/-- the seeded variant: one class of calls skips the guard -/
def StepPartial : Sys → Action → Sys → Prop := StepV .partialGuard

inductive Exec (v : Variant) : Sys → List Action → Sys → Prop where
  | nil (s : Sys) : Exec v s [] s
  | cons {s s' s'' : Sys} {a : Action} {tr : List Action} :
      StepV v s a s' → Exec v s' tr s'' → Exec v s (a :: tr) s''

/-- executable version of `Exec` -/
def exec (v : Variant) (s : Sys) : List Action → Option Sys
  | [] => some s
  | a :: tr => match step v s a with
    | some s' => exec v s' tr
    | none => none

def init : Sys :=
  { closedFlag := false, ioFailed := false, readers := 0, writer := false, backendClosed := false,
    log := [], pc := fun _ => .idle, cpc := .start }

inductive Reachable (v : Variant) : Sys → Prop where
  | init : Reachable v init
  | step {s s' : Sys} {a : Action} : Reachable v s → StepV v s a s' → Reachable v s'

/-- a `call` event after a `close` event -/
def callAfterClose : List Ev → Bool
  | [] => false
  | .close :: l => l.any (fun e => e != .close)
  | .call _ :: l => callAfterClose l

/-- the closer's `acquireExclusive` is enabled -/
def Sys.canAcquireExclusive (v : Variant) (s : Sys) : Bool :=
  (step v s (.closer .acquireExclusive)).isSome

/-! ## The forced schedule of the contract harness (`close_race`)

Reader `T1` is parked at the pause point of one backend call — after `begin_call`, before the call
into the backend — while the closer drops the `Database`; then `T1` is released, finishes that
call and tries the next one. `raceReplay` runs that schedule and reports what the model says at
each point: did the closer have to wait, was it able to go on once `T1` had left the backend, was
`T1`'s next call refused, and the backend's log. -/

structure RaceOutcome where
  /-- every action of the schedule was enabled where the schedule puts it -/
  ran : Bool
  /-- `acquireExclusive` was NOT enabled while `T1` was parked -/
  closeWaited : Bool
  /-- `acquireExclusive` was enabled after `T1` had left the backend -/
  closeRan : Bool
  nextRefused : Bool
  log : List Ev
deriving Repr, DecidableEq

def raceReplay (v : Variant) (parked : Bool) : RaceOutcome :=
  let t1 := 1
  let bad : RaceOutcome := { ran := false, closeWaited := false, closeRan := false, nextRefused := false, log := [] }
  -- a call of T1, up to the pause point
  let upToPause : List Action :=
    if v.mayGuard then [.caller t1 .acquireShared, .caller t1 .testLatch] else [.caller t1 .testLatch]
  let finishCall : List Action := [.caller t1 .enterBackend, .caller t1 (.leaveBackend false)]
  -- parked: T1 stops at the pause point; not parked: T1 is through with its calls before the drop
  let before := if parked then upToPause else upToPause ++ finishCall
  match exec v init (before ++ [.closer .setFlags]) with
  | none => bad
  | some s1 =>
    let waited := !s1.canAcquireExclusive v
    match exec v s1 (if parked then finishCall else []) with
    | none => bad
    | some s2 =>
      let ran := s2.canAcquireExclusive v
      -- without the guard nothing makes the closer wait for T1: it is through before T1 goes on
      let (first, second) :=
        if waited then (if parked then finishCall else [], [Action.closer .acquireExclusive, .closer .backendClose, .closer .releaseExclusive])
        else ([Action.closer .acquireExclusive, .closer .backendClose, .closer .releaseExclusive], if parked then finishCall else [])
      match exec v s1 (first ++ second ++ [.caller t1 .next] ++ upToPause) with
      | none => bad
      | some s3 =>
        { ran := true, closeWaited := waited, closeRan := ran,
          nextRefused := s3.pc t1 == .refused, log := s3.log }

end Redb.CloseGuard
