/-
Algorithmic model of redb's page bookkeeping at transaction granularity (properties C06, C02,
C05, C07, C11, C13). Import-free, executable.

Unlike the trace monitor `Redb.Life` (Model/Lifecycle.lean), which only says which observed
transitions are allowed, this is a state machine of the algorithm itself: `step` follows
`WriteTransaction::{commit_inner_helper, durable_commit, non_durable_commit, process_freed_pages,
process_freed_pages_nondurable, process_data_freed_pages_after_commit, restore_savepoint_inner,
abort_inner}` (src/transactions.rs), `TransactionTracker` (src/transaction_tracker.rs) and
`UnpersistedState` / `TransactionalMemory::{commit, non_durable_commit, free_if_unpersisted}`
(src/tree_store/page_store/page_manager.rs) of the pinned redb.

What is NOT modelled is the B-tree layer: a write transaction is given by the page sets of the
trees it produces (the new data tree; the new system tree as made durable; the system tree after
the post-commit epilogue). `guard` states the well-formedness the B-tree layer and the allocator
owe the bookkeeping: pages a tree gains were free when they were handed out.

Pages are order-0 global page ids (`Nat`). A record table (`DATA_FREED_TABLE`,
`SYSTEM_FREED_TABLE`, `DATA_ALLOCATED_TABLE` and their in-memory stand-ins) is a list of
(transaction id, page) pairs.
-/
namespace Redb.Life2

/-! ### finite sets of pages and record tables, as lists -/

def diff (a b : List Nat) : List Nat := a.filter (fun p => decide (p ∉ b))
def inter (a b : List Nat) : List Nat := a.filter (fun p => decide (p ∈ b))
def pagesOf (r : List (Nat × Nat)) : List Nat := r.map (·.2)
def idsOf (r : List (Nat × Nat)) : List Nat := r.map (·.1)
def tag (t : Nat) (ps : List Nat) : List (Nat × Nat) := ps.map (fun p => (t, p))
/-- records of transactions before `h` -/
def below (h : Nat) (r : List (Nat × Nat)) : List (Nat × Nat) := r.filter (fun e => decide (e.1 < h))
def notBelow (h : Nat) (r : List (Nat × Nat)) : List (Nat × Nat) := r.filter (fun e => decide (¬ e.1 < h))
/-- records of transactions after `t` -/
def above (t : Nat) (r : List (Nat × Nat)) : List (Nat × Nat) := r.filter (fun e => decide (t < e.1))
def upTo (t : Nat) (r : List (Nat × Nat)) : List (Nat × Nat) := r.filter (fun e => decide (e.1 ≤ t))
def dropPages (r : List (Nat × Nat)) (ps : List Nat) : List (Nat × Nat) := r.filter (fun e => decide (e.2 ∉ ps))
def dropIds (l ids : List Nat) : List Nat := l.filter (fun i => decide (i ∉ ids))

def minOpt : List Nat → Option Nat
  | [] => none
  | x :: xs => match minOpt xs with
    | none => some x
    | some m => some (min x m)

/-! ### state -/

/-- a live read transaction: the transaction id it registered and the data tree it reads -/
structure Snap where
  id : Nat
  pages : List Nat
deriving DecidableEq, Repr

/-- a savepoint that still holds its reference on `id` in `live_read_transactions`:
an ephemeral one until its handle is dropped (`valid = false` once a restore of an older
savepoint removed it from `valid_savepoints`), a persistent one until its deletion commits -/
structure Sp where
  sid : Nat
  id : Nat
  pages : List Nat
  persistent : Bool
  valid : Bool
deriving DecidableEq, Repr

/-- what a crash falls back to: the last durable commit (primary slot) -/
structure Image where
  id : Nat
  data : List Nat
  sys : List Nat
  dfreed : List (Nat × Nat)
  sfreed : List (Nat × Nat)
  dalloc : List (Nat × Nat)
  /-- SAVEPOINT_TABLE -/
  psps : List Sp
  /-- NEXT_SAVEPOINT_TABLE (0: absent) -/
  pspCounter : Nat
  /-- the commit saved the allocator state (quick-repair): recovery loads it instead of
  rebuilding, and does not make a repair commit -/
  qr : Bool
deriving DecidableEq, Repr

structure St where
  /-- `TransactionTracker::next_transaction_id`: the last id handed out -/
  nextId : Nat
  /-- id of the latest commit (secondary slot if non-durable commits are pending) -/
  lastId : Nat
  /-- id of the last durable commit (primary slot) -/
  durId : Nat
  /-- allocator: pages marked allocated -/
  alloc : List Nat
  /-- pages of the latest data tree / system tree -/
  data : List Nat
  sys : List Nat
  /-- DATA_FREED_TABLE, SYSTEM_FREED_TABLE, DATA_ALLOCATED_TABLE of the latest system tree -/
  dfreed : List (Nat × Nat)
  sfreed : List (Nat × Nat)
  dalloc : List (Nat × Nat)
  /-- `UnpersistedState`: pages allocated by non-durable commits, their per-transaction data-tree
  allocation and data-freed records, the epilogue's system-tree allocations -/
  upages : List Nat
  ualloc : List (Nat × Nat)
  udfreed : List (Nat × Nat)
  pca : List Nat
  /-- user read transactions -/
  readers : List Snap
  /-- savepoints holding a read reference, in creation (= savepoint id) order -/
  sps : List Sp
  /-- `next_savepoint_id`: last savepoint id handed out -/
  nextSp : Nat
  /-- NEXT_SAVEPOINT_TABLE of the latest system tree -/
  pspCounter : Nat
  /-- `pending_non_durable_commits`: commit id ↦ durable ancestor, each holding a read reference
  on the ancestor -/
  pend : List (Nat × Nat)
  /-- `unprocessed_freed_non_durable_commits` -/
  unproc : List Nat
  img : Image
deriving DecidableEq, Repr

/-- `live_read_transactions` as a multiset of transaction ids: readers, savepoints, and the
internal references of pending non-durable commits on their durable ancestor -/
def liveIds (s : St) : List Nat :=
  s.readers.map (·.id) ++ s.sps.map (·.id) ++ s.pend.map (·.2)

/-- every owner claim, in the order data tree, system tree, DATA_FREED, SYSTEM_FREED, in-memory
data-freed records -/
def owned (s : St) : List Nat :=
  s.data ++ s.sys ++ pagesOf s.dfreed ++ pagesOf s.sfreed ++ pagesOf s.udfreed

/-- the allocator as `rebuild_allocator_state` computes it from a durable image -/
def Image.owned (i : Image) : List Nat :=
  i.data ++ i.sys ++ pagesOf i.dfreed ++ pagesOf i.sfreed

/-! ### operations -/

inductive SpOp where
  /-- `ephemeral_savepoint()` -/
  | eph
  /-- `persistent_savepoint()` -/
  | pers
  /-- `delete_persistent_savepoint(sid)` -/
  | del (sid : Nat)
  /-- `restore_savepoint(sid)` -/
  | restore (sid : Nat)
deriving DecidableEq, Repr

/-- a write transaction that commits, given by the trees it produces. Two-phase commit does not
influence the bookkeeping (only the order of header writes) and is not a parameter. -/
structure Txn where
  /-- `Durability::Immediate` (else `Durability::None`) -/
  durable : Bool
  /-- quick-repair: the allocator state is saved with the commit -/
  qr : Bool
  /-- `PostCommitFree::Enabled` (disabled for the close commit and for check_integrity) -/
  epilogue : Bool
  spOps : List SpOp
  /-- pages of the new data tree -/
  data : List Nat
  /-- pages of the new system tree, as published by the commit itself -/
  sys : List Nat
  /-- quick-repair only: the system pages made unreachable by the commit that were written to
  SYSTEM_FREED_TABLE before the allocator snapshot was taken (the others are released right after
  the commit). Which pages these are is decided inside the B-tree layer (retry loop around
  `try_save_allocator_state`) and is an explicit oracle input. -/
  sysRec : List Nat
  /-- pages of the system tree after the post-commit epilogue (ignored if it does not run) -/
  sys2 : List Nat
deriving DecidableEq, Repr

inductive Op where
  | commit (t : Txn)
  /-- a write transaction that ends in abort / drop / refused commit; `spAllocs` savepoint ids
  were handed out in it -/
  | abort (spAllocs : Nat)
  | beginRead
  | dropReader (id : Nat)
  /-- drop of an ephemeral savepoint handle -/
  | dropSp (sid : Nat)
  /-- drop of the `Database` after its close commit, and open of the cleanly closed file -/
  | reopen
  /-- loss of the in-memory state and recovery from the durable image -/
  | crash
deriving DecidableEq, Repr

/-! ### savepoint operations inside a write transaction -/

/-- transaction-local state (`WriteTransaction`, `SavepointTransactionState`) -/
structure W where
  /-- pages of the tree the transaction works on (`TableNamespace::set_root`) -/
  base : List Nat
  /-- pages queued for freeing by `restore_savepoint_inner` -/
  queued : List Nat
  /-- `restored_transaction` -/
  restored : Option Nat
  /-- staged `deleted_persistent` -/
  deleted : List Nat
  /-- staged `invalidated` -/
  invalidated : List Nat
  /-- DATA_FREED_TABLE of the working system tree -/
  dfreed : List (Nat × Nat)
  /-- every savepoint operation so far was accepted by the implementation's own checks -/
  ok : Bool
deriving Repr

def W.start (s : St) : W :=
  { base := s.data, queued := [], restored := none, deleted := [], invalidated := [],
    dfreed := s.dfreed, ok := true }

def findSp (s : St) (sid : Nat) : Option Sp := s.sps.find? (fun sp => sp.sid = sid)

def newSp (s : St) (persistent : Bool) : Sp :=
  { sid := s.nextSp + 1, id := s.lastId, pages := s.data, persistent := persistent, valid := true }

/-- persistent savepoints listed by the working system tree with an id above `sid` -/
def laterPersistent (s : St) (w : W) (sid : Nat) : List Nat :=
  (s.sps.filter (fun sp => sp.persistent && decide (sid < sp.sid) && decide (sp.sid ∉ w.deleted))).map (·.sid)

def spStep (durable : Bool) : St × W → SpOp → St × W
  | (s, w), .eph =>
    ({ s with sps := s.sps ++ [newSp s false], nextSp := s.nextSp + 1 },
     { w with ok := w.ok && w.restored.isNone })
  | (s, w), .pers =>
    ({ s with sps := s.sps ++ [newSp s true], nextSp := s.nextSp + 1,
              pspCounter := max (s.nextSp + 2) s.pspCounter },
     { w with ok := w.ok && w.restored.isNone && durable })
  | (s, w), .del sid =>
    (s, { w with deleted := w.deleted ++ [sid],
                 ok := w.ok && durable && decide (sid ∉ w.deleted) &&
                   s.sps.any (fun sp => decide (sp.sid = sid) && sp.persistent) })
  | (s, w), .restore sid =>
    match findSp s sid with
    | none => (s, { w with ok := false })
    | some sp =>
      (s, { base := sp.pages,
            queued := pagesOf (above sp.id s.dalloc) ++ pagesOf (above sp.id s.ualloc),
            restored := some sp.id,
            deleted := w.deleted ++ laterPersistent s w sid,
            invalidated := w.invalidated ++
              (s.sps.filter (fun x => x.valid && decide (sid < x.sid))).map (·.sid),
            dfreed := upTo sp.id w.dfreed,
            ok := w.ok && w.restored.isNone && sp.valid && decide (sid ∉ w.invalidated) &&
              (durable || (laterPersistent s w sid).isEmpty) })

def runSpOps (durable : Bool) (s : St) (ops : List SpOp) : St × W :=
  ops.foldl (spStep durable) (s, W.start s)

/-- `SavepointTransactionState::apply_on_commit` -/
def applySps (sps : List Sp) (w : W) : List Sp :=
  (sps.filter (fun sp => decide (sp.sid ∉ w.deleted))).map
    (fun sp => if sp.sid ∈ w.invalidated then { sp with valid := false } else sp)

/-- `oldest_savepoint_excluding(deleted)`: the first entry of `valid_savepoints` (ordered by
savepoint id) that is not staged for deletion -/
def spHorizon (sps : List Sp) (w : W) : Option Nat :=
  ((sps.filter (fun sp => sp.valid && decide (sp.sid ∉ w.deleted))).head?).map (·.id)

/-! ### commit -/

def dataLost (w : W) (t : Txn) : List Nat := w.queued ++ diff w.base t.data
def dataGain (w : W) (t : Txn) : List Nat := diff t.data w.base

/-- `drop_unpersisted_data_freed_after` -/
def udfreedKept (s : St) (w : W) : List (Nat × Nat) :=
  match w.restored with
  | some r => upTo r s.udfreed
  | none => s.udfreed

def freeUntil (s : St) (n : Nat) : Nat :=
  match minOpt (liveIds s) with
  | some x => x + 1
  | none => n

/-- state right after `TransactionalMemory::commit` of a durable commit `n`, before the tracker
and savepoint state are updated and before the epilogue -/
structure Mid where
  alloc : List Nat
  dfreed : List (Nat × Nat)
  sfreed : List (Nat × Nat)
  dalloc : List (Nat × Nat)
  unproc : List Nat
  horizon : Option Nat
deriving Repr

def durableMain (s : St) (w : W) (t : Txn) (n : Nat) : Mid :=
  -- store_data_freed_pages, take_unpersisted_data_freed
  let df1 := w.dfreed ++ tag n (dataLost w t) ++ udfreedKept s w
  -- process_freed_pages
  let fu := freeUntil s n
  let rel := pagesOf (below fu df1) ++ pagesOf (below fu s.sfreed)
  let a2 := diff (s.alloc ++ dataGain w t) rel
  -- flush_data_allocated_pages
  let tracked := s.sps.any (·.valid)
  let da1 := s.dalloc ++ s.ualloc ++ (if tracked then tag n (dataGain w t) else [])
  let horizon := spHorizon s.sps w
  let da2 := match horizon with
    | some h => notBelow h da1
    | none => []
  -- system tree: gained pages; lost pages are recorded (quick-repair) or released after the commit
  let a3 := a2 ++ diff t.sys s.sys
  let a4 := diff a3 (diff (diff s.sys t.sys) t.sysRec)
  { alloc := a4, dfreed := notBelow fu df1, sfreed := notBelow fu s.sfreed ++ tag n t.sysRec,
    dalloc := da2, unproc := dropIds s.unproc (idsOf (below fu df1) ++ idsOf (below fu s.sfreed)),
    horizon := horizon }

/-- the allocator as it is while the system tree of a durable commit is written: after
`process_freed_pages`, which may hand the pages it released to the system tree -/
def durableAllocBeforeSys (s : St) (w : W) (t : Txn) (n : Nat) : List Nat :=
  let df1 := w.dfreed ++ tag n (dataLost w t) ++ udfreedKept s w
  let fu := freeUntil s n
  diff (s.alloc ++ dataGain w t) (pagesOf (below fu df1) ++ pagesOf (below fu s.sfreed))

def persistentTable (sps : List Sp) (w : W) : List Sp :=
  sps.filter (fun sp => sp.persistent && decide (sp.sid ∉ w.deleted))

/-- free horizon of the post-commit epilogue (`process_data_freed_pages_after_commit`) -/
def epilogueUntil (s : St) (n : Nat) (horizon : Option Nat) : Nat :=
  let fu := match minOpt (liveIds s) with
    | some x => x + 1
    | none => n + 1
  match horizon with
  | some h => min fu (h + 1)
  | none => fu

/-- does the epilogue of commit `n` find anything to free in state `s` (the state after the
commit proper)? -/
def epilogueRuns (s : St) (n : Nat) (horizon : Option Nat) : Bool :=
  !(below (epilogueUntil s n horizon) s.dfreed).isEmpty

/-- the post-commit epilogue: releases the data-freed records below its horizon and publishes the
resulting system tree as the non-durable commit `n + 1` -/
def epilogue (s : St) (t : Txn) (n : Nat) (horizon : Option Nat) : St :=
  if epilogueRuns s n horizon then
    let fu := epilogueUntil s n horizon
    let e := below fu s.dfreed
    let gain := diff t.sys2 s.sys
    let lost := diff s.sys t.sys2
    { s with
      alloc := diff s.alloc (pagesOf e) ++ gain,
      dfreed := notBelow fu s.dfreed,
      sfreed := s.sfreed ++ tag (n + 1) lost,
      sys := t.sys2,
      upages := gain, pca := gain,
      lastId := n + 1, nextId := n + 1,
      pend := [(n + 1, n)],
      unproc := dropIds s.unproc (idsOf e) ++ (if lost.isEmpty then [] else [n + 1]) }
  else s

/-- the allocator as it is while the epilogue writes the system tree -/
def epilogueAllocBeforeSys (s : St) (n : Nat) (horizon : Option Nat) : List Nat :=
  diff s.alloc (pagesOf (below (epilogueUntil s n horizon) s.dfreed))

/-- state after `TransactionalMemory::commit`, `clear_pending_non_durable_commits`,
`apply_savepoint_state_on_commit` of durable commit `n` -/
def durableCommitted (s : St) (w : W) (t : Txn) (n : Nat) : St :=
  let m := durableMain s w t n
  let img : Image :=
    { id := n, data := t.data, sys := t.sys, dfreed := m.dfreed, sfreed := m.sfreed,
      dalloc := m.dalloc, psps := persistentTable s.sps w, pspCounter := s.pspCounter, qr := t.qr }
  { s with
    nextId := n, lastId := n, durId := n,
    alloc := m.alloc, data := t.data, sys := t.sys,
    dfreed := m.dfreed, sfreed := m.sfreed, dalloc := m.dalloc,
    upages := [], ualloc := [], udfreed := [], pca := [],
    sps := applySps s.sps w, pend := [], unproc := m.unproc, img := img }

def durableCommit (s : St) (w : W) (t : Txn) (n : Nat) : St :=
  let c := durableCommitted s w t n
  if t.epilogue then epilogue c t n (durableMain s w t n).horizon else c

/-- `oldest_live_read_nondurable_transaction().next()` or the committing id -/
def freeUntilND (s : St) (n : Nat) : Nat :=
  match minOpt ((liveIds s).filter (fun i => decide (i ∈ idsOf s.pend))) with
  | some x => x + 1
  | none => n

/-- lower end of the range of records a non-durable commit scans -/
def scanFrom (s : St) (fu : Nat) : Nat :=
  match minOpt s.unproc with
  | some x => x
  | none => fu

def inRange (lo hi t : Nat) : Bool := decide (lo ≤ t) && decide (t < hi)

/-- a non-durable commit `n` -/
def nonDurableCommit (s : St) (w : W) (t : Txn) (n : Nat) : St :=
  let lostD := dataLost w t
  let gainD := dataGain w t
  -- record_unpersisted_data_freed
  let udf1 := udfreedKept s w ++ tag n lostD
  let fu := freeUntilND s n
  let lo := scanFrom s fu
  -- process_unpersisted_data_freed with free_if_unpersisted
  let hitD := udf1.filter (fun e => inRange lo fu e.1 && decide (e.2 ∈ s.upages))
  let udf2 := udf1.filter (fun e => !(inRange lo fu e.1 && decide (e.2 ∈ s.upages)))
  let up1 := diff s.upages (pagesOf hitD)
  -- process_freed_pages_nondurable_helper on SYSTEM_FREED_TABLE
  let cand := s.sfreed.filter (fun e => inRange lo fu e.1 && decide (e.1 ∈ s.unproc))
  let hitS := cand.filter (fun e => decide (e.2 ∈ up1))
  let sf1 := s.sfreed.filter (fun e => !(inRange lo fu e.1 && decide (e.1 ∈ s.unproc) && decide (e.2 ∈ up1)))
  let up2 := diff up1 (pagesOf hitS)
  let claimed := pagesOf hitD ++ pagesOf hitS
  let unproc1 := dropIds s.unproc (idsOf (udf1.filter (fun e => inRange lo fu e.1)) ++ idsOf cand)
  -- system tree
  let gainS := diff t.sys s.sys
  let lostS := diff s.sys t.sys
  let post := inter lostS up2
  let recS := diff lostS up2
  let tracked := s.sps.any (·.valid)
  { s with
    nextId := n, lastId := n,
    alloc := diff (diff (s.alloc ++ gainD) claimed ++ gainS) post,
    data := t.data, sys := t.sys,
    dfreed := w.dfreed,
    sfreed := sf1 ++ tag n recS,
    upages := diff (up2 ++ gainD ++ gainS) post,
    ualloc := dropPages s.ualloc claimed ++ (if tracked then tag n gainD else []),
    udfreed := udf2,
    pca := diff (diff s.pca claimed) post,
    sps := applySps s.sps w,
    pend := s.pend ++ [(n, s.durId)],
    unproc := unproc1 ++ (if lostD.isEmpty && recS.isEmpty then [] else [n]) }

/-- the allocator as it is while a non-durable commit writes the system tree -/
def nonDurableAllocBeforeSys (s : St) (w : W) (t : Txn) (n : Nat) : List Nat :=
  let udf1 := udfreedKept s w ++ tag n (dataLost w t)
  let fu := freeUntilND s n
  let lo := scanFrom s fu
  let hitD := udf1.filter (fun e => inRange lo fu e.1 && decide (e.2 ∈ s.upages))
  let up1 := diff s.upages (pagesOf hitD)
  let hitS := s.sfreed.filter (fun e => inRange lo fu e.1 && decide (e.1 ∈ s.unproc) && decide (e.2 ∈ up1))
  diff (s.alloc ++ dataGain w t) (pagesOf hitD ++ pagesOf hitS)

def commit (s : St) (t : Txn) : St :=
  let n := s.nextId + 1
  let (s1, w) := runSpOps t.durable s t.spOps
  if t.durable then durableCommit s1 w t n else nonDurableCommit s1 w t n

/-! ### the other operations -/

def eraseReader (id : Nat) : List Snap → List Snap
  | [] => []
  | r :: rs => if r.id = id then rs else r :: eraseReader id rs

/-- the in-memory state a fresh `Database` instance builds around the durable image: the volatile
state is gone, the persistent savepoints are registered again, the allocator is the saved one
(clean close, quick-repair) or rebuilt from the roots and the freed tables -/
def recover (i : Image) (repairCommit : Bool) : St :=
  let id := if repairCommit then i.id + 1 else i.id
  let img := if repairCommit then { i with id := id, qr := false } else i
  { nextId := id + 1, lastId := id, durId := id,
    alloc := i.owned, data := i.data, sys := i.sys,
    dfreed := i.dfreed, sfreed := i.sfreed, dalloc := i.dalloc,
    upages := [], ualloc := [], udfreed := [], pca := [],
    readers := [], sps := i.psps, nextSp := i.pspCounter, pspCounter := i.pspCounter,
    pend := [], unproc := [], img := img }

def step (s : St) : Op → St
  | .commit t => commit s t
  | .abort k => { s with nextId := s.nextId + 1, nextSp := s.nextSp + k }
  | .beginRead => { s with readers := s.readers ++ [{ id := s.lastId, pages := s.data }] }
  | .dropReader id => { s with readers := eraseReader id s.readers }
  | .dropSp sid => { s with sps := s.sps.filter (fun sp => !(decide (sp.sid = sid) && !sp.persistent)) }
  | .reopen => recover s.img false
  | .crash => recover s.img (!s.img.qr)

def run (s : St) (ops : List Op) : St := ops.foldl step s

/-- an empty database: nothing allocated, empty trees, commit 0 durable -/
def init : St :=
  { nextId := 0, lastId := 0, durId := 0, alloc := [], data := [], sys := [],
    dfreed := [], sfreed := [], dalloc := [], upages := [], ualloc := [], udfreed := [], pca := [],
    readers := [], sps := [], nextSp := 0, pspCounter := 0, pend := [], unproc := [],
    img := { id := 0, data := [], sys := [], dfreed := [], sfreed := [], dalloc := [], psps := [],
             pspCounter := 0, qr := false } }

/-! ### guard: what the layers around the bookkeeping owe it -/

def disjoint (a b : List Nat) : Bool := a.all (fun p => decide (p ∉ b))
def subset (a b : List Nat) : Bool := a.all (fun p => decide (p ∈ b))

/-- well-formedness of a committing write transaction -/
def commitGuard (s : St) (t : Txn) : Bool :=
  let n := s.nextId + 1
  let (s1, w) := runSpOps t.durable s t.spOps
  w.ok && t.data.Nodup && t.sys.Nodup &&
  -- pages the data tree gained were free when the transaction allocated them
  disjoint (dataGain w t) s.alloc &&
  -- only a durable commit saves the allocator state, creates or deletes persistent savepoints,
  -- and only the recorded part of the lost system pages is an input
  subset t.sysRec (diff s.sys t.sys) && t.sysRec.Nodup && (t.qr || t.sysRec.isEmpty) &&
  (if t.durable then
    -- pages the system tree gained were free while the commit wrote it
    disjoint (diff t.sys s1.sys) (durableAllocBeforeSys s1 w t n) &&
    (let c := durableCommitted s1 w t n
     let h := (durableMain s1 w t n).horizon
     if t.epilogue && epilogueRuns c n h then
       t.sys2.Nodup && disjoint (diff t.sys2 t.sys) (epilogueAllocBeforeSys c n h)
     else true)
  else
    !t.qr && t.sysRec.isEmpty &&
    disjoint (diff t.sys s1.sys) (nonDurableAllocBeforeSys s1 w t n))

def guardB (s : St) : Op → Bool
  | .commit t => commitGuard s t
  | .abort _ => true
  | .beginRead => true
  | .dropReader id => s.readers.any (fun r => decide (r.id = id))
  | .dropSp sid => s.sps.any (fun sp => decide (sp.sid = sid) && !sp.persistent)
  -- a `Database` can only be dropped / lost when no reader or ephemeral savepoint borrows it; the
  -- clean close additionally made its (quick-repair, epilogue-free) commit the last one
  | .reopen => s.readers.isEmpty && s.sps.all (·.persistent) && s.img.qr && decide (s.lastId = s.durId)
  | .crash => s.readers.isEmpty && s.sps.all (·.persistent)

def guard (s : St) (op : Op) : Prop := guardB s op = true

instance (s : St) (op : Op) : Decidable (guard s op) := by unfold guard; infer_instance

/-- every operation of the list is enabled when it is applied -/
def guardAll : St → List Op → Bool
  | _, [] => true
  | s, op :: ops => guardB s op && guardAll (step s op) ops

end Redb.Life2
