/-
Algorithmic model of redb's page bookkeeping at transaction granularity (properties C06, C02,
C05, C07, C11, C13). Import-free, executable.

Unlike the trace monitor `Redb.Life` (Model/Lifecycle.lean), which only says which observed
transitions are allowed, this is a state machine of the algorithm itself: `step` follows
`WriteTransaction::{commit_inner_helper, durable_commit, non_durable_commit, process_freed_pages,
process_freed_pages_nondurable, process_data_freed_pages_after_commit, restore_savepoint_inner,
abort_inner}` (src/transactions.rs), `TransactionTracker` (src/transaction_tracker.rs) and
`UnpersistedState` / `TransactionalMemory::{commit, non_durable_commit, free_if_unpersisted}`
(src/tree_store/page_store/page_manager.rs) of the pinned redb.

What is NOT modelled is the B-tree layer: a write transaction is given by the page sets of the
trees it produces (the new data tree; the new system tree as made durable; the system tree after
the post-commit epilogue). `guard` states the well-formedness the B-tree layer and the allocator
owe the bookkeeping: pages a tree gains were free when they were handed out.

Pages are order-0 global page ids (`Nat`). A record table (`DATA_FREED_TABLE`,
`SYSTEM_FREED_TABLE`, `DATA_ALLOCATED_TABLE` and their in-memory stand-ins) is a list of
(transaction id, page) pairs.
-/
namespace Redb.Life2

/-! ### finite sets of pages and record tables, as lists -/

def diff (a b : List Nat) : List Nat := a.filter (fun p => decide (p ∉ b))
def inter (a b : List Nat) : List Nat := a.filter (fun p => decide (p ∈ b))
def pagesOf (r : List (Nat × Nat)) : List Nat := r.map (·.2)
def idsOf (r : List (Nat × Nat)) : List Nat := r.map (·.1)
def tag (t : Nat) (ps : List Nat) : List (Nat × Nat) := ps.map (fun p => (t, p))
/-- records of transactions before `h` -/
def below (h : Nat) (r : List (Nat × Nat)) : List (Nat × Nat) := r.filter (fun e => decide (e.1 < h))
def notBelow (h : Nat) (r : List (Nat × Nat)) : List (Nat × Nat) := r.filter (fun e => decide (¬ e.1 < h))
/-- records of transactions after `t` -/
def above (t : Nat) (r : List (Nat × Nat)) : List (Nat × Nat) := r.filter (fun e => decide (t < e.1))
def upTo (t : Nat) (r : List (Nat × Nat)) : List (Nat × Nat) := r.filter (fun e => decide (e.1 ≤ t))
def dropPages (r : List (Nat × Nat)) (ps : List Nat) : List (Nat × Nat) := r.filter (fun e => decide (e.2 ∉ ps))
def dropIds (l ids : List Nat) : List Nat := l.filter (fun i => decide (i ∉ ids))

def minOpt : List Nat → Option Nat
  | [] => none
  | x :: xs => match minOpt xs with
    | none => some x
    | some m => some (min x m)

/-! ### state -/

/-- a live read transaction: the transaction id it registered and the data tree it reads -/
structure Snap where
  id : Nat
  pages : List Nat
deriving DecidableEq, Repr

/-- a savepoint that still holds its reference on `id` in `live_read_transactions`:
an ephemeral one until its handle is dropped (`valid = false` once a restore of an older
savepoint removed it from `valid_savepoints`), a persistent one until its deletion commits -/
structure Sp where
  sid : Nat
  id : Nat
  pages : List Nat
  persistent : Bool
  valid : Bool
deriving DecidableEq, Repr

/-- what a crash falls back to: the last durable commit (primary slot) -/
structure Image where
  id : Nat
  data : List Nat
  sys : List Nat
  dfreed : List (Nat × Nat)
  sfreed : List (Nat × Nat)
  dalloc : List (Nat × Nat)
  /-- SAVEPOINT_TABLE -/
  psps : List Sp
  /-- NEXT_SAVEPOINT_TABLE (0: absent) -/
  pspCounter : Nat
  /-- the commit saved the allocator state (quick-repair): recovery loads it instead of
  rebuilding, and does not make a repair commit -/
  qr : Bool
deriving DecidableEq, Repr

structure St where
  /-- `TransactionTracker::next_transaction_id`: the last id handed out -/
  nextId : Nat
  /-- id of the latest commit (secondary slot if non-durable commits are pending) -/
  lastId : Nat
  /-- id of the last durable commit (primary slot) -/
  durId : Nat
  /-- allocator: pages marked allocated -/
  alloc : List Nat
  /-- pages of the latest data tree / system tree -/
  data : List Nat
  sys : List Nat
  /-- DATA_FREED_TABLE, SYSTEM_FREED_TABLE, DATA_ALLOCATED_TABLE of the latest system tree -/
  dfreed : List (Nat × Nat)
  sfreed : List (Nat × Nat)
  dalloc : List (Nat × Nat)
  /-- `UnpersistedState`: pages allocated by non-durable commits, their per-transaction data-tree
  allocation and data-freed records, the epilogue's system-tree allocations -/
  upages : List Nat
  ualloc : List (Nat × Nat)
  udfreed : List (Nat × Nat)
  pca : List Nat
  /-- user read transactions -/
  readers : List Snap
  /-- savepoints holding a read reference, in creation (= savepoint id) order -/
  sps : List Sp
  /-- `next_savepoint_id`: last savepoint id handed out -/
  nextSp : Nat
  /-- NEXT_SAVEPOINT_TABLE of the latest system tree -/
  pspCounter : Nat
  /-- `pending_non_durable_commits`: commit id ↦ durable ancestor, each holding a read reference
  on the ancestor -/
  pend : List (Nat × Nat)
  /-- `unprocessed_freed_non_durable_commits` -/
  unproc : List Nat
  img : Image
deriving DecidableEq, Repr

/-- `live_read_transactions` as a multiset of transaction ids: readers, savepoints, and the
internal references of pending non-durable commits on their durable ancestor -/
def liveIds (s : St) : List Nat :=
  s.readers.map (·.id) ++ s.sps.map (·.id) ++ s.pend.map (·.2)

/-- every owner claim, in the order data tree, system tree, DATA_FREED, SYSTEM_FREED, in-memory
data-freed records -/
def owned (s : St) : List Nat :=
  s.data ++ s.sys ++ pagesOf s.dfreed ++ pagesOf s.sfreed ++ pagesOf s.udfreed

/-- the allocator as `rebuild_allocator_state` computes it from a durable image -/
def Image.owned (i : Image) : List Nat :=
  i.data ++ i.sys ++ pagesOf i.dfreed ++ pagesOf i.sfreed

/-! ### operations -/

inductive SpOp where
  /-- `ephemeral_savepoint()` -/
  | eph
  /-- `persistent_savepoint()` -/
  | pers
  /-- `delete_persistent_savepoint(sid)` -/
  | del (sid : Nat)
  /-- `restore_savepoint(sid)` -/
  | restore (sid : Nat)
deriving DecidableEq, Repr

/-- a write transaction that commits, given by the trees it produces. Two-phase commit does not
influence the bookkeeping (only the order of header writes) and is not a parameter. -/
structure Txn where
  /-- `Durability::Immediate` (else `Durability::None`) -/
  durable : Bool
  /-- quick-repair: the allocator state is saved with the commit -/
  qr : Bool
  /-- `PostCommitFree::Enabled` (disabled for the close commit and for check_integrity) -/
  epilogue : Bool
  spOps : List SpOp
  /-- pages of the new data tree -/
  data : List Nat
  /-- pages of the new system tree, as published by the commit itself -/
  sys : List Nat
  /-- quick-repair only: the system pages made unreachable by the commit that were written to
  SYSTEM_FREED_TABLE before the allocator snapshot was taken (the others are released right after
  the commit). Which pages these are is decided inside the B-tree layer (retry loop around
  `try_save_allocator_state`) and is an explicit oracle input. -/
  sysRec : List Nat
  /-- pages of the system tree after the post-commit epilogue (ignored if it does not run) -/
  sys2 : List Nat
deriving DecidableEq, Repr

inductive Op where
  | commit (t : Txn)
  /-- a write transaction that ends in abort / drop / refused commit; `spAllocs` savepoint ids
  were handed out in it -/
  | abort (spAllocs : Nat)
  | beginRead
  | dropReader (id : Nat)
  /-- drop of an ephemeral savepoint handle -/
  | dropSp (sid : Nat)
  /-- drop of the `Database` after its close commit, and open of the cleanly closed file -/
  | reopen
  /-- loss of the in-memory state and recovery from the durable image -/
  | crash
deriving DecidableEq, Repr

/-! ### savepoint operations inside a write transaction -/

/-- transaction-local state (`WriteTransaction`, `SavepointTransactionState`) -/
structure W where
  /-- pages of the tree the transaction works on (`TableNamespace::set_root`) -/
  base : List Nat
  /-- pages queued for freeing by `restore_savepoint_inner` -/
  queued : List Nat
  /-- `restored_transaction` -/
  restored : Option Nat
  /-- staged `deleted_persistent` -/
  deleted : List Nat
  /-- staged `invalidated` -/
  invalidated : List Nat
  /-- DATA_FREED_TABLE of the working system tree -/
  dfreed : List (Nat × Nat)
  /-- every savepoint operation so far was accepted by the implementation's own checks -/
  ok : Bool
deriving Repr

def W.start (s : St) : W :=
  { base := s.data, queued := [], restored := none, deleted := [], invalidated := [],
    dfreed := s.dfreed, ok := true }

def findSp (s : St) (sid : Nat) : Option Sp := s.sps.find? (fun sp => sp.sid = sid)

def newSp (s : St) (persistent : Bool) : Sp :=
  { sid := s.nextSp + 1, id := s.lastId, pages := s.data, persistent := persistent, valid := true }

/-- persistent savepoints listed by the working system tree with an id above `sid` -/
def laterPersistent (s : St) (w : W) (sid : Nat) : List Nat :=
  (s.sps.filter (fun sp => sp.persistent && decide (sid < sp.sid) && decide (sp.sid ∉ w.deleted))).map (·.sid)

def spStep (durable : Bool) : St × W → SpOp → St × W
  | (s, w), .eph =>
    ({ s with sps := s.sps ++ [newSp s false], nextSp := s.nextSp + 1 },
     { w with ok := w.ok && w.restored.isNone })
  | (s, w), .pers =>
    ({ s with sps := s.sps ++ [newSp s true], nextSp := s.nextSp + 1,
              pspCounter := max (s.nextSp + 2) s.pspCounter },
     { w with ok := w.ok && w.restored.isNone && durable })
  | (s, w), .del sid =>
    (s, { w with deleted := w.deleted ++ [sid],
                 ok := w.ok && durable && w.restored.isNone && decide (sid ∉ w.deleted) &&
                   s.sps.any (fun sp => decide (sp.sid = sid) && sp.persistent) })
  | (s, w), .restore sid =>
    match findSp s sid with
    | none => (s, { w with ok := false })
    | some sp =>
      (s, { base := sp.pages,
            queued := pagesOf (above sp.id s.dalloc) ++ pagesOf (above sp.id s.ualloc),
            restored := some sp.id,
            deleted := w.deleted ++ laterPersistent s w sid,
            invalidated := w.invalidated ++
              (s.sps.filter (fun x => x.valid && decide (sid < x.sid))).map (·.sid),
            dfreed := upTo sp.id w.dfreed,
            ok := w.ok && w.restored.isNone && sp.valid && decide (sid ∉ w.invalidated) && decide (sid ∉ w.deleted) &&
              (durable || (laterPersistent s w sid).isEmpty) })

def runSpOps (durable : Bool) (s : St) (ops : List SpOp) : St × W :=
  ops.foldl (spStep durable) (s, W.start s)

/-- `SavepointTransactionState::apply_on_commit` -/
def applySps (sps : List Sp) (w : W) : List Sp :=
  (sps.filter (fun sp => decide (sp.sid ∉ w.deleted))).map
    (fun sp => if sp.sid ∈ w.invalidated then { sp with valid := false } else sp)

/-- `oldest_savepoint_excluding(deleted)`: the first entry of `valid_savepoints` (ordered by
savepoint id) that is not staged for deletion -/
def spHorizon (sps : List Sp) (w : W) : Option Nat :=
  ((sps.filter (fun sp => sp.valid && decide (sp.sid ∉ w.deleted))).head?).map (·.id)

/-! ### commit, as the sequence of bookkeeping actions the code performs -/

def dataLost (w : W) (t : Txn) : List Nat := w.queued ++ diff w.base t.data
def dataGain (w : W) (t : Txn) : List Nat := diff t.data w.base

/-- `drop_unpersisted_data_freed_after` -/
def udfreedKept (s : St) (w : W) : List (Nat × Nat) :=
  match w.restored with
  | some r => upTo r s.udfreed
  | none => s.udfreed

/-- `begin_write`: the transaction takes the next id -/
def beginWrite (s : St) : St := { s with nextId := s.nextId + 1 }

/-- `flush_and_close` of the data tree of transaction `n` and the record of the pages it made
unreachable (kept in memory first: `record_unpersisted_data_freed`; a durable commit writes it to
DATA_FREED_TABLE together with the older in-memory records, see `mergeStep`). The pages the data
tree gained are tracked (`PageTracker`) if a savepoint existed when the transaction became dirty;
they are kept with the in-memory allocation records (`record_unpersisted_allocations`; a durable
commit writes them to DATA_ALLOCATED_TABLE, see `dallocStep`) -/
def dataStep (s : St) (w : W) (t : Txn) (n : Nat) : St :=
  { s with data := t.data, alloc := s.alloc ++ dataGain w t, dfreed := w.dfreed,
           udfreed := udfreedKept s w ++ tag n (dataLost w t),
           ualloc := s.ualloc ++ (if s.sps.any (·.valid) then tag n (dataGain w t) else []) }

/-- `store_data_freed_pages` + `take_unpersisted_data_freed` of a durable commit -/
def mergeStep (s : St) : St := { s with dfreed := s.dfreed ++ s.udfreed, udfreed := [] }

/-- `oldest_live_read_transaction().next()` or the committing id -/
def freeUntil (s : St) (n : Nat) : Nat :=
  match minOpt (liveIds s) with
  | some x => x + 1
  | none => n

/-- `process_freed_pages`: the records below the horizon are released to the allocator -/
def releaseStep (s : St) (fu : Nat) : St :=
  { s with alloc := diff s.alloc (pagesOf (below fu s.dfreed) ++ pagesOf (below fu s.sfreed)),
           dfreed := notBelow fu s.dfreed, sfreed := notBelow fu s.sfreed,
           unproc := dropIds s.unproc (idsOf (below fu s.dfreed) ++ idsOf (below fu s.sfreed)) }

def purge (horizon : Option Nat) (r : List (Nat × Nat)) : List (Nat × Nat) :=
  match horizon with
  | some h => notBelow h r
  | none => []

/-- `flush_data_allocated_pages`: the in-memory allocation records (with those of the committing
transaction) go to DATA_ALLOCATED_TABLE; entries older than the oldest remaining savepoint are
purged -/
def dallocStep (s : St) (w : W) : St :=
  { s with dalloc := purge (spHorizon s.sps w) (s.dalloc ++ s.ualloc), ualloc := [] }

def persistentTable (sps : List Sp) (w : W) : List Sp :=
  sps.filter (fun sp => sp.persistent && decide (sp.sid ∉ w.deleted))

/-- system tree of a durable commit and `TransactionalMemory::commit`: gained pages are
allocated, lost pages are recorded (quick-repair) or released right after the commit; the state
becomes the durable image; the unpersisted state and the pending non-durable commits are cleared -/
def publishDurable (s : St) (w : W) (t : Txn) (n : Nat) : St :=
  { s with
    alloc := diff (s.alloc ++ diff t.sys s.sys) (diff (diff s.sys t.sys) t.sysRec),
    sys := t.sys, sfreed := s.sfreed ++ tag n t.sysRec,
    lastId := n, durId := n, upages := [], pca := [], pend := [],
    img := { id := n, data := s.data, sys := t.sys, dfreed := s.dfreed,
             sfreed := s.sfreed ++ tag n t.sysRec, dalloc := s.dalloc,
             psps := persistentTable s.sps w, pspCounter := s.pspCounter, qr := t.qr } }

/-- `apply_savepoint_state_on_commit` -/
def applyStep (s : St) (w : W) : St := { s with sps := applySps s.sps w }

/-- free horizon of the post-commit epilogue (`process_data_freed_pages_after_commit`) -/
def epilogueUntil (s : St) (n : Nat) (horizon : Option Nat) : Nat :=
  match horizon with
  | some h => min (freeUntil s (n + 1)) (h + 1)
  | none => freeUntil s (n + 1)

/-- does the epilogue of commit `n` find anything to free in state `s` (the state after the
commit proper)? -/
def epilogueRuns (s : St) (n : Nat) (horizon : Option Nat) : Bool :=
  !(below (epilogueUntil s n horizon) s.dfreed).isEmpty

def epiRelease (s : St) (fu : Nat) : St :=
  { s with alloc := diff s.alloc (pagesOf (below fu s.dfreed)), dfreed := notBelow fu s.dfreed,
           unproc := dropIds s.unproc (idsOf (below fu s.dfreed)) }

/-- the epilogue publishes the system tree it rewrote as the non-durable commit `n + 1`, which
pins the durable commit `n`; the pages it allocated are unpersisted (and remembered for the next
durable commit to adopt), the pages it made unreachable go to SYSTEM_FREED_TABLE -/
def epiPublish (s : St) (t : Txn) (n : Nat) : St :=
  { s with
    alloc := s.alloc ++ diff t.sys2 s.sys,
    sfreed := s.sfreed ++ tag (n + 1) (diff s.sys t.sys2),
    sys := t.sys2, upages := diff t.sys2 s.sys, pca := diff t.sys2 s.sys,
    lastId := n + 1, nextId := n + 1, pend := [(n + 1, n)],
    unproc := s.unproc ++ (if (diff s.sys t.sys2).isEmpty then [] else [n + 1]) }

def epilogue (s : St) (t : Txn) (n : Nat) (horizon : Option Nat) : St :=
  if epilogueRuns s n horizon then epiPublish (epiRelease s (epilogueUntil s n horizon)) t n else s

/-- the states a durable commit `n` goes through -/
def durableReleased (s : St) (w : W) (t : Txn) (n : Nat) : St :=
  releaseStep (mergeStep (dataStep s w t n)) (freeUntil s n)

def durableCommitted (s : St) (w : W) (t : Txn) (n : Nat) : St :=
  applyStep (publishDurable (dallocStep (durableReleased s w t n) w) w t n) w

def durableCommit (s : St) (w : W) (t : Txn) (n : Nat) : St :=
  if t.epilogue then epilogue (durableCommitted s w t n) t n (spHorizon s.sps w)
  else durableCommitted s w t n

/-- `oldest_live_read_nondurable_transaction().next()` or the committing id -/
def freeUntilND (s : St) (n : Nat) : Nat :=
  match minOpt ((liveIds s).filter (fun i => decide (i ∈ idsOf s.pend))) with
  | some x => x + 1
  | none => n

/-- lower end of the range of records a non-durable commit scans -/
def scanFrom (s : St) (fu : Nat) : Nat :=
  match minOpt s.unproc with
  | some x => x
  | none => fu

def inRange (lo hi t : Nat) : Bool := decide (lo ≤ t) && decide (t < hi)

/-- in-memory data-freed entries a non-durable commit reclaims: in the scanned range and
unpersisted (`process_unpersisted_data_freed` with `free_if_unpersisted`) -/
def hitD (s : St) (lo hi : Nat) (e : Nat × Nat) : Bool := inRange lo hi e.1 && decide (e.2 ∈ s.upages)

/-- SYSTEM_FREED_TABLE entries a non-durable commit reclaims
(`process_freed_pages_nondurable_helper`) -/
def hitS (s : St) (lo hi : Nat) (up : List Nat) (e : Nat × Nat) : Bool :=
  inRange lo hi e.1 && decide (e.1 ∈ s.unproc) && decide (e.2 ∈ up)

/-- `process_freed_pages_nondurable`: unpersisted pages named by records of transactions in the
scanned range are released at once; their allocation records go with them -/
def reclaimStep (s : St) (n : Nat) : St :=
  let fu := freeUntilND s n
  let lo := scanFrom s fu
  let up1 := diff s.upages (pagesOf (s.udfreed.filter (hitD s lo fu)))
  let claimed := pagesOf (s.udfreed.filter (hitD s lo fu)) ++ pagesOf (s.sfreed.filter (hitS s lo fu up1))
  { s with
    alloc := diff s.alloc claimed,
    udfreed := s.udfreed.filter (fun e => !hitD s lo fu e),
    sfreed := s.sfreed.filter (fun e => !hitS s lo fu up1 e),
    upages := diff s.upages claimed,
    pca := diff s.pca claimed,
    ualloc := dropPages s.ualloc claimed,
    unproc := dropIds s.unproc (idsOf (s.udfreed.filter (fun e => inRange lo fu e.1)) ++
      idsOf (s.sfreed.filter (fun e => inRange lo fu e.1 && decide (e.1 ∈ s.unproc)))) }

/-- system tree of a non-durable commit and `TransactionalMemory::non_durable_commit`: lost
system pages that are unpersisted are released right after the commit, the others go to
SYSTEM_FREED_TABLE; the pages the transaction allocated become unpersisted; the commit pins its
durable ancestor -/
def publishND (s : St) (t : Txn) (n : Nat) (gainD : List Nat) (noDataFreed : Bool) : St :=
  let gainS := diff t.sys s.sys
  let lostS := diff s.sys t.sys
  let post := inter lostS s.upages
  let recS := diff lostS s.upages
  { s with
    lastId := n,
    alloc := diff (s.alloc ++ gainS) post,
    sys := t.sys,
    sfreed := s.sfreed ++ tag n recS,
    upages := diff (s.upages ++ gainD ++ gainS) post,
    pca := diff s.pca post,
    pend := s.pend ++ [(n, s.durId)],
    unproc := s.unproc ++ (if noDataFreed && recS.isEmpty then [] else [n]) }

def nonDurableReclaimed (s : St) (w : W) (t : Txn) (n : Nat) : St :=
  reclaimStep (dataStep s w t n) n

def nonDurableCommit (s : St) (w : W) (t : Txn) (n : Nat) : St :=
  applyStep (publishND (nonDurableReclaimed s w t n) t n (dataGain w t) (dataLost w t).isEmpty) w

def commit (s : St) (t : Txn) : St :=
  let s0 := beginWrite s
  let n := s0.nextId
  let sw := runSpOps t.durable s0 t.spOps
  if t.durable then durableCommit sw.1 sw.2 t n else nonDurableCommit sw.1 sw.2 t n

/-! ### the other operations -/

def eraseReader (id : Nat) : List Snap → List Snap
  | [] => []
  | r :: rs => if r.id = id then rs else r :: eraseReader id rs

/-- the in-memory state a fresh `Database` instance builds around the durable image: the volatile
state is gone, the persistent savepoints are registered again, the allocator is the saved one
(clean close, quick-repair) or rebuilt from the roots and the freed tables -/
def recover (i : Image) (repairCommit : Bool) : St :=
  let id := if repairCommit then i.id + 1 else i.id
  let img := if repairCommit then { i with id := id, qr := false } else i
  { nextId := id + 1, lastId := id, durId := id,
    alloc := i.owned, data := i.data, sys := i.sys,
    dfreed := i.dfreed, sfreed := i.sfreed, dalloc := i.dalloc,
    upages := [], ualloc := [], udfreed := [], pca := [],
    readers := [], sps := i.psps, nextSp := i.pspCounter, pspCounter := i.pspCounter,
    pend := [], unproc := [], img := img }

def step (s : St) : Op → St
  | .commit t => commit s t
  | .abort k => { s with nextId := s.nextId + 1, nextSp := s.nextSp + k }
  | .beginRead => { s with readers := s.readers ++ [{ id := s.lastId, pages := s.data }] }
  | .dropReader id => { s with readers := eraseReader id s.readers }
  | .dropSp sid => { s with sps := s.sps.filter (fun sp => !(decide (sp.sid = sid) && !sp.persistent)) }
  | .reopen => recover s.img false
  | .crash => recover s.img (!s.img.qr)

def run (s : St) (ops : List Op) : St := ops.foldl step s

/-- an empty database: nothing allocated, empty trees, commit 0 durable -/
def init : St :=
  { nextId := 0, lastId := 0, durId := 0, alloc := [], data := [], sys := [],
    dfreed := [], sfreed := [], dalloc := [], upages := [], ualloc := [], udfreed := [], pca := [],
    readers := [], sps := [], nextSp := 0, pspCounter := 0, pend := [], unproc := [],
    img := { id := 0, data := [], sys := [], dfreed := [], sfreed := [], dalloc := [], psps := [],
             pspCounter := 0, qr := false } }

/-! ### guard: what the layers around the bookkeeping owe it -/

def disjoint (a b : List Nat) : Bool := a.all (fun p => decide (p ∉ b))
def subset (a b : List Nat) : Bool := a.all (fun p => decide (p ∈ b))

/-- the epilogue of durable commit `n`, if it runs in state `c`, produces a duplicate-free system
tree whose gained pages were free while it was written -/
def epilogueGuard (c : St) (t : Txn) (n : Nat) (h : Option Nat) : Bool :=
  if t.epilogue && epilogueRuns c n h then
    decide t.sys2.Nodup && disjoint (diff t.sys2 t.sys) (epiRelease c (epilogueUntil c n h)).alloc
  else true

/-- pages the system tree gained were free while the durable commit wrote it (after
`process_freed_pages`, which may hand it the pages it just released) -/
def durableGuard (s1 : St) (w : W) (t : Txn) (n : Nat) : Bool :=
  disjoint (diff t.sys s1.sys) (durableReleased s1 w t n).alloc &&
  epilogueGuard (durableCommitted s1 w t n) t n (spHorizon s1.sps w)

def nonDurableGuard (s1 : St) (w : W) (t : Txn) (n : Nat) : Bool :=
  !t.qr && disjoint (diff t.sys s1.sys) (nonDurableReclaimed s1 w t n).alloc

/-- well-formedness of a committing write transaction: the savepoint operations were accepted,
the new trees are duplicate-free lists, and every page a tree gained was free in the allocator at
the time the commit wrote that tree -/
def commitGuard (s : St) (t : Txn) : Bool :=
  let s0 := beginWrite s
  let n := s0.nextId
  let sw := runSpOps t.durable s0 t.spOps
  let s1 := sw.1
  let w := sw.2
  w.ok && decide t.data.Nodup && decide t.sys.Nodup &&
  -- pages the data tree gained were free when the transaction allocated them
  disjoint (dataGain w t) s1.alloc &&
  -- only a quick-repair commit records lost system pages before it is durable
  subset t.sysRec (diff s1.sys t.sys) && decide t.sysRec.Nodup && (t.qr || t.sysRec.isEmpty) &&
  (if t.durable then durableGuard s1 w t n else nonDurableGuard s1 w t n)

def guardB (s : St) : Op → Bool
  | .commit t => commitGuard s t
  | .abort _ => true
  | .beginRead => true
  | .dropReader id => s.readers.any (fun r => decide (r.id = id))
  | .dropSp sid => s.sps.any (fun sp => decide (sp.sid = sid) && !sp.persistent)
  -- a `Database` can only be dropped / lost when no reader or ephemeral savepoint borrows it; the
  -- clean close additionally made its (quick-repair, epilogue-free) commit the last one
  | .reopen => s.readers.isEmpty && s.sps.all (·.persistent) && s.img.qr && decide (s.lastId = s.durId)
  | .crash => s.readers.isEmpty && s.sps.all (·.persistent)

def guard (s : St) (op : Op) : Prop := guardB s op = true

instance (s : St) (op : Op) : Decidable (guard s op) := by unfold guard; infer_instance

/-- every operation of the list is enabled when it is applied -/
def guardAll : St → List Op → Bool
  | _, [] => true
  | s, op :: ops => guardB s op && guardAll (step s op) ops

end Redb.Life2
