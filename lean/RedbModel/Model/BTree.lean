import RedbModel.Model.Spec
/-
Abstract B+tree as stored by redb (docs/design.md, btree_base.rs): leaves hold sorted
(key, value) pairs, branches hold n+1 children and n routing keys; key i is ≥ every key of
child i and < every key of child i+1 (it may be a shortened separator, i.e. need not be a key
that is present). `lookup` routes the way `BranchAccessor::child_for_key` does; `wf` is the
executable well-formedness check that the driver runs on trees decoded from real images.
-/
namespace Redb.BTree
open Redb.Key Redb.Spec

inductive Tree where
  | leaf (entries : List Entry)
  | branch (children : List Tree) (keys : List Bytes)
deriving Repr, Inhabited

mutual
def flatten : Tree → List Entry
  | .leaf es => es
  | .branch cs _ => flattenList cs
def flattenList : List Tree → List Entry
  | [] => []
  | c :: cs => flatten c ++ flattenList cs
end

/-- `child_for_key`: the first routing key that is ≥ the query selects the child; otherwise the
last child. (The Rust code finds the same index by binary search.) -/
def childIndex (t : KT) : List Bytes → Bytes → Nat
  | [], _ => 0
  | s :: rest, k => if cmp t k s != .gt then 0 else childIndex t rest k + 1

mutual
def lookup (t : KT) : Tree → Bytes → Option Bytes
  | .leaf es, k => Spec.get t es k
  | .branch cs keys, k => lookupNth t cs (childIndex t keys k) k
def lookupNth (t : KT) : List Tree → Nat → Bytes → Option Bytes
  | [], _, _ => none
  | c :: _, 0, k => lookup t c k
  | _ :: cs, n + 1, k => lookupNth t cs n k
end

/-- `lo < k` when a lower bound is present -/
def aboveLo (t : KT) (lo : Option Bytes) (k : Bytes) : Bool :=
  match lo with
  | none => true
  | some l => cmp t l k == .lt

/-- `k ≤ hi` when an upper bound is present -/
def belowHi (t : KT) (hi : Option Bytes) (k : Bytes) : Bool :=
  match hi with
  | none => true
  | some h => cmp t k h != .gt

/-- keys strictly increasing, valid, inside (lo, hi] -/
def keysOk (t : KT) (lo hi : Option Bytes) : List Bytes → Bool
  | [] => true
  | k :: rest => valid t k && aboveLo t lo k && belowHi t hi k && keysOk t (some k) hi rest

mutual
/-- well-formed subtree of height `depth` whose keys all lie in (lo, hi] -/
def wf (t : KT) (lo hi : Option Bytes) : Nat → Tree → Bool
  | 0, .leaf es => !es.isEmpty && keysOk t lo hi (es.map (·.1))
  | d + 1, .branch cs keys =>
    !keys.isEmpty && cs.length == keys.length + 1 && keysOk t lo hi keys && wfChildren t lo hi d cs keys
  | _, _ => false
/-- child i lies in (key i-1, key i], the last one in (last key, hi] -/
def wfChildren (t : KT) (lo hi : Option Bytes) (d : Nat) : List Tree → List Bytes → Bool
  | [c], [] => wf t lo hi d c
  | c :: cs, s :: rest => wf t lo (some s) d c && wfChildren t (some s) hi d cs rest
  | _, _ => false
end

/-- number of entries -/
def count (tr : Tree) : Nat := (flatten tr).length

end Redb.BTree
