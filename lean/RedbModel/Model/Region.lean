import RedbModel.Model.Buddy
/-!
Model of the REGION level of redb's page allocator
(`src/tree_store/page_store/region.rs`: `RegionTracker`, `Allocators`, `Allocators::resize_to`;
`src/tree_store/page_store/page_manager.rs`: `allocate_helper(_retry)`, `free_helper`, `grow`,
`try_shrink`, `load_allocator_state`, `reset_allocator_state`, `mark_page_allocated`;
`layout.rs`: `DatabaseLayout`). Import-free except for the buddy model; executable.

* One region = one `Redb.Buddy.Buddy`.
* Tracker: `tracker[o][r] = true` means "region `r` is reported FULL for order `o`"
  (the Rust `BtreeBitmap` per order stores exactly this bit; a bit beyond the length of the
  bitmap reads as set, like the padding of the Rust words). `find_free(o)` is the first unset bit
  of row `o`; the 64-way summary levels are an index over that row.
* Sizes are counted in pages (every byte quantity of `grow` / `DatabaseLayout` is a multiple of
  the page size, so the factor cancels).
* `Option` results: `none` = the Rust code would panic at that point (index out of bounds,
  `unwrap()` on `None`, a failing `assert!`), or the request cannot be constructed at all
  (a layout that `RegionLayout::new` / `calculate` reject).
-/
namespace Redb.Region
open Redb.Buddy

/-- `MAX_MAX_PAGE_ORDER + 1`: number of per-order bitmaps of the tracker -/
def nOrders : Nat := maxMaxOrder + 1
/-- `INITIAL_REGIONS` -/
def initialRegions : Nat := 1000

/-! ### `DatabaseLayout` (in pages) -/

structure Layout where
  /-- `num_full_regions` -/
  numFull : Nat
  /-- `trailing_partial_region` (its `num_pages`) -/
  trailing : Option Nat
deriving Repr, DecidableEq

def Layout.numRegions (l : Layout) : Nat := if l.trailing.isSome then l.numFull + 1 else l.numFull

/-- `region_layout(i).num_pages()` -/
def Layout.regionPages (cap : Nat) (l : Layout) (i : Nat) : Nat :=
  if i = l.numFull then l.trailing.getD cap else cap

/-- `trailing_region_layout().unwrap_or_else(full_region_layout).num_pages()` -/
def Layout.lastPages (cap : Nat) (l : Layout) : Nat := l.trailing.getD cap

/-- `usable_bytes()` in pages -/
def Layout.usable (cap : Nat) (l : Layout) : Nat := l.numFull * cap + l.trailing.getD 0

/-- what the constructors of `RegionLayout` / `DatabaseLayout` guarantee: a region has at least
one page and at most `cap`; `cap > 0` -/
def Layout.wf (cap : Nat) (l : Layout) : Bool :=
  decide (0 < cap) && (match l.trailing with | none => true | some t => decide (0 < t) && decide (t ≤ cap))

/-- `DatabaseLayout::calculate(desired_usable_bytes, page_capacity, ..)` -/
def Layout.calculate (cap desired : Nat) : Layout :=
  if desired ≤ cap then { numFull := 0, trailing := some desired }
  else { numFull := desired / cap, trailing := if desired % cap > 0 then some (desired % cap) else none }

/-- `DatabaseLayout::reduce_last_region(pages)` -/
def Layout.reduceLast (cap : Nat) (l : Layout) (pages : Nat) : Layout :=
  match l.trailing with
  | some t => if t - pages = 0 then { l with trailing := none } else { l with trailing := some (t - pages) }
  | none =>
    if cap > pages then { numFull := l.numFull - 1, trailing := some (cap - pages) }
    else { numFull := l.numFull - 1, trailing := none }

/-! ### `RegionTracker` -/

/-- `RegionTracker::new(regions, orders)`: everything full -/
def trkNew (regions orders : Nat) : List Bits := List.replicate orders (List.replicate regions true)

/-- `find_free(order)` -/
def findFree (t : List Bits) (o : Nat) : Option Nat := firstUnset (t.getD o [])

/-- `mark_free(order, region)`: `for i in 0..=order { order_trackers[i].clear(region) }` -/
def markFree (t : List Bits) (o r : Nat) : List Bits :=
  t.mapIdx (fun i row => if i ≤ o then row.set r false else row)

/-- `mark_full(order, region)`: `for i in order..len { order_trackers[i].set(region) }` -/
def markFull (t : List Bits) (o r : Nat) : List Bits :=
  t.mapIdx (fun i row => if o ≤ i then row.set r true else row)

/-- `RegionTracker::len()`: the length of the bitmap of order 0 -/
def trkLen (t : List Bits) : Nat := lenAt t 0

/-- `RegionTracker::resize(new_capacity)`: every bitmap `resize(new_capacity, full = true)` -/
def trkResize (t : List Bits) (n : Nat) : List Bits := t.map (fun row => resizeBits row n)

/-! ### `Allocators` + the layout of the header -/

structure St where
  /-- `region_allocators` -/
  regions : List Buddy
  /-- `region_tracker` -/
  tracker : List Bits
  /-- `full_region_layout().num_pages()` -/
  cap : Nat
  /-- `header.layout()` -/
  layout : Layout
deriving Repr, DecidableEq

/-- `Allocators::new(layout)` with an explicit number of initial tracker bits
(`INITIAL_REGIONS` in the code) -/
def newWith (initRegions cap : Nat) (l : Layout) : St :=
  let n := l.numRegions
  let t0 := trkNew (max initRegions n) nOrders
  let r := (List.range n).foldl (fun (acc : List Buddy × List Bits) i =>
      let a := Buddy.new (l.regionPages cap i) cap
      (acc.1 ++ [a], markFree acc.2 a.maxOrder i)) ([], t0)
  { regions := r.1, tracker := r.2, cap := cap, layout := l }

/-- `Allocators::new(layout)` -/
def St.new (cap : Nat) (l : Layout) : St := newWith initialRegions cap l

/-! ### `Allocators::resize_to` -/

/-- the shrink branch: mark dropped regions full, drain them, trim the new last region -/
def shrinkPath (s : St) (nl : Layout) : Option St :=
  let n := nl.numRegions
  let t := (List.range' n (s.regions.length - n)).foldl (fun t i => markFull t 0 i) s.tracker
  let rs := s.regions.take n
  match rs.getLast? with
  | none => none                                   -- `last_mut().unwrap()`
  | some a =>
    if a.len > nl.lastPages s.cap then
      match a.resize (nl.lastPages s.cap) with
      | none => none                               -- an `assert!` of `BuddyAllocator::resize`
      | some a' => some { s with tracker := t, regions := rs.set (rs.length - 1) a' }
    else some { s with tracker := t, regions := rs }

/-- one iteration `i` of the loop of the grow branch -/
def growStep (cap : Nat) (nl : Layout) (oldN : Nat) (acc : Option (List Buddy × List Bits)) (i : Nat) :
    Option (List Buddy × List Bits) :=
  match acc with
  | none => none
  | some (rs, t) =>
    let np := nl.regionPages cap i
    if i < oldN then
      match rs[i]? with
      | none => none
      | some a =>
        if np < a.len then none                      -- `assert!(new_region.num_pages() >= allocator.len())`
        else if np ≠ a.len then
          match a.resize np with
          | none => none
          | some a' =>
            match a'.highestFreeOrder with
            | none => none                           -- `highest_free_order().unwrap()`
            | some h => some (rs.set i a', markFree t h i)
        else some (rs, t)
    else
      let a := Buddy.new np cap
      match a.highestFreeOrder with
      | none => none
      | some h =>
        let t' := if i ≥ trkLen t then trkResize t (i + 1) else t
        some (rs ++ [a], markFree t' h i)

def growPath (s : St) (nl : Layout) : Option St :=
  match (List.range nl.numRegions).foldl (growStep s.cap nl s.regions.length) (some (s.regions, s.tracker)) with
  | none => none
  | some (rs, t) => some { s with regions := rs, tracker := t }

/-- `Allocators::resize_to(new_layout)` (does not touch the header's layout) -/
def resizeTo (s : St) (nl : Layout) : Option St :=
  if !nl.wf s.cap then none else
  let n := nl.numRegions
  if n < s.regions.length then shrinkPath s nl
  else if n = s.regions.length then
    match s.regions.getLast? with
    | none => none                                 -- `last().unwrap()`
    | some a =>
      if nl.lastPages s.cap < a.len then shrinkPath s nl
      else if nl.lastPages s.cap = a.len then some s
      else growPath s nl
  else growPath s nl

/-! ### `TransactionalMemory`: allocate / free / grow / try_shrink / load / repair -/

/-- `allocate_helper_retry`: `find_free` → try that region → `mark_full` and look again.
`some (s', none)` = `Ok(None)` (nothing found; the tracker may have been updated).
The fuel bounds the number of iterations by the number of bits of the row (+1); every failed
iteration sets a bit that was clear. -/
def retry (lowest : Bool) (o : Nat) : Nat → St → Option (St × Option (Nat × Nat))
  | 0, _ => none
  | fuel + 1, s =>
    if o ≥ s.tracker.length then none else          -- `order_trackers[order]`
    match findFree s.tracker o with
    | none => some (s, none)
    | some r =>
      match s.regions[r]? with
      | none => none                                 -- `region_allocators[candidate_region]`
      | some b =>
        match (if lowest then b.allocLowest o else b.alloc o) with
        | some (p, b') => some ({ s with regions := s.regions.set r b' }, some (r, p))
        | none => retry lowest o fuel { s with tracker := markFull s.tracker o r }

/-- `allocate_helper_retry` from the current state -/
def allocNoGrow (s : St) (o : Nat) (lowest : Bool) : Option (St × Option (Nat × Nat)) :=
  retry lowest o (lenAt s.tracker o + 1) s

/-- the layout `grow` asks for -/
def growLayout (cap : Nat) (l : Layout) (o : Nat) : Layout :=
  let req := 2 ^ o
  let usable := l.usable cap
  let next :=
    if l.numFull > 0 then
      match l.trailing with
      | some t => if 2 * req < cap - t then usable + (cap - t) else usable + 2 * cap - t
      | none => usable + cap
    else max (usable * 2) (usable + req * 2)
  Layout.calculate cap next

/-- `grow(state, required_order)` (the storage is assumed to accept the new length) -/
def grow (s : St) (o : Nat) : Option St :=
  match resizeTo s (growLayout s.cap s.layout o) with
  | none => none
  | some s' => some { s' with layout := growLayout s.cap s.layout o }

/-- `allocate_helper`: region index and page index of the block of order `o` handed out -/
def allocate (s : St) (o : Nat) (lowest : Bool) : Option (St × Nat × Nat) :=
  match allocNoGrow s o lowest with
  | none => none
  | some (s1, some (r, p)) => some (s1, r, p)
  | some (s1, none) =>
    match grow s1 o with
    | none => none
    | some s2 =>
      match allocNoGrow s2 o lowest with
      | some (s3, some (r, p)) => some (s3, r, p)
      | _ => none                                    -- `.unwrap()`

/-- `free_helper`: free in the region, then `mark_free(merged order, region)` -/
def free (s : St) (r p o : Nat) : Option St :=
  match s.regions[r]? with
  | none => none
  | some b =>
    some { s with regions := s.regions.set r (b.freeBlock p o).1,
                  tracker := markFree s.tracker (b.freeBlock p o).2 r }

/-- `try_shrink(state, force)`; the Boolean is its result -/
def tryShrink (s : St) (force : Bool) : Option (St × Bool) :=
  let l := s.layout
  match s.regions[l.numRegions - 1]? with
  | none => none
  | some a =>
    let tf := a.trailingFree
    if tf = 0 then some (s, false)
    else if tf < a.len / 2 && !force then some (s, false)
    else
      let reduceBy :=
        if l.numRegions > 1 && tf = a.len then tf
        else if force then min (a.len - 1) tf
        else tf / 2
      match resizeTo s (l.reduceLast s.cap reduceBy) with
      | none => none
      | some s' => some ({ s' with layout := l.reduceLast s.cap reduceBy }, true)

/-- `load_allocator_state`: saved allocators and tracker, then `resize_to(header.layout())` -/
def load (s : St) (saved : List Buddy × List Bits) (l : Layout) : Option St :=
  match resizeTo { s with regions := saved.1, tracker := saved.2 } l with
  | none => none
  | some s' => some { s' with layout := l }

/-- `mark_page_allocated` (rebuilding the state during repair): `record_alloc` in the region,
the tracker is not touched -/
def recordAlloc (s : St) (r p o : Nat) : Option St :=
  match s.regions[r]? with
  | none => none
  | some b =>
    match b.recordAlloc p o with
    | none => none
    | some b' => some { s with regions := s.regions.set r b' }

/-! ### checkable form of the invariant (evaluated by the driver on decoded snapshots) -/

/-- block `i` of order `o` is free at this order (a missing bit reads as "not free") -/
def isFreeAt (f : List Bits) (o i : Nat) : Bool := !getBit f o i

/-- indices of the clear bits of a row -/
def freeIdxs (bs : Bits) : List Nat := bs.zipIdx.filterMap (fun x => if x.1 then none else some x.2)

/-- `Redb.Buddy.Inv` as a Boolean -/
def invB (mo len : Nat) (f : List Bits) : Bool :=
  f.length == mo + 1 &&
  (List.range (mo + 1)).all (fun o => lenAt f o == len / 2 ^ o) &&
  (List.range (mo + 1)).all (fun o => (freeIdxs (f.getD o [])).all (fun i =>
    (List.range' (o + 1) (mo - o)).all (fun o2 => !isFreeAt f o2 (i / 2 ^ (o2 - o))) &&
    (o == mo || !isFreeAt f o (i ^^^ 1))))

inductive Violation where
  /-- the tracker does not have `nOrders` bitmaps of one common length ≥ number of regions -/
  | shape
  /-- clause 3: the allocator of region `r` violates the buddy invariant -/
  | buddy (r : Nat)
  /-- clause 1: region `r` has a free block of order ≥ `o` but is reported full for `o` -/
  | hides (r o : Nat)
  /-- clause 2: index `r` is not a region, but is reported to have room for order `o` -/
  | ghost (r o : Nat)
deriving Repr, DecidableEq

def shapeOk (s : St) : Bool :=
  s.tracker.length == nOrders && s.tracker.all (fun row => row.length == trkLen s.tracker) &&
  decide (s.regions.length ≤ trkLen s.tracker)

def buddyOk (b : Buddy) : Bool := decide (b.maxOrder < nOrders) && invB b.maxOrder b.len b.free

/-- first order at which region `r` (allocator `b`) is hidden -/
def hiddenAt (t : List Bits) (r : Nat) (b : Buddy) : Option Nat :=
  match b.highestFreeOrder with
  | none => none
  | some h => (List.range (h + 1)).find? (fun o => getBit t o r)

/-- first clear bit at an index `≥ n` in some row: `(index, order)` -/
def ghostAt (t : List Bits) (n : Nat) : Option (Nat × Nat) :=
  (List.range t.length).findSome? (fun o =>
    match ((t.getD o []).drop n).findIdx? (fun b => !b) with
    | none => none
    | some j => some (n + j, o))

def firstViolation (s : St) : Option Violation :=
  if !shapeOk s then some .shape else
  match s.regions.findIdx? (fun b => !buddyOk b) with
  | some r => some (.buddy r)
  | none =>
    match s.regions.zipIdx.findSome? (fun x => (hiddenAt s.tracker x.2 x.1).map (fun o => (x.2, o))) with
    | some (r, o) => some (.hides r o)
    | none =>
      match ghostAt s.tracker s.regions.length with
      | some (r, o) => some (.ghost r o)
      | none => none

/-! ### operation sequences -/

/-- page `q` lies in a free block of some order -/
def pageFreeB (b : Buddy) (q : Nat) : Bool :=
  (List.range (b.maxOrder + 1)).any (fun k => isFreeAt b.free k (q / 2 ^ k))

/-- the client contract of `free`: the block is in range and none of its pages is free -/
def heldB (b : Buddy) (p o : Nat) : Bool :=
  decide (o ≤ b.maxOrder) && decide ((p + 1) * 2 ^ o ≤ b.len) &&
  (List.range (2 ^ o)).all (fun j => !pageFreeB b (p * 2 ^ o + j))

/-- in-memory state + the allocator state table on disk (what `try_save_allocator_state` wrote) -/
structure Db where
  mem : St
  disk : Option (List Buddy × List Bits)
deriving Repr, DecidableEq

inductive Op where
  | alloc (o : Nat) (lowest : Bool)
  | free (r p o : Nat)
  | resizeTo (l : Layout)
  | grow (o : Nat)
  | tryShrink (force : Bool)
  | save
  | load (l : Layout)
  | reset (l : Layout)
  | recordAlloc (r p o : Nat)
deriving Repr, DecidableEq

def Db.init (cap : Nat) (l : Layout) : Db := { mem := St.new cap l, disk := none }

/-- `none` = the operation is outside the client contract or the code would panic -/
def step (d : Db) : Op → Option Db
  | .alloc o lowest => (allocate d.mem o lowest).map (fun x => { d with mem := x.1 })
  | .free r p o =>
    match d.mem.regions[r]? with
    | none => none
    | some b => if heldB b p o then (free d.mem r p o).map (fun m => { d with mem := m }) else none
  | .resizeTo l => (resizeTo d.mem l).map (fun m => { d with mem := { m with layout := l } })
  | .grow o => (grow d.mem o).map (fun m => { d with mem := m })
  | .tryShrink force => (tryShrink d.mem force).map (fun x => { d with mem := x.1 })
  | .save => some { d with disk := some (d.mem.regions, d.mem.tracker) }
  | .load l =>
    match d.disk with
    | none => none
    | some sv => (load d.mem sv l).map (fun m => { d with mem := m })
  | .reset l => if l.wf d.mem.cap then some { d with mem := St.new d.mem.cap l } else none
  | .recordAlloc r p o => (recordAlloc d.mem r p o).map (fun m => { d with mem := m })

def run (d : Db) : List Op → Option Db
  | [] => some d
  | op :: ops => match step d op with
    | none => none
    | some d' => run d' ops

/-! ### decoding `RegionTracker::to_vec` -/

def byteBits (b : UInt8) : List Bool := (List.range 8).map (fun i => b.toNat.testBit i)

/-- the first `n` bits of a little-endian bit string (linear time) -/
def bitsOfBytesLin (d : List UInt8) (n : Nat) : Bits := ((d.take ((n + 7) / 8)).flatMap byteBits).take n

/-- leaf level of a serialized `BtreeBitmap` (as `Redb.Buddy.bitmapLeafOfBytes`, linear time) -/
def bitmapLeaf (d : List UInt8) : Bits :=
  let height := rdU32 d 0
  if height = 0 then [] else
  let dataStart := if height = 1 then 4 + 4 * height else rdU32 d (4 + 4 * (height - 2))
  bitsOfBytesLin (d.drop (dataStart + 4)) (rdU32 d dataStart)

/-- `RegionTracker::from_bytes`: `num_orders: u32`, `allocator_lens: [u32]`, then the bitmaps -/
def trackerFromBytes (d : List UInt8) : List Bits :=
  let orders := rdU32 d 0
  let lens := (List.range orders).map (fun i => rdU32 d (4 + 4 * i))
  (lens.foldl (fun (acc : List Bits × List UInt8) n => (bitmapLeaf (acc.2.take n) :: acc.1, acc.2.drop n))
    ([], d.drop (4 + 4 * orders))).1.reverse

/-- `RegionTracker::to_vec` for bitmaps of height `height` (4 for `MAX_REGIONS = 2^20`) -/
def trackerToBytes (t : List Bits) (height : Nat) : List UInt8 :=
  let ser := t.map (fun row => bitmapToBytes row height)
  u32le t.length ++ (ser.map (fun d => u32le d.length)).flatten ++ ser.flatten

end Redb.Region
