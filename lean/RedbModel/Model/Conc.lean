/-!
# Interleaving model of redb's transaction protocol (properties C03 and C16)

Import-free, executable, total.

## Part 1 — the protocol (C03)

What is modelled (src/transaction_tracker.rs, src/db.rs, src/transactions.rs, page_manager.rs):

* `TransactionTracker::start_write_transaction` / `end_write_transaction`: the write slot
  (`live_write_transaction`, guarded by the tracker mutex + condvar)  ⇒ `acquire` / `release`.
* `TransactionalMemory::{commit, non_durable_commit}`: the swap of `state.header` under the state
  lock is the one action that makes a new root visible                      ⇒ `publish`.
* `Database::begin_read`: `register_read_transaction` (under the tracker lock reads the latest
  committed id and pins it) and the read of the data root                    ⇒ `register` ; `readRoot`.
  Until the repair of finding F10 the root was read separately, later, by `ReadTransaction::new`
  (a commit could be published in between); since the repair id and root are read under one
  acquisition of the state lock inside the registration. The model keeps the two actions and
  allows a publish between them - a superset of what the code does; `c03_atomic_begin_read` is
  the statement for adjacent actions.
* dropping a `ReadTransaction` (`deallocate_read_transaction`)               ⇒ `drop`.
* a write transaction that is aborted (or dropped) releases the slot without ever swapping the
  state: its version is recorded as aborted                                  ⇒ `release` from `body`.

System state: the log of versions in the order in which their fate was decided (newest first),
each with status committed (`true`, = published) or aborted (`false`); the write slot; the next
version; one program counter per thread. Version `0` is the empty database and is committed in
the initial state. Threads are natural numbers — there is no bound on their number.
-/
namespace Redb.Conc

/-- thread ids and versions are natural numbers (notations, so that `omega` sees `Nat`) -/
scoped notation "Tid" => Nat
@[inherit_doc] scoped notation "Ver" => Nat

/-- program counter of a thread: which atomic action of which call comes next -/
inductive PC where
  | idle                          -- between calls
  | registered (pin : Ver)        -- reader: pinned `pin`, root not read yet
  | reading (pin root : Ver)      -- reader: has its root; all its reads see `root`
  | holding                       -- writer: owns the slot, nothing written
  | body (v : Ver)                -- writer: owns the slot, wrote (uncommitted) version `v` to every table
  | published (v : Ver)           -- writer: owns the slot, `v` has been published
deriving DecidableEq, Repr

def PC.holdsSlot : PC → Bool
  | .holding | .body _ | .published _ => true
  | _ => false

/-- the atomic actions, with the value the acting thread observes / produces as payload -/
inductive Act where
  | register (pin : Ver)      -- read the latest committed id and pin it (one critical section)
  | readRoot (root : Ver)     -- read the latest published root
  | read (v : Ver)            -- read all tables through the root: observes version `v`
  | drop                      -- unregister the reader
  | acquire                   -- take the write slot (enabled iff free)
  | body (v : Ver)            -- write version `v` to every table (private, copy-on-write)
  | publish (v : Ver)         -- the state swap
  | release                   -- give the slot back (after publish: end of commit; before: abort)
deriving DecidableEq, Repr

structure Action where
  tid : Tid
  act : Act
deriving DecidableEq, Repr

structure Sys where
  /-- newest first; `(v, true)` committed = published, `(v, false)` aborted -/
  log : List (Ver × Bool)
  slot : Option Tid
  nextVer : Ver
  pc : Tid → PC

/-- the newest committed version of a log -/
def latest : List (Ver × Bool) → Ver
  | [] => 0
  | (v, true) :: _ => v
  | (_, false) :: l => latest l

def setPc (f : Tid → PC) (t : Tid) (p : PC) : Tid → PC := fun u => if u = t then p else f u

/-- the small-step function: `none` = the action is not enabled -/
def step (s : Sys) (a : Action) : Option Sys :=
  match a.act, s.pc a.tid with
  | .register p, .idle =>
    if p = latest s.log then some { s with pc := setPc s.pc a.tid (.registered p) } else none
  | .readRoot r, .registered p =>
    if r = latest s.log then some { s with pc := setPc s.pc a.tid (.reading p r) } else none
  | .read v, .reading _ r => if v = r then some s else none
  | .drop, .reading _ _ => some { s with pc := setPc s.pc a.tid .idle }
  | .acquire, .idle =>
    if s.slot = none then some { s with slot := some a.tid, pc := setPc s.pc a.tid .holding }
    else none
  | .body v, .holding =>
    if v = s.nextVer then some { s with nextVer := v + 1, pc := setPc s.pc a.tid (.body v) }
    else none
  | .publish v, .body w =>
    if v = w then some { s with log := (v, true) :: s.log, pc := setPc s.pc a.tid (.published v) }
    else none
  | .release, .holding => some { s with slot := none, pc := setPc s.pc a.tid .idle }
  | .release, .body v =>
    some { s with slot := none, log := (v, false) :: s.log, pc := setPc s.pc a.tid .idle }
  | .release, .published _ => some { s with slot := none, pc := setPc s.pc a.tid .idle }
  | _, _ => none

/-- the small-step relation -/
def Step (s : Sys) (a : Action) (s' : Sys) : Prop := step s a = some s'

/-- executions: `Exec s tr s'` — running the actions `tr` one after the other leads from `s` to `s'` -/
inductive Exec : Sys → List Action → Sys → Prop where
  | nil (s : Sys) : Exec s [] s
  | cons {s s' s'' : Sys} {a : Action} {tr : List Action} :
      Step s a s' → Exec s' tr s'' → Exec s (a :: tr) s''

/-- executable version of `Exec` -/
def exec (s : Sys) : List Action → Option Sys
  | [] => some s
  | a :: tr => match step s a with
    | some s' => exec s' tr
    | none => none

def init : Sys := { log := [(0, true)], slot := none, nextVer := 1, pc := fun _ => .idle }

inductive Reachable : Sys → Prop where
  | init : Reachable init
  | step {s s' : Sys} {a : Action} : Reachable s → Step s a s' → Reachable s'

/-- committed versions, newest first -/
def committed (l : List (Ver × Bool)) : List Ver := (l.filter (·.2)).map (·.1)

/-- versions published by a trace, in the order of the `publish` actions -/
def pubs : List Action → List Ver
  | [] => []
  | ⟨_, .publish v⟩ :: tr => v :: pubs tr
  | _ :: tr => pubs tr

/-! ## Part 2 — the `tables` lock of a write transaction (C16)

`TableNamespace::set_dirty` and `WriteTransaction::ephemeral_savepoint` both run under the
`tables` mutex, so each is one atomic action of this model. `Locked` has the two atomic actions;
`Unlocked` splits `ephemeral_savepoint` into its check and its registration. -/
namespace Tables

structure St where
  dirty : Bool := false
  trackingOn : Bool := true
  savepointExists : Bool := false
  /-- only used by the unlocked variant: a thread has passed the `dirty` check of
  `ephemeral_savepoint` and is about to register the savepoint -/
  checked : Bool := false
deriving DecidableEq, Repr

def init : St := {}

inductive Op where
  | setDirty              -- first table open: dirty := true; no savepoint ⇒ tracking off
  | ephemeralSavepoint    -- dirty ⇒ refuse, else register the savepoint
deriving DecidableEq, Repr

def step (s : St) : Op → St
  | .setDirty => { s with dirty := true, trackingOn := if s.savepointExists then s.trackingOn else false }
  | .ephemeralSavepoint => if s.dirty then s else { s with savepointExists := true }

def run (s : St) (ops : List Op) : St := ops.foldl step s

/-- The public calls of a write transaction that go through the `tables` lock. Every call that
hands out a table or changes the catalog runs `TableNamespace::set_dirty` (transactions.rs:
`open_table`, `open_multimap_table`, `rename_table`, `rename_multimap_table`, `delete_table`,
`delete_multimap_table`); the correspondence run parks and orders each of them against
`ephemeral_savepoint` (harness/src/mt.rs, `Dirtier`). -/
inductive Call where
  | openTable | openMultimapTable | deleteTable | renameTable | deleteMultimapTable | renameMultimapTable
  | ephemeralSavepoint
deriving DecidableEq, Repr

def Call.op : Call → Op
  | .ephemeralSavepoint => .ephemeralSavepoint
  | _ => .setDirty

def Call.dirtying (c : Call) : Bool := c != .ephemeralSavepoint

def Call.ofName (n : String) : Option Call :=
  if n = "open_table" then some .openTable
  else if n = "open_multimap_table" then some .openMultimapTable
  else if n = "delete_table" then some .deleteTable
  else if n = "rename_table" then some .renameTable
  else if n = "delete_multimap_table" then some .deleteMultimapTable
  else if n = "rename_multimap_table" then some .renameMultimapTable
  else if n = "ephemeral_savepoint" then some .ephemeralSavepoint
  else none

def runCalls (s : St) (cs : List Call) : St := run s (cs.map Call.op)

/-- without the lock: check and registration are separately schedulable -/
inductive UOp where
  | setDirty
  | spCheck       -- `if dirty { return Err }`
  | spRegister    -- `allocate_savepoint()`; only after a successful check
deriving DecidableEq, Repr

def ustep (s : St) : UOp → St
  | .setDirty => { s with dirty := true, trackingOn := if s.savepointExists then s.trackingOn else false }
  | .spCheck => if s.dirty then s else { s with checked := true }
  | .spRegister => if s.checked then { s with savepointExists := true, checked := false } else s

def urun (s : St) (ops : List UOp) : St := ops.foldl ustep s

end Tables

/-! ## Part 3 — the monitor: "the event stream of a schedule is a trace of the model"

The harness cannot observe the atomic actions themselves, only points before and after them:
every model action of a thread lies in a WINDOW delimited by two of its events

    register   ∈ (read-begin,                    at begin_read.registered)
    readRoot   ∈ (register,                      at begin_read.registered)
    drop       ∈ (at guard.drop_read,            …)
    acquire    ∈ (write-begin,                   write-started | first pause point of the writer)
    body v     =  write-started version=v        (private to the writer: placed at the event)
    publish    ∈ (mem.commit.before_swap | nondurable.before_publish,
                  durable.after_commit | nondurable.after_publish)
    release    ∈ (at write.drop,                 write-end)

The monitor keeps the set of all model states (`Cand`) that some placement of the hidden actions
inside their windows can have produced; an event opens a window (`win t := some kind`) or demands
that the action of the window has been taken (a condition on the thread's program counter), which
filters the set. The stream is accepted iff the set never becomes empty: then, and only then, the
stream is the projection of an execution of the model. Nothing is checked by ad-hoc rules: floor,
"possibly visible", "certainly visible" are all consequences of the windows. -/

inductive Point where
  | beginReadRegistered | setDirty
  | durableHorizon | durableFreed | durableBeforeCommit | memBetweenHeaders | memBeforeSwap
  | durableAfterCommit | durableBeforeEpilogue | epilogueHorizon
  | ndHorizon | ndBeforePublish | ndAfterPublish
  | spEnter | spChecked | spDrop
  | guardDropRead | writeDrop | dbDrop
deriving DecidableEq, Repr

inductive WEnd where
  | committed (v : Ver) | aborted (v : Ver) | noChange | error
deriving DecidableEq, Repr

inductive Event where
  | readBegin (t : Tid) (floor : Ver)
  | at (t : Tid) (p : Point)
  | readEnd (t : Tid) (v v2 ceiling : Ver) (consistent : Bool)
  | readError (t : Tid)
  | writeBegin (t : Tid)
  | writeStarted (t : Tid) (v : Ver)
  | writeEnd (t : Tid) (e : WEnd)
  | dropReader (t : Tid) (pinned : Ver)
  | ctlRelease (secondBlocked : Bool)
deriving DecidableEq, Repr

/-- the hidden actions, without payload (the payload is determined by the state) -/
inductive Kind where
  | register | readRoot | drop | acquire | publish | release
deriving DecidableEq, Repr

def actOf (s : Sys) (t : Tid) : Kind → Option Act
  | .register => some (.register (latest s.log))
  | .readRoot => some (.readRoot (latest s.log))
  | .drop => some .drop
  | .acquire => some .acquire
  | .publish => match s.pc t with
    | .body v => some (.publish v)
    | _ => none
  | .release => some .release

/-- thread `t` takes its hidden action of kind `k`, if enabled -/
def fire (s : Sys) (t : Tid) (k : Kind) : Option Sys :=
  match actOf s t k with
  | some a => step s ⟨t, a⟩
  | none => none

/-- one candidate: a model state and, per thread, the hidden action whose window is open -/
structure Cand where
  sys : Sys
  win : Tid → Option Kind

def setWin (f : Tid → Option Kind) (t : Tid) (k : Option Kind) : Tid → Option Kind :=
  fun u => if u = t then k else f u

/-- threads of a schedule: 0 = the reader pinned during set-up, 1 = T1, 2 = T2, 3 = set-up writer -/
def threads : List Tid := [0, 1, 2, 3]

/-- the hidden action whose window opens when one of kind `k` has been taken: `begin_read` reads
its root right after (and, since the repair of the begin_read race, atomically with) the
registration, before the thread reaches the pause point `begin_read.registered` -/
def Kind.next : Kind → Option Kind
  | .register => some .readRoot
  | _ => none

def Cand.hidden (c : Cand) (t : Tid) : Option Cand :=
  match c.win t with
  | none => none
  | some k => match fire c.sys t k with
    | some s' => some { sys := s', win := setWin c.win t k.next }
    | none => none

/-- all candidates reachable by hidden actions (each thread has at most one window open; taking
the action closes it or, for `register`, opens the window of the `readRoot` that follows it, so
`2 * threads.length` rounds suffice) -/
def closure : Nat → Cand → List Cand
  | 0, c => [c]
  | n + 1, c => c :: threads.flatMap fun t =>
      match c.hidden t with
      | some c' => closure n c'
      | none => []

def Cand.key (c : Cand) :=
  (c.sys.log, c.sys.slot, c.sys.nextVer, threads.map c.sys.pc, threads.map c.win)

def dedupe : List Cand → List Cand
  | [] => []
  | c :: cs => if cs.any (fun d => d.key == c.key) then dedupe cs else c :: dedupe cs

def closeAll (cs : List Cand) : List Cand := dedupe (cs.flatMap (closure (2 * threads.length)))

/-- monitor state -/
structure Mon where
  cands : List Cand
  /-- `floor` of the read call in progress -/
  floor : Tid → Ver
  /-- version of the write call in progress, once `write-started` was seen -/
  wver : Tid → Option Ver
  /-- C16: the `tables`-lock state of the thread's write transaction -/
  tx : Tid → Tables.St

inductive Rule where
  | protocol          -- the event cannot occur at this point of the thread's call
  | twoWriters        -- a write transaction started while another one was live
  | versionOrder      -- the started version is not the next one
  | floorNotCompleted -- the harness reports a completed commit the model has not released
  | staleRead         -- older than a version certainly visible before the root was read / below floor
  | abortedRead       -- the version read was aborted
  | unpublishedRead   -- the version read was never published (uncommitted, or not even started)
  | snapshotMoved     -- two reads through one transaction differ
  | tornRead          -- tables disagree
  | readError | writeError
  | commitNotPublished -- commit() returned but the version was not published
  | abortPublished     -- abort() returned but the version is visible
  | savepointOnDirty   -- C16: ephemeral savepoint registered in a dirty transaction
  | unfinished         -- a call had not ended at the end of the schedule
deriving DecidableEq, Repr

def isWriterPc : PC → Bool := PC.holdsSlot

/-- version `f`'s commit() has returned: it is published and its writer has released the slot -/
def completed (s : Sys) (f : Ver) : Bool :=
  s.log.contains (f, true) &&
    match s.slot with
    | some w => s.pc w != .published f
    | none => true

def Cand.quiet (c : Cand) (t : Tid) : Bool := c.sys.pc t == .idle && c.win t == none

/-- what one event means for one candidate (after the closure): `none` = this candidate cannot
explain the event (a guard on the thread's program counter fails); otherwise the visible model
actions the event stands for, and the windows after it -/
def evActs (m : Mon) (c : Cand) : Event → Option (List Action × (Tid → Option Kind))
  | .readBegin t f =>
    if c.quiet t && completed c.sys f then some ([], setWin c.win t (some .register)) else none
  | .at t .beginReadRegistered =>
    -- the reader has its pin AND its root when it reaches this point
    match c.sys.pc t with
    | .reading _ _ => if c.win t == none then some ([], c.win) else none
    | _ => none
  | .readEnd t v v2 _ cons =>
    -- both full reads are `read` actions of the model through the root the thread holds
    if cons && m.floor t ≤ v then some ([⟨t, .read v⟩, ⟨t, .read v2⟩], c.win) else none
  | .readError _ => none
  | .at t .guardDropRead =>
    match c.sys.pc t with
    | .reading _ _ => some ([], setWin c.win t (some .drop))
    | .idle => if c.win 0 == some .drop then some ([], c.win) else none  -- drop of the set-up reader
    | _ => none
  | .dropReader t p =>
    -- the thread drops the reader pinned during set-up (thread 0), which must still show `p`
    if c.quiet t then some ([⟨0, .read p⟩], setWin c.win 0 (some .drop)) else none
  | .writeBegin t => if c.quiet t then some ([], setWin c.win t (some .acquire)) else none
  | .writeStarted t v => some ([⟨t, .body v⟩], c.win)
  | .at t .setDirty =>
    match c.sys.pc t with
    | .body _ => some ([], c.win)
    | _ => none
  | .at t .memBeforeSwap | .at t .ndBeforePublish =>
    match c.sys.pc t with
    | .body _ => some ([], setWin c.win t (some .publish))
    | .holding => some ([], c.win)          -- nothing was written: nothing to publish
    | _ => none
  | .at t .durableHorizon | .at t .durableFreed | .at t .durableBeforeCommit
  | .at t .memBetweenHeaders | .at t .ndHorizon =>
    match c.sys.pc t with
    | .body _ => if c.win t == none then some ([], c.win) else none
    | .holding => some ([], c.win)
    | _ => none
  | .at t .durableAfterCommit | .at t .ndAfterPublish
  | .at t .durableBeforeEpilogue | .at t .epilogueHorizon =>
    match c.sys.pc t with
    | .published _ => some ([], c.win)
    | .holding => some ([], c.win)
    | _ => none
  | .at t .spEnter | .at t .spChecked =>
    if isWriterPc (c.sys.pc t) && c.win t == none then some ([], c.win) else none
  | .at t .writeDrop =>
    if isWriterPc (c.sys.pc t) && c.win t == none then some ([], setWin c.win t (some .release))
    else none
  | .at _ .spDrop | .at _ .dbDrop => some ([], c.win)
  | .writeEnd t (.committed v) =>
    if c.quiet t && m.wver t == some v && c.sys.log.contains (v, true) then some ([], c.win)
    else none
  | .writeEnd t (.aborted v) =>
    if c.quiet t && m.wver t == some v && c.sys.log.contains (v, false) then some ([], c.win)
    else none
  | .writeEnd t .noChange => if c.quiet t && m.wver t == none then some ([], c.win) else none
  | .writeEnd _ .error => none
  | .ctlRelease _ =>
    -- informational: "T2 did not finish within the grace period". T2 may not even have logged the
    -- first event of its call by then, so nothing can be demanded of the model here; that
    -- begin_write really waits is checked by `write-started` requiring a free slot
    some ([], c.win)

/-- the effect of one event on one candidate: its visible actions are executed on the model -/
def applyEv (m : Mon) (c : Cand) (e : Event) : Option Cand :=
  match evActs m c e with
  | some (acts, win) =>
    match exec c.sys acts with
    | some s => some { sys := s, win := win }
    | none => none
  | none => none

/-- candidate-independent bookkeeping -/
def Mon.note (m : Mon) : Event → Mon
  | .readBegin t f => { m with floor := fun u => if u = t then f else m.floor u }
  | .writeBegin t =>
    { m with wver := fun u => if u = t then none else m.wver u
             tx := fun u => if u = t then Tables.init else m.tx u }
  | .writeStarted t v => { m with wver := fun u => if u = t then some v else m.wver u }
  | .at t .setDirty => { m with tx := fun u => if u = t then Tables.step (m.tx t) .setDirty else m.tx u }
  | .at t .spChecked =>
    { m with tx := fun u => if u = t then Tables.step (m.tx t) .ephemeralSavepoint else m.tx u }
  | _ => m

/-- why no candidate explains the event (only for the report; acceptance does not depend on it) -/
def diagnose (m : Mon) (cs : List Cand) : Event → Rule
  | .readEnd t v v2 _ cons =>
    if !cons then .tornRead
    else if v != v2 then .snapshotMoved
    else if cs.all (fun c => match c.sys.pc t with | .reading _ _ => false | _ => true) then .protocol
    else if v < m.floor t then .staleRead
    else if cs.any (fun c => c.sys.log.contains (v, false)) then .abortedRead
    else if cs.all (fun c => !c.sys.log.contains (v, true)) then .unpublishedRead
    else .staleRead
  | .readError _ => .readError
  | .writeEnd _ .error => .writeError
  | .writeStarted t _ =>
    if cs.any (fun c => c.sys.pc t == .holding) then .versionOrder
    else if cs.all (fun c => match c.sys.slot with | some w => w != t | none => false) then .twoWriters
    else .protocol
  | .readBegin t _ => if cs.any (fun c => c.quiet t) then .floorNotCompleted else .protocol
  | .writeEnd t (.committed v) =>
    if cs.any (fun c => c.quiet t) && m.wver t == some v then .commitNotPublished else .protocol
  | .writeEnd t (.aborted v) =>
    if cs.any (fun c => c.quiet t) && m.wver t == some v then .abortPublished else .protocol
  | _ => .protocol

/-- C16: `ephemeral_savepoint.checked` is only reached when the transaction is not dirty (the
`tables`-lock model `Tables.step` refuses the savepoint otherwise) -/
def c16Guard (m : Mon) : Event → Bool
  | .at t .spChecked => !(m.tx t).dirty
  | _ => true

/-- consume one event: close the candidate set under hidden actions, keep the candidates that can
explain the event -/
def feedCore (m : Mon) (e : Event) : Except Rule Mon :=
  match dedupe ((closeAll m.cands).filterMap (applyEv m · e)) with
  | [] => .error (diagnose m (closeAll m.cands) e)
  | c :: cs => .ok { (m.note e) with cands := c :: cs }

def feed (m : Mon) (e : Event) : Except Rule Mon :=
  if c16Guard m e then feedCore m e else .error .savepointOnDirty

/-- the state every schedule starts from: versions 1 and 2 committed, a reader (thread 0) pinned at
version 1 — produced by running the model -/
def setupTrace : List Action :=
  [⟨3, .acquire⟩, ⟨3, .body 1⟩, ⟨3, .publish 1⟩, ⟨3, .release⟩,
   ⟨0, .register 1⟩, ⟨0, .readRoot 1⟩,
   ⟨3, .acquire⟩, ⟨3, .body 2⟩, ⟨3, .publish 2⟩, ⟨3, .release⟩]

def init0 : Sys := (exec init setupTrace).getD init

def mon0 : Mon :=
  { cands := [{ sys := init0, win := fun _ => none }]
    floor := fun _ => 0, wver := fun _ => none, tx := fun _ => Tables.init }

/-- the calls of T1 and T2 have ended (the harness joined both threads) in some explanation -/
def Mon.finished (m : Mon) : Bool := (closeAll m.cands).any fun c => c.quiet 1 && c.quiet 2

/-- run the monitor; the error carries the index of the offending event -/
def runFrom (m : Mon) (i : Nat) : List Event → Except (Nat × Rule) Mon
  | [] => .ok m
  | e :: es => match feed m e with
    | .ok m' => runFrom m' (i + 1) es
    | .error r => .error (i, r)

def verdict (evs : List Event) : Except (Nat × Rule) Unit :=
  match runFrom mon0 0 evs with
  | .ok m => if m.finished then .ok () else .error (evs.length, .unfinished)
  | .error e => .error e

/-- the monitor: the events of one schedule are a trace of the model started in `init0` -/
def accept (evs : List Event) : Bool :=
  match verdict evs with
  | .ok _ => true
  | .error _ => false

end Redb.Conc
