import RedbModel.Model.Recovery
/-
Abstract crash model of the storage and the protocol monitor of the commit protocol (property C01).
Everything in this file is executable; the SAME definitions run on recorded storage streams
(`Driver/Storage.lean`) and are the subject of the theorems (`Lemmas/Storage.lean`, `Props/C01.lean`).

## The two idealisations (they stand for XXH3-128 collision freedom; there is no axiom)

 (I1) *Pages.*  The state of an order-0 page of the abstract disk is `some tag` -- the page holds
      exactly the bytes identified by `tag`, where equal tags mean equal bytes (the driver interns
      the page contents, so this is exact) -- or `none` ("garbage": torn, truncated away or never
      written).  A commit slot `good id tree` lists the pages of the commit's trees (data and system
      master trees, all table trees, multimap value subtrees) together with the tags they had when
      the slot was written; its trees *verify* on a disk iff every listed page lies inside the file
      and holds its listed tag.  This says: "a page whose bytes differ from those the slot's
      checksum chain covers fails verification" (and a page with the same bytes passes), i.e. the
      root checksums stored in a slot determine the bytes of the whole tree.
 (I2) *Slots.*  A slot image that is a byte-wise mixture of two different slot images is `torn`,
      and `torn` is not a valid slot (its checksum does not verify).  Two slot images with equal
      bytes are equal (`good id tree` with the same `id` and `tree`).

## The crash model

`D` is the durable disk (everything up to the last completed `sync`), `R` the events issued since
then, newest first.  `Outcome D R o` says that `o` can be found on the medium if the process stops
now: going through the pending events from the oldest to the newest, each one is applied in one of
the ways `StepOut` allows --
  * `write ws` (a write covering the order-0 pages `ws`, with their new tags): each page
    independently keeps its state, takes the new tag, or becomes garbage (this covers "not
    written", "written", and every byte-granular tearing);
  * `setLen n`: not applied, or applied (the pages at and beyond `n` are gone);
  * `header h` (a write of the 320-byte database header): the god byte (primary slot bit,
    recovery_required, two_phase_commit) is one byte and atomic: old or new; each commit slot: old,
    new, or -- if old and new differ -- torn; the layout fields (not checksummed): old, or, if the
    write changes them, any value at all.
-/
namespace Redb.Storage
open Redb.Recovery

/-! ## abstract disk -/

/-- image of one 128-byte commit slot: a valid slot with its transaction id and the pages
(order-0 page index, tag) of the trees of this commit, or a torn (invalid) slot -/
inductive SlotImg where
  | good (id : Nat) (tree : List (Nat × Nat))
  | torn
deriving DecidableEq, Repr, Inhabited

/-- the god byte -/
structure God where
  primary : Nat
  rr : Bool
  tp : Bool
deriving DecidableEq, Repr, Inhabited

/-- image of the database header; `layLen` = length of the file (in order-0 pages) that the
stored region counts describe -/
structure HeaderImg where
  god : God
  slot0 : SlotImg
  slot1 : SlotImg
  layLen : Nat
deriving DecidableEq, Repr, Inhabited

def HeaderImg.slot (h : HeaderImg) (i : Nat) : SlotImg := if i = 0 then h.slot0 else h.slot1

def SlotImg.isGood : SlotImg → Bool
  | .good _ _ => true
  | .torn => false

def SlotImg.id : SlotImg → Nat
  | .good id _ => id
  | .torn => 0

def SlotImg.tree : SlotImg → List (Nat × Nat)
  | .good _ t => t
  | .torn => []

/-- the order-0 pages of the trees of a slot -/
def SlotImg.pages (s : SlotImg) : List Nat := s.tree.map (·.1)

/-- page states: association list, absent = garbage -/
abbrev PageMap := List (Nat × Option Nat)

def PageMap.get (m : PageMap) (p : Nat) : Option Nat :=
  match m.find? (fun e => e.1 == p) with
  | some e => e.2
  | none => none

def PageMap.set (m : PageMap) (p : Nat) (v : Option Nat) : PageMap :=
  (p, v) :: m.filter (fun e => e.1 != p)

/-- the pages at and beyond `n` are gone -/
def PageMap.trunc (m : PageMap) (n : Nat) : PageMap := m.filter (fun e => e.1 < n)

structure Disk where
  hdr : HeaderImg
  pages : PageMap
  /-- file length in order-0 pages -/
  len : Nat
deriving Repr, Inhabited

/-- the trees of a slot image verify: every page inside the file and holding its tag (I1);
a torn slot never verifies -/
def verifiesImg (pages : PageMap) (len : Nat) : SlotImg → Bool
  | .good _ tree => tree.all (fun e => decide (e.1 < len) && pages.get e.1 == some e.2)
  | .torn => false

def Disk.verifies (d : Disk) (i : Nat) : Bool := verifiesImg d.pages d.len (d.hdr.slot i)

/-- what the open code sees of the header. `wellFormed`: with recovery_required the region layout
is rebuilt from the file length (the driver checks that every length ever set maps onto a
layout); without it the file must not be shorter than the stored layout. -/
def Disk.view (d : Disk) : HeaderView :=
  { primary := d.hdr.god.primary
    recoveryRequired := d.hdr.god.rr
    twoPhase := d.hdr.god.tp
    valid0 := d.hdr.slot0.isGood
    valid1 := d.hdr.slot1.isGood
    id0 := d.hdr.slot0.id
    id1 := d.hdr.slot1.id
    wellFormed := d.hdr.god.rr || decide (d.hdr.layLen ≤ d.len) }

/-- the slot a full (not quick) recovery serves on this disk -/
def Disk.served (d : Disk) : Except Err Nat := recover d.view d.verifies false

/-! ## events -/

inductive Ev where
  /-- write of the database header at offset 0 -/
  | header (h : HeaderImg)
  /-- any other write: the order-0 pages it covers with the tags of their new contents -/
  | write (ws : List (Nat × Nat))
  /-- `set_len`, in order-0 pages -/
  | setLen (n : Nat)
  /-- a completed `sync_data` -/
  | sync
deriving DecidableEq, Repr, Inhabited

def writePages (m : PageMap) : List (Nat × Nat) → PageMap
  | [] => m
  | w :: ws => writePages (m.set w.1 (some w.2)) ws

/-- the event reaches the disk completely -/
def Disk.apply (d : Disk) : Ev → Disk
  | .header h => { d with hdr := h }
  | .write ws => { d with pages := writePages d.pages ws }
  | .setLen n => { d with len := n, pages := d.pages.trunc n }
  | .sync => d

/-- all pending events (newest first) reach the disk: the durable disk after a `sync` -/
def flush (d : Disk) : List Ev → Disk
  | [] => d
  | e :: r => (flush d r).apply e

/-! ## crash outcomes -/

/-- outcome of one slot under a header write -/
def SlotOut (old new s : SlotImg) : Prop := s = old ∨ s = new ∨ (old ≠ new ∧ s = .torn)

/-- the ways in which one pending event may have reached the disk `d`, giving `d'` -/
def StepOut : Ev → Disk → Disk → Prop
  | .write ws, d, d' =>
    d'.hdr = d.hdr ∧ d'.len = d.len ∧
    ∀ p, d'.pages.get p = d.pages.get p ∨
      (∃ t, (p, t) ∈ ws ∧ (d'.pages.get p = some t ∨ d'.pages.get p = none))
  | .setLen n, d, d' =>
    d' = d ∨ (d'.hdr = d.hdr ∧ d'.len = n ∧
      ∀ p, d'.pages.get p = if p < n then d.pages.get p else none)
  | .header h, d, d' =>
    d'.pages = d.pages ∧ d'.len = d.len ∧
    (d'.hdr.god = d.hdr.god ∨ d'.hdr.god = h.god) ∧
    SlotOut d.hdr.slot0 h.slot0 d'.hdr.slot0 ∧
    SlotOut d.hdr.slot1 h.slot1 d'.hdr.slot1 ∧
    (d'.hdr.layLen = d.hdr.layLen ∨ d.hdr.layLen ≠ h.layLen)
  | .sync, d, d' => d' = d

/-- `o` is a possible content of the medium when the process stops with durable disk `D` and
pending events `R` (newest first) -/
def Outcome (D : Disk) : List Ev → Disk → Prop
  | [], o => o = D
  | e :: r, o => ∃ o', Outcome D r o' ∧ StepOut e o' o

/-! ## the protocol monitor -/

/-- the header write pending since the last sync (the monitor admits at most one) -/
def pendHdr : List Ev → Option HeaderImg
  | [] => none
  | .header h :: _ => some h
  | _ :: r => pendHdr r

def hasSetLen : List Ev → Bool
  | [] => false
  | .setLen _ :: _ => true
  | _ :: r => hasSetLen r

/-- the header makes slot `j` the primary with the 2-phase flag -/
def flips (h : HeaderImg) (j : Nat) : Bool := h.god.tp && h.god.primary == j

/-- the event leaves the pages `prot` alone: a write does not cover them, a truncation does not
cut them -/
def evSafe (prot : List Nat) : Ev → Bool
  | .write ws => ws.all (fun w => !prot.contains w.1)
  | .setLen n => prot.all (fun p => decide (p < n))
  | _ => true

/-- pages of the slot a pending 2-phase flip promotes -/
def flipPages (D : Disk) (i : Nat) (r : List Ev) : List Nat :=
  match pendHdr r with
  | some h => if flips h (other i) then (D.hdr.slot (other i)).pages else []
  | none => []

def newer (s : SlotImg) (c : Nat) : Bool :=
  match s with
  | .good id _ => decide (c < id)
  | .torn => false

/-- the header conditions; `i` = the slot served on the durable disk `D`, `r` = earlier pending
events -/
def hdrOk (D : Disk) (i : Nat) (r : List Ev) (h : HeaderImg) : Bool :=
  -- (H0) one header write per sync epoch
  (pendHdr r).isNone && decide (h.god.primary < 2)
  -- (H1) the bytes of the served slot never change
  && decide (h.slot i = D.hdr.slot i)
  -- (H2/M3) the other slot is left alone or receives a valid commit newer than the served one
  && (decide (h.slot (other i) = D.hdr.slot (other i)) || newer (h.slot (other i)) (D.hdr.slot i).id)
  -- (H3) 2-phase flip: same slot bytes as durable, a commit newer than the served one, its trees
  -- verify on the durable disk, and no pending event touches them
  && (!flips h (other i) ||
        (decide (h.slot (other i) = D.hdr.slot (other i))
          && newer (D.hdr.slot (other i)) (D.hdr.slot i).id
          && verifiesImg D.pages D.len (D.hdr.slot (other i))
          && r.all (evSafe (D.hdr.slot (other i)).pages)))
  -- (L1) a header that clears recovery_required: no pending set_len, layout fields unchanged
  -- and covered by the durable length
  && (h.god.rr || (!hasSetLen r && decide (h.layLen = D.hdr.layLen) && decide (D.hdr.layLen ≤ D.len)))
  -- (L2) while recovery_required is durably clear the layout fields do not change
  && (D.hdr.god.rr || decide (h.layLen = D.hdr.layLen))

/-- the condition under which event `e` may follow the pending events `r` -/
def evOk (D : Disk) (i : Nat) (r : List Ev) : Ev → Bool
  | .sync => false
  | .write ws =>
    -- (M1) copy-on-write w.r.t. the served commit and a commit being promoted 2-phase
    evSafe (D.hdr.slot i).pages (.write ws) && evSafe (flipPages D i r) (.write ws)
  | .setLen n =>
    -- (M4) no truncation of those trees; (L3) only while recovery_required is set
    evSafe (D.hdr.slot i).pages (.setLen n) && evSafe (flipPages D i r) (.setLen n)
    && D.hdr.god.rr && (match pendHdr r with | some h => h.god.rr | none => true)
  | .header h => hdrOk D i r h

/-- monitor state: durable disk, pending events (newest first), the slot served on `D` -/
structure St where
  D : Disk
  P : List Ev
  i : Nat
deriving Repr, Inhabited

def step (s : St) : Ev → Option St
  | .sync =>
    match (flush s.D s.P).served with
    | .ok k => some { D := flush s.D s.P, P := [], i := k }
    | .error _ => none
  | e => if evOk s.D s.i s.P e then some { s with P := e :: s.P } else none

def run (s : St) : List Ev → Option St
  | [] => some s
  | e :: es =>
    match step s e with
    | some s' => run s' es
    | none => none

/-- the ids of the two slots differ (checked once, on the initial disk) -/
def distinctIds (D : Disk) (i : Nat) : Bool :=
  match D.hdr.slot (other i) with
  | .good id _ => id != (D.hdr.slot i).id
  | .torn => true

/-- the initial state: the disk must be servable -/
def start (D : Disk) : Option St :=
  match D.served with
  | .ok i => if decide (D.hdr.god.primary < 2) && distinctIds D i then some { D := D, P := [], i := i } else none
  | .error _ => none

/-- the stream is accepted from the (fully durable) disk `D` -/
def accept (D : Disk) (tr : List Ev) : Bool :=
  match start D with
  | some s => (run s tr).isSome
  | none => false

end Redb.Storage
