import RedbModel.Model.Spec
/-
Specification of a redb multimap table (property C09): a list of (key, value set) pairs strictly
sorted under the key comparator; each value set is a non-empty list strictly sorted under the
value comparator. Executable, no imports beyond the key-type model.
-/
namespace Redb.MultiSpec
open Redb.Key

abbrev VSet := List Bytes
abbrev MMap := List (Bytes × VSet)

/-- insert into a sorted set; returns (set, already present) -/
def setInsert (vt : KT) : VSet → Bytes → VSet × Bool
  | [], v => ([v], false)
  | x :: rest, v =>
    match cmp vt v x with
    | .lt => (v :: x :: rest, false)
    | .eq => (x :: rest, true)
    | .gt => let r := setInsert vt rest v; (x :: r.1, r.2)

def setRemove (vt : KT) : VSet → Bytes → VSet × Bool
  | [], _ => ([], false)
  | x :: rest, v =>
    match cmp vt v x with
    | .lt => (x :: rest, false)
    | .eq => (rest, true)
    | .gt => let r := setRemove vt rest v; (x :: r.1, r.2)

/-- `MultimapTable::insert`; returns (map, pair was present) -/
def insert (kt vt : KT) : MMap → Bytes → Bytes → MMap × Bool
  | [], k, v => ([(k, [v])], false)
  | (k', s) :: rest, k, v =>
    match cmp kt k k' with
    | .lt => ((k, [v]) :: (k', s) :: rest, false)
    | .eq => let r := setInsert vt s v; ((k', r.1) :: rest, r.2)
    | .gt => let r := insert kt vt rest k v; ((k', s) :: r.1, r.2)

/-- `MultimapTable::remove`; a key disappears with its last value -/
def remove (kt vt : KT) : MMap → Bytes → Bytes → MMap × Bool
  | [], _, _ => ([], false)
  | (k', s) :: rest, k, v =>
    match cmp kt k k' with
    | .lt => ((k', s) :: rest, false)
    | .eq =>
      let r := setRemove vt s v
      if r.1.isEmpty then (rest, r.2) else ((k', r.1) :: rest, r.2)
    | .gt => let r := remove kt vt rest k v; ((k', s) :: r.1, r.2)

def get (kt : KT) : MMap → Bytes → VSet
  | [], _ => []
  | (k', s) :: rest, k =>
    match cmp kt k k' with
    | .lt => []
    | .eq => s
    | .gt => get kt rest k

/-- `remove_all`: returns (map, removed values) -/
def removeAll (kt : KT) : MMap → Bytes → MMap × VSet
  | [], _ => ([], [])
  | (k', s) :: rest, k =>
    match cmp kt k k' with
    | .lt => ((k', s) :: rest, [])
    | .eq => (rest, s)
    | .gt => let r := removeAll kt rest k; ((k', s) :: r.1, r.2)

/-- `len`: number of (key, value) pairs -/
def len (m : MMap) : Nat := m.foldl (fun a e => a + e.2.length) 0

def range (kt : KT) (m : MMap) (lo hi : Spec.Bound) : MMap :=
  m.filter (fun e => Spec.inRange kt lo hi e.1)

/-- strictly sorted value set -/
def SetSorted (vt : KT) : VSet → Prop
  | [] => True
  | [_] => True
  | a :: b :: rest => cmp vt a b = .lt ∧ SetSorted vt (b :: rest)

/-- well-formed multimap: keys strictly sorted, every set non-empty and strictly sorted -/
def WF (kt vt : KT) : MMap → Prop
  | [] => True
  | [e] => e.2 ≠ [] ∧ SetSorted vt e.2
  | a :: b :: rest => cmp kt a.1 b.1 = .lt ∧ a.2 ≠ [] ∧ SetSorted vt a.2 ∧ WF kt vt (b :: rest)

end Redb.MultiSpec
