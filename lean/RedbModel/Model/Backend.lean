/-
The storage-backend contract automaton (property C20) over the stream of calls that redb makes
on one `StorageBackend` instance. Bounds (`read`/`write` inside the current length) are checked
by the recording backend itself against the real length; this automaton covers the temporal
part: exactly one `close`, nothing after it, and no mutation on a read-only database.
Import-free, executable.
-/
namespace Redb.Backend

inductive Call | len | read | write | setLen | sync | close
deriving BEq, Repr, DecidableEq

def Call.mutates : Call → Bool
  | .write | .setLen | .sync => true
  | _ => false

structure BState where
  closes : Nat := 0
  afterClose : Nat := 0     -- calls other than close issued after the first close
  mutations : Nat := 0
deriving Repr, BEq

/-- `n` consecutive calls of the same kind -/
def step (s : BState) (c : Call) (n : Nat) : BState :=
  match c with
  | .close => { s with closes := s.closes + n }
  | _ =>
    { s with
      afterClose := if s.closes > 0 then s.afterClose + n else s.afterClose
      mutations := if c.mutates then s.mutations + n else s.mutations }

def run (calls : List (Call × Nat)) : BState := calls.foldl (fun s c => step s c.1 c.2) {}

/-- the contract: `close` exactly once, nothing after it, a read-only database never mutates -/
def accept (readOnly : Bool) (calls : List (Call × Nat)) : Bool :=
  let s := run calls
  s.closes == 1 && s.afterClose == 0 && (!readOnly || s.mutations == 0)

end Redb.Backend
