/-
Scalar ("generic") XXH3-128, ported from `src/tree_store/page_store/xxh3.rs`
(`hash128_with_seed` and everything it reaches on the non-SIMD path).

Conventions
* A Rust sub-slice `&data[k..]` is represented by the pair (array, byte offset).
  Rust's `get_u64(s, i)` (word index `i`) becomes `u64le s (off + 8 * i)`.
* All arithmetic is `UInt64` / `UInt32` wrapping arithmetic; the only place that goes
  through `Nat` is the 64x64 -> 128 multiply (`mul128`).
* All loops are structural recursions on a `Nat` counter.  No imports.
-/

namespace Redb.Xxh3

/-! ## constants -/

def STRIPE_LENGTH : Nat := 64
def SECRET_CONSUME_RATE : Nat := 8
def MIN_SECRET_SIZE : Nat := 136
def SECRET_LENGTH : Nat := 192

def defaultSecret : ByteArray := ByteArray.mk #[
  0xb8, 0xfe, 0x6c, 0x39, 0x23, 0xa4, 0x4b, 0xbe, 0x7c, 0x01, 0x81, 0x2c, 0xf7, 0x21, 0xad, 0x1c,
  0xde, 0xd4, 0x6d, 0xe9, 0x83, 0x90, 0x97, 0xdb, 0x72, 0x40, 0xa4, 0xa4, 0xb7, 0xb3, 0x67, 0x1f,
  0xcb, 0x79, 0xe6, 0x4e, 0xcc, 0xc0, 0xe5, 0x78, 0x82, 0x5a, 0xd0, 0x7d, 0xcc, 0xff, 0x72, 0x21,
  0xb8, 0x08, 0x46, 0x74, 0xf7, 0x43, 0x24, 0x8e, 0xe0, 0x35, 0x90, 0xe6, 0x81, 0x3a, 0x26, 0x4c,
  0x3c, 0x28, 0x52, 0xbb, 0x91, 0xc3, 0x00, 0xcb, 0x88, 0xd0, 0x65, 0x8b, 0x1b, 0x53, 0x2e, 0xa3,
  0x71, 0x64, 0x48, 0x97, 0xa2, 0x0d, 0xf9, 0x4e, 0x38, 0x19, 0xef, 0x46, 0xa9, 0xde, 0xac, 0xd8,
  0xa8, 0xfa, 0x76, 0x3f, 0xe3, 0x9c, 0x34, 0x3f, 0xf9, 0xdc, 0xbb, 0xc7, 0xc7, 0x0b, 0x4f, 0x1d,
  0x8a, 0x51, 0xe0, 0x4b, 0xcd, 0xb4, 0x59, 0x31, 0xc8, 0x9f, 0x7e, 0xc9, 0xd9, 0x78, 0x73, 0x64,
  0xea, 0xc5, 0xac, 0x83, 0x34, 0xd3, 0xeb, 0xc3, 0xc5, 0x81, 0xa0, 0xff, 0xfa, 0x13, 0x63, 0xeb,
  0x17, 0x0d, 0xdd, 0x51, 0xb7, 0xf0, 0xda, 0x49, 0xd3, 0x16, 0x55, 0x26, 0x29, 0xd4, 0x68, 0x9e,
  0x2b, 0x16, 0xbe, 0x58, 0x7d, 0x47, 0xa1, 0xfc, 0x8f, 0xf8, 0xb8, 0xd1, 0x7a, 0xd0, 0x31, 0xce,
  0x45, 0xcb, 0x3a, 0x8f, 0x95, 0x16, 0x04, 0x28, 0xaf, 0xd7, 0xfb, 0xca, 0xbb, 0x4b, 0x40, 0x7e]

def PRIME32_0 : UInt64 := 0x9E3779B1
def PRIME32_1 : UInt64 := 0x85EBCA77
def PRIME32_2 : UInt64 := 0xC2B2AE3D
def PRIME64_0 : UInt64 := 0x9E3779B185EBCA87
def PRIME64_1 : UInt64 := 0xC2B2AE3D27D4EB4F
def PRIME64_2 : UInt64 := 0x165667B19E3779F9
def PRIME64_3 : UInt64 := 0x85EBCA77C2B2AE63
def PRIME64_4 : UInt64 := 0x27D4EB2F165667C5

/-- The eight 64-bit accumulator lanes (`[u64; 8]` in Rust). -/
structure Acc where
  a0 : UInt64
  a1 : UInt64
  a2 : UInt64
  a3 : UInt64
  a4 : UInt64
  a5 : UInt64
  a6 : UInt64
  a7 : UInt64

def INIT_ACCUMULATORS : Acc :=
  ⟨PRIME32_2, PRIME64_0, PRIME64_1, PRIME64_2, PRIME64_3, PRIME32_1, PRIME64_4, PRIME32_0⟩

/-! ## little-endian reads and bit helpers -/

/-- `u32::from_le_bytes(b[off .. off+4])` -/
@[inline] def u32le (b : ByteArray) (off : Nat) : UInt32 :=
  (b.get! off).toUInt32
    ||| ((b.get! (off + 1)).toUInt32 <<< 8)
    ||| ((b.get! (off + 2)).toUInt32 <<< 16)
    ||| ((b.get! (off + 3)).toUInt32 <<< 24)

/-- `u64::from_le_bytes(b[off .. off+8])` -/
@[inline] def u64le (b : ByteArray) (off : Nat) : UInt64 :=
  (b.get! off).toUInt64
    ||| ((b.get! (off + 1)).toUInt64 <<< 8)
    ||| ((b.get! (off + 2)).toUInt64 <<< 16)
    ||| ((b.get! (off + 3)).toUInt64 <<< 24)
    ||| ((b.get! (off + 4)).toUInt64 <<< 32)
    ||| ((b.get! (off + 5)).toUInt64 <<< 40)
    ||| ((b.get! (off + 6)).toUInt64 <<< 48)
    ||| ((b.get! (off + 7)).toUInt64 <<< 56)

/-- `u32::swap_bytes` -/
def bswap32 (x : UInt32) : UInt32 :=
  (x <<< 24)
    ||| ((x &&& (0xFF00 : UInt32)) <<< 8)
    ||| ((x >>> 8) &&& (0xFF00 : UInt32))
    ||| (x >>> 24)

/-- `u64::swap_bytes` -/
def bswap64 (x : UInt64) : UInt64 :=
  (x <<< 56)
    ||| ((x &&& (0xFF00 : UInt64)) <<< 40)
    ||| ((x &&& (0xFF0000 : UInt64)) <<< 24)
    ||| ((x &&& (0xFF000000 : UInt64)) <<< 8)
    ||| ((x >>> 8) &&& (0xFF000000 : UInt64))
    ||| ((x >>> 24) &&& (0xFF0000 : UInt64))
    ||| ((x >>> 40) &&& (0xFF00 : UInt64))
    ||| (x >>> 56)

/-- `u32::rotate_left` for `0 < r < 32` -/
def rotl32 (x : UInt32) (r : UInt32) : UInt32 := (x <<< r) ||| (x >>> (32 - r))

/-- `u64::rotate_left` for `0 < r < 64` -/
def rotl64 (x : UInt64) (r : UInt64) : UInt64 := (x <<< r) ||| (x >>> (64 - r))

def xorshift (x : UInt64) (shift : UInt64) : UInt64 := x ^^^ (x >>> shift)

/-- full 64x64 -> 128 multiply, returned as (low 64 bits, high 64 bits) -/
def mul128 (x y : UInt64) : UInt64 × UInt64 :=
  let z : Nat := x.toNat * y.toNat
  (UInt64.ofNat z, UInt64.ofNat (z >>> 64))

def mul128AndXor (x y : UInt64) : UInt64 :=
  let z := mul128 x y
  z.1 ^^^ z.2

/-! ## avalanche / mixing -/

def xxh64Avalanche (x : UInt64) : UInt64 :=
  let x := x ^^^ (x >>> 33)
  let x := x * PRIME64_1
  let x := x ^^^ (x >>> 29)
  let x := x * PRIME64_2
  x ^^^ (x >>> 32)

def xxh3Avalanche (x : UInt64) : UInt64 :=
  let x := xorshift x 37
  let x := x * 0x165667919E3779F9
  xorshift x 32

/-- only used by the 64-bit variant in Rust; kept for completeness -/
def rrmxmx (x y : UInt64) : UInt64 :=
  let x := x ^^^ (rotl64 x 49 ^^^ rotl64 x 24)
  let x := x * 0x9FB21C651E98DF25
  let x := x ^^^ ((x >>> 35) + y)
  let x := x * 0x9FB21C651E98DF25
  xorshift x 28

/-- `mix16(&data[dOff..], &secret[sOff..], seed)` -/
def mix16 (data : ByteArray) (dOff : Nat) (secret : ByteArray) (sOff : Nat) (seed : UInt64) :
    UInt64 :=
  let x1 := u64le data dOff
  let x2 := u64le data (dOff + 8)
  let s1 := u64le secret sOff + seed
  let s2 := u64le secret (sOff + 8) - seed
  mul128AndXor (x1 ^^^ s1) (x2 ^^^ s2)

/-- `mix32(state, &data[d1..], &data[d2..], &secret[sOff..], seed)` -/
def mix32 (state : UInt64 × UInt64) (data : ByteArray) (d1 d2 : Nat) (secret : ByteArray)
    (sOff : Nat) (seed : UInt64) : UInt64 × UInt64 :=
  let rLow := state.1
  let rHigh := state.2
  let rLow := rLow + mix16 data d1 secret sOff seed
  let rLow := rLow ^^^ (u64le data d2 + u64le data (d2 + 8))
  let rHigh := rHigh + mix16 data d2 secret (sOff + 16) seed
  let rHigh := rHigh ^^^ (u64le data d1 + u64le data (d1 + 8))
  (rLow, rHigh)

/-! ## secret generation -/

def pushU64le (b : ByteArray) (x : UInt64) : ByteArray :=
  ((((((((b.push x.toUInt8).push (x >>> 8).toUInt8).push (x >>> 16).toUInt8).push
    (x >>> 24).toUInt8).push (x >>> 32).toUInt8).push (x >>> 40).toUInt8).push
    (x >>> 48).toUInt8).push (x >>> 56).toUInt8)

/-- iterations `i, i+1, ..` (`n` of them) of the loop in `gen_secret_generic` -/
def genSecretLoop (seed : UInt64) : (n : Nat) → (i : Nat) → ByteArray → ByteArray
  | 0, _, out => out
  | n + 1, i, out =>
    let out := pushU64le out (u64le defaultSecret (16 * i) + seed)
    let out := pushU64le out (u64le defaultSecret (16 * i + 8) - seed)
    genSecretLoop seed n (i + 1) out

def genSecret (seed : UInt64) : ByteArray :=
  genSecretLoop seed (SECRET_LENGTH / 16) 0 (ByteArray.emptyWithCapacity SECRET_LENGTH)

/-! ## long-input path -/

/-- one lane of `accumulate_stripe_generic`: lane `i` receives the data word of lane `i ^ 1`
plus the 32x32 product of the keyed data word of lane `i` -/
@[inline] def accLane (a x xOther s : UInt64) : UInt64 :=
  let y := x ^^^ s
  a + xOther + (y &&& (0xFFFFFFFF : UInt64)) * (y >>> 32)

/-- `accumulate_stripe_generic(acc, &data[dOff..], &secret[sOff..])` -/
def accumulateStripe (acc : Acc) (data : ByteArray) (dOff : Nat) (secret : ByteArray)
    (sOff : Nat) : Acc :=
  let x0 := u64le data dOff
  let x1 := u64le data (dOff + 8)
  let x2 := u64le data (dOff + 16)
  let x3 := u64le data (dOff + 24)
  let x4 := u64le data (dOff + 32)
  let x5 := u64le data (dOff + 40)
  let x6 := u64le data (dOff + 48)
  let x7 := u64le data (dOff + 56)
  { a0 := accLane acc.a0 x0 x1 (u64le secret sOff)
    a1 := accLane acc.a1 x1 x0 (u64le secret (sOff + 8))
    a2 := accLane acc.a2 x2 x3 (u64le secret (sOff + 16))
    a3 := accLane acc.a3 x3 x2 (u64le secret (sOff + 24))
    a4 := accLane acc.a4 x4 x5 (u64le secret (sOff + 32))
    a5 := accLane acc.a5 x5 x4 (u64le secret (sOff + 40))
    a6 := accLane acc.a6 x6 x7 (u64le secret (sOff + 48))
    a7 := accLane acc.a7 x7 x6 (u64le secret (sOff + 56)) }

@[inline] def scrambleLane (x s : UInt64) : UInt64 :=
  (xorshift x 47 ^^^ s) * PRIME32_0

/-- `scramble_accumulators_generic(acc, &secret[sOff..])` -/
def scrambleAccumulators (acc : Acc) (secret : ByteArray) (sOff : Nat) : Acc :=
  { a0 := scrambleLane acc.a0 (u64le secret sOff)
    a1 := scrambleLane acc.a1 (u64le secret (sOff + 8))
    a2 := scrambleLane acc.a2 (u64le secret (sOff + 16))
    a3 := scrambleLane acc.a3 (u64le secret (sOff + 24))
    a4 := scrambleLane acc.a4 (u64le secret (sOff + 32))
    a5 := scrambleLane acc.a5 (u64le secret (sOff + 40))
    a6 := scrambleLane acc.a6 (u64le secret (sOff + 48))
    a7 := scrambleLane acc.a7 (u64le secret (sOff + 56)) }

/-- stripes `i, i+1, ..` (`n` of them) of `accumulate_block(acc, &data[dOff..], secret, ..)` -/
def accumulateBlockLoop (data : ByteArray) (dOff : Nat) (secret : ByteArray) :
    (n : Nat) → (i : Nat) → Acc → Acc
  | 0, _, acc => acc
  | n + 1, i, acc =>
    accumulateBlockLoop data dOff secret n (i + 1)
      (accumulateStripe acc data (dOff + i * STRIPE_LENGTH) secret (i * SECRET_CONSUME_RATE))

/-- `accumulate_block(acc, &data[dOff..], secret, stripes, accumulate_stripe_generic)` -/
def accumulateBlock (acc : Acc) (data : ByteArray) (dOff : Nat) (secret : ByteArray)
    (stripes : Nat) : Acc :=
  accumulateBlockLoop data dOff secret stripes 0 acc

/-- blocks `i, i+1, ..` (`n` of them) of the full-block loop in `hash_large_helper` -/
def blocksLoop (data secret : ByteArray) (stripesPerBlock blockLen : Nat) :
    (n : Nat) → (i : Nat) → Acc → Acc
  | 0, _, acc => acc
  | n + 1, i, acc =>
    let acc := accumulateBlock acc data (i * blockLen) secret stripesPerBlock
    let acc := scrambleAccumulators acc secret (secret.size - STRIPE_LENGTH)
    blocksLoop data secret stripesPerBlock blockLen n (i + 1) acc

/-- `hash_large_helper` (requires `data.size > 240`, in particular `≥ 64`) -/
def hashLargeHelper (data secret : ByteArray) : Acc :=
  let stripesPerBlock := (secret.size - STRIPE_LENGTH) / SECRET_CONSUME_RATE
  let blockLen := STRIPE_LENGTH * stripesPerBlock
  let blocks := (data.size - 1) / blockLen
  let acc := blocksLoop data secret stripesPerBlock blockLen blocks 0 INIT_ACCUMULATORS
  let stripes := ((data.size - 1) - blockLen * blocks) / STRIPE_LENGTH
  let acc := accumulateBlock acc data (blocks * blockLen) secret stripes
  accumulateStripe acc data (data.size - STRIPE_LENGTH) secret (secret.size - STRIPE_LENGTH - 7)

/-- `merge_accumulators(acc, &secret[sOff..], init)` -/
def mergeAccumulators (acc : Acc) (secret : ByteArray) (sOff : Nat) (init : UInt64) : UInt64 :=
  let r := init
  let r := r + mul128AndXor (acc.a0 ^^^ u64le secret sOff) (acc.a1 ^^^ u64le secret (sOff + 8))
  let r := r + mul128AndXor (acc.a2 ^^^ u64le secret (sOff + 16))
    (acc.a3 ^^^ u64le secret (sOff + 24))
  let r := r + mul128AndXor (acc.a4 ^^^ u64le secret (sOff + 32))
    (acc.a5 ^^^ u64le secret (sOff + 40))
  let r := r + mul128AndXor (acc.a6 ^^^ u64le secret (sOff + 48))
    (acc.a7 ^^^ u64le secret (sOff + 56))
  xxh3Avalanche r

/-- `hash128_large_generic` with the generic secret / scramble / stripe functions -/
def hash128Large (data : ByteArray) (seed : UInt64) : UInt64 × UInt64 :=
  let secret := genSecret seed
  let acc := hashLargeHelper data secret
  let len := UInt64.ofNat data.size
  let low := mergeAccumulators acc secret 11 (PRIME64_0 * len)
  let high := mergeAccumulators acc secret (secret.size - 64 - 11) (~~~ (PRIME64_1 * len))
  (low, high)

/-! ## short inputs (0 ..= 240 bytes) -/

/-- `hash64_0(&secret[sOff..], seed)` -/
def hash64_0 (secret : ByteArray) (sOff : Nat) (seed : UInt64) : UInt64 :=
  xxh64Avalanche ((seed ^^^ u64le secret (sOff + 56)) ^^^ u64le secret (sOff + 64))

def hash128_0 (secret : ByteArray) (seed : UInt64) : UInt64 × UInt64 :=
  (hash64_0 secret 8 seed, hash64_0 secret 24 seed)

def hash128_1to3 (data secret : ByteArray) (seed : UInt64) : UInt64 × UInt64 :=
  let x1 := (data.get! 0).toUInt32
  let x2 := (data.get! (data.size >>> 1)).toUInt32
  let x3 := (data.get! (data.size - 1)).toUInt32
  let x4 := UInt32.ofNat data.size
  let combinedLow : UInt32 := (x1 <<< 16) ||| (x2 <<< 24) ||| x3 ||| (x4 <<< 8)
  let combinedHigh : UInt64 := (rotl32 (bswap32 combinedLow) 13).toUInt64
  let sLow := (u32le secret 0 ^^^ u32le secret 4).toUInt64 + seed
  let sHigh := (u32le secret 8 ^^^ u32le secret 12).toUInt64 - seed
  (xxh64Avalanche (combinedLow.toUInt64 ^^^ sLow), xxh64Avalanche (combinedHigh ^^^ sHigh))

def hash128_4to8 (data secret : ByteArray) (seed : UInt64) : UInt64 × UInt64 :=
  let seed := seed ^^^ ((bswap32 seed.toUInt32).toUInt64 <<< 32)
  let xLow := (u32le data 0).toUInt64
  let xHigh := (u32le data (data.size - 4)).toUInt64
  let x := xLow ||| (xHigh <<< 32)
  let s := (u64le secret 16 ^^^ u64le secret 24) + seed
  let y := mul128 (x ^^^ s) (PRIME64_0 + UInt64.ofNat (data.size <<< 2))
  let rLow := y.1
  let rHigh := y.2
  let rHigh := rHigh + (rLow <<< 1)
  let rLow := rLow ^^^ (rHigh >>> 3)
  let rLow := xorshift rLow 35
  let rLow := rLow * 0x9FB21C651E98DF25
  let rLow := xorshift rLow 28
  let rHigh := xxh3Avalanche rHigh
  (rLow, rHigh)

def hash128_9to16 (data secret : ByteArray) (seed : UInt64) : UInt64 × UInt64 :=
  let sLow := (u64le secret 32 ^^^ u64le secret 40) - seed
  let sHigh := (u64le secret 48 ^^^ u64le secret 56) + seed
  let xLow := u64le data 0
  let xHigh := u64le data (data.size - 8)
  let mixed := (xLow ^^^ xHigh) ^^^ sLow
  let xHigh := xHigh ^^^ sHigh
  let result := mul128 mixed PRIME64_0
  let rLow := result.1
  let rHigh := result.2
  let rLow := rLow + ((UInt64.ofNat data.size - 1) <<< 54)
  let rHigh := rHigh + xHigh
  let rHigh := rHigh + (xHigh &&& (0xFFFFFFFF : UInt64)) * (PRIME32_1 - 1)
  let rLow := rLow ^^^ bswap64 rHigh
  let result2 := mul128 rLow PRIME64_1
  let r2Low := result2.1
  let r2High := result2.2
  let r2High := r2High + rHigh * PRIME64_1
  (xxh3Avalanche r2Low, xxh3Avalanche r2High)

def hash128_0to16 (data secret : ByteArray) (seed : UInt64) : UInt64 × UInt64 :=
  if data.size = 0 then hash128_0 secret seed
  else if data.size < 4 then hash128_1to3 data secret seed
  else if data.size ≤ 8 then hash128_4to8 data secret seed
  else hash128_9to16 data secret seed

/-- common tail of `hash128_17to128` and `hash128_129to240` -/
def finish128 (state : UInt64 × UInt64) (len : Nat) (seed : UInt64) : UInt64 × UInt64 :=
  let rLow := state.1 + state.2
  let rHigh := state.1 * PRIME64_0
  let rHigh := rHigh + state.2 * PRIME64_3
  let rHigh := rHigh + (UInt64.ofNat len - seed) * PRIME64_1
  (xxh3Avalanche rLow, 0 - xxh3Avalanche rHigh)

def hash128_17to128 (data secret : ByteArray) (seed : UInt64) : UInt64 × UInt64 :=
  let len := data.size
  let state : UInt64 × UInt64 := (PRIME64_0 * UInt64.ofNat len, 0)
  let state :=
    if len > 32 then
      let state :=
        if len > 64 then
          let state :=
            if len > 96 then mix32 state data 48 (len - 64) secret 96 seed else state
          mix32 state data 32 (len - 48) secret 64 seed
        else state
      mix32 state data 16 (len - 32) secret 32 seed
    else state
  let state := mix32 state data 0 (len - 16) secret 0 seed
  finish128 state len seed

/-- iterations `i, i+1, ..` (`n` of them) of the second loop of `hash128_129to240` -/
def midLoop (data secret : ByteArray) (seed : UInt64) :
    (n : Nat) → (i : Nat) → UInt64 × UInt64 → UInt64 × UInt64
  | 0, _, state => state
  | n + 1, i, state =>
    midLoop data secret seed n (i + 1)
      (mix32 state data (32 * i) (32 * i + 16) secret (3 + 32 * (i - 4)) seed)

def hash128_129to240 (data secret : ByteArray) (seed : UInt64) : UInt64 × UInt64 :=
  let len := data.size
  let iterations := len / 32
  let state : UInt64 × UInt64 := (PRIME64_0 * UInt64.ofNat len, 0)
  let state := mix32 state data 0 16 secret 0 seed
  let state := mix32 state data 32 48 secret 32 seed
  let state := mix32 state data 64 80 secret 64 seed
  let state := mix32 state data 96 112 secret 96 seed
  let state := (xxh3Avalanche state.1, xxh3Avalanche state.2)
  let state := midLoop data secret seed (iterations - 4) 4 state
  let state := mix32 state data (len - 16) (len - 32) secret (MIN_SECRET_SIZE - 33) (0 - seed)
  finish128 state len seed

def hash128_0to240 (data secret : ByteArray) (seed : UInt64) : UInt64 × UInt64 :=
  if data.size ≤ 16 then hash128_0to16 data secret seed
  else if data.size ≤ 128 then hash128_17to128 data secret seed
  else hash128_129to240 data secret seed

/-! ## entry points -/

/-- XXH3-128 of `data` with `seed`; returns (low 64 bits, high 64 bits) of the `u128` that the
Rust function `hash128_with_seed` returns -/
def hash128 (data : ByteArray) (seed : UInt64 := 0) : UInt64 × UInt64 :=
  if data.size ≤ 240 then hash128_0to240 data defaultSecret seed
  else hash128Large data seed

/-- `u64::to_le_bytes` -/
def u64ToLeBytes (x : UInt64) : List UInt8 :=
  [x.toUInt8, (x >>> 8).toUInt8, (x >>> 16).toUInt8, (x >>> 24).toUInt8,
   (x >>> 32).toUInt8, (x >>> 40).toUInt8, (x >>> 48).toUInt8, (x >>> 56).toUInt8]

/-- the 16 bytes `u128::to_le_bytes` of the checksum with seed 0 (low half first) -/
def checksum (data : ByteArray) : List UInt8 :=
  let h := hash128 data
  u64ToLeBytes h.1 ++ u64ToLeBytes h.2

end Redb.Xxh3
