/-
The I/O error latch of `CheckedBackend` (src/tree_store/page_store/cached_file.rs), property
C08: the first failing backend call latches `io_failed`; every later call returns `PreviousIo`
(`DatabaseClosed` after close) WITHOUT reaching the backend; a best-effort write (eviction of a
committed page that stays buffered) neither latches nor hides a failure. Import-free, executable.
-/
namespace Redb.Latch

structure LState where
  ioFailed : Bool := false
  closed : Bool := false
deriving BEq, Repr, DecidableEq

/-- a request to the checked backend; `backendOk` is what the backend would answer if reached -/
inductive Req where
  | io (backendOk : Bool)            -- len / read / write / set_len / sync_data
  | bestEffortWrite (backendOk : Bool)
  | close
deriving Repr, DecidableEq

inductive Res | ok | ioError | previousIo | databaseClosed
deriving BEq, Repr, DecidableEq

/-- (new state, result seen by redb, whether the backend was reached) -/
def step (s : LState) : Req → LState × Res × Bool
  | .close => ({ ioFailed := true, closed := true }, .ok, true)
  | .io okb =>
    if s.ioFailed then (s, if s.closed then .databaseClosed else .previousIo, false)
    else if okb then (s, .ok, true) else ({ s with ioFailed := true }, .ioError, true)
  | .bestEffortWrite okb =>
    if s.ioFailed then (s, if s.closed then .databaseClosed else .previousIo, false)
    else (s, if okb then .ok else .ioError, true)

def run (s : LState) : List Req → LState × List (Res × Bool)
  | [] => (s, [])
  | r :: rest =>
    let (s', res, reached) := step s r
    let (s'', out) := run s' rest
    (s'', (res, reached) :: out)

end Redb.Latch
