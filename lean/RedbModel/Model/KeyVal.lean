import RedbModel.Model.KeyType
/-!
VALUE level of the built-in key types (property C15). `Model/KeyType.lean` works on encoded bytes
only; this file adds the values themselves, the encoder (`Value::as_bytes`), the decoder
(`Value::from_bytes`) and the native order of the values (Rust's `Ord` of the corresponding Rust
type). Import-free apart from `KeyType`, executable, every function structurally recursive over
the descriptor `KT` (so closed terms reduce in the kernel).

Rust sources mirrored: `src/types.rs` (`()`, `bool`, `Option<T>`, `&[u8]`, `&[u8; N]`, `[T; N]`,
`&str`/`String`, `char`, `le_impl!` integers), `src/tuple_types.rs` (`serialize_tuple_elements_*`),
`src/complex_types.rs` (`encode_varint_len`), `src/types/uuid.rs` (16 raw bytes).
-/
namespace Redb.Key

/-- A value of some built-in key type. Which constructor belongs to which descriptor is fixed by
`wellTyped`:
`unit`: `()`, `bool`, `char c`: the Unicode scalar value `c`, `uint n`: `u8..u128`,
`sint i`: `i8..i128`, `str cs`: a `&str`/`String` as its sequence of scalar values,
`bytes bs`: `&[u8]`, `&[u8; N]` and `Uuid`, `none`/`some`: `Option<T>`, `arr`: `[T; N]`,
`tup`: tuples. -/
inductive Val where
  | unit
  | bool (b : Bool)
  | char (c : Nat)
  | uint (n : Nat)
  | sint (i : Int)
  | str (cs : List Nat)
  | bytes (bs : Bytes)
  | none
  | some (v : Val)
  | arr (vs : List Val)
  | tup (vs : List Val)
deriving Repr, Inhabited, BEq

/-! ### scalar helpers -/

/-- a Unicode scalar value (what a Rust `char` can hold) -/
def isScalar (c : Nat) : Bool := c < 0xD800 || (0xE000 ≤ c && c < 0x110000)

/-- `to_le_bytes` of a signed integer of `w` bytes (two's complement) -/
def intLe (w : Nat) (i : Int) : Bytes :=
  natLe w (if 0 ≤ i then i.toNat else (i + ((256 ^ w : Nat) : Int)).toNat)

/-- UTF-8 encoding of one scalar value (RFC 3629) -/
def utf8Char (c : Nat) : Bytes :=
  if c < 0x80 then [UInt8.ofNat c]
  else if c < 0x800 then [UInt8.ofNat (0xC0 + c / 64), UInt8.ofNat (0x80 + c % 64)]
  else if c < 0x10000 then
    [UInt8.ofNat (0xE0 + c / 4096), UInt8.ofNat (0x80 + c / 64 % 64), UInt8.ofNat (0x80 + c % 64)]
  else
    [UInt8.ofNat (0xF0 + c / 262144), UInt8.ofNat (0x80 + c / 4096 % 64),
      UInt8.ofNat (0x80 + c / 64 % 64), UInt8.ofNat (0x80 + c % 64)]

def utf8Enc : List Nat → Bytes
  | [] => []
  | c :: cs => utf8Char c ++ utf8Enc cs

/-- the scalar values of a UTF-8 byte string (meaningful on well-formed input only; `decode`
guards it with `validUtf8`) -/
def utf8Dec : Bytes → List Nat
  | [] => []
  | b0 :: rest =>
    if b0.toNat < 0x80 then b0.toNat :: utf8Dec rest
    else if b0.toNat < 0xE0 then
      match rest with
      | b1 :: r => (b0.toNat % 32 * 64 + b1.toNat % 64) :: utf8Dec r
      | _ => []
    else if b0.toNat < 0xF0 then
      match rest with
      | b1 :: b2 :: r => (b0.toNat % 16 * 4096 + b1.toNat % 64 * 64 + b2.toNat % 64) :: utf8Dec r
      | _ => []
    else
      match rest with
      | b1 :: b2 :: b3 :: r =>
        (b0.toNat % 8 * 262144 + b1.toNat % 64 * 4096 + b2.toNat % 64 * 64 + b3.toNat % 64)
          :: utf8Dec r
      | _ => []

/-- lexicographic order of two lists by an element comparison (Rust's `Ord` of slices, arrays) -/
def lexBy {α : Type} (c : α → α → Ordering) : List α → List α → Ordering
  | [], [] => .eq
  | [], _ :: _ => .lt
  | _ :: _, [] => .gt
  | a :: as, b :: bs =>
    match c a b with
    | .eq => lexBy c as bs
    | o => o

def mapOpt {α β : Type} (f : α → Option β) : List α → Option (List β)
  | [] => some []
  | a :: as =>
    match f a, mapOpt f as with
    | some b, some bs => some (b :: bs)
    | _, _ => none

/-- `n` consecutive elements of width `w` (`data[w*i .. w*(i+1)]`) -/
def strideElems (w : Nat) : Nat → Bytes → List Bytes
  | 0, _ => []
  | n + 1, d => d.take w :: strideElems w n (d.drop w)

/-! ### tuples: `serialize_tuple_elements_variable` / `_fixed` -/

/-- the varint length prefixes: one per variable-width element, the last element excluded
(`fws` = widths of all but the last element) -/
def tupleHeader : List (Option Nat) → List Bytes → Bytes
  | none :: fws, e :: es => encodeVarint e.length ++ tupleHeader fws es
  | some _ :: fws, _ :: es => tupleHeader fws es
  | _, _ => []

/-- `as_bytes` of a tuple from the widths and encodings of its elements. When every element is
fixed width the header is empty (`serialize_tuple_elements_fixed`). `(T,)` has no header either
and is encoded exactly as `T`. -/
def tupleBytes (fws : List (Option Nat)) (es : List Bytes) : Bytes :=
  tupleHeader fws.dropLast es ++ es.flatten

/-- every length that gets a varint prefix fits `u32` (the Rust `try_into().unwrap()`) -/
def varLensOk : List (Option Nat) → List Bytes → Bool
  | none :: fws, e :: es => e.length < 2 ^ 32 && varLensOk fws es
  | some _ :: fws, _ :: es => varLensOk fws es
  | _, _ => true

/-! ### encoder: `Value::as_bytes` -/

mutual
def encode : KT → Val → Bytes
  | .unit, _ => []
  | .bool, v => match v with
    | .bool b => [if b then 1 else 0]
    | _ => []
  | .char, v => match v with
    | .char c => natLe 3 c
    | _ => []
  | .uint w, v => match v with
    | .uint n => natLe w n
    | _ => []
  | .sint w, v => match v with
    | .sint i => intLe w i
    | _ => []
  | .str, v => match v with
    | .str cs => utf8Enc cs
    | _ => []
  | .bytes, v => match v with
    | .bytes b => b
    | _ => []
  | .fixedBytes _, v => match v with
    | .bytes b => b
    | _ => []
  | .option t, v => match v with
    | .none => 0 :: (match fixedWidth t with
      | some w => List.replicate w 0
      | none => [])
    | .some x => 1 :: encode t x
    | _ => []
  | .array _ t, v => match v with
    | .arr vs => (match fixedWidth t with
      | some _ => (vs.map (encode t)).flatten
      | none => buildArray (vs.map (encode t)))
    | _ => []
  | .tuple ts, v => match v with
    | .tup vs => tupleBytes (fixedWidthList ts) (encodeList ts vs)
    | _ => []
def encodeList : List KT → List Val → List Bytes
  | t :: ts, v :: vs => encode t v :: encodeList ts vs
  | _, _ => []
end

/-! ### which values belong to a type

Besides the shape this demands what the Rust encoder demands in order not to panic: a
variable-width array fits `u32` end offsets, a length-prefixed tuple element fits a `u32` varint. -/

mutual
def wellTyped : KT → Val → Bool
  | .unit, v => match v with
    | .unit => true
    | _ => false
  | .bool, v => match v with
    | .bool _ => true
    | _ => false
  | .char, v => match v with
    | .char c => isScalar c
    | _ => false
  | .uint w, v => match v with
    | .uint n => n < 256 ^ w
    | _ => false
  | .sint w, v => match v with
    | .sint i => 0 < w && -((2 ^ (8 * w - 1) : Nat) : Int) ≤ i && i < ((2 ^ (8 * w - 1) : Nat) : Int)
    | _ => false
  | .str, v => match v with
    | .str cs => cs.all isScalar
    | _ => false
  | .bytes, v => match v with
    | .bytes _ => true
    | _ => false
  | .fixedBytes n, v => match v with
    | .bytes b => b.length == n
    | _ => false
  | .option t, v => match v with
    | .none => true
    | .some x => wellTyped t x
    | _ => false
  | .array n t, v => match v with
    | .arr vs => vs.length == n && vs.all (wellTyped t) &&
        ((fixedWidth t).isSome || (buildArray (vs.map (encode t))).length < 2 ^ 32)
    | _ => false
  | .tuple ts, v => match v with
    | .tup vs => wellTypedList ts vs && varLensOk (fixedWidthList ts).dropLast (encodeList ts vs)
    | _ => false
def wellTypedList : List KT → List Val → Bool
  | [], [] => true
  | t :: ts, v :: vs => wellTyped t v && wellTypedList ts vs
  | _, _ => false
end

/-! ### decoder: `Value::from_bytes`

Total: `none` where the Rust code would panic or read garbage. -/

mutual
def decode : KT → Bytes → Option Val
  | .unit, _ => some .unit
  | .bool, d => match d with
    | [b] => if b.toNat = 0 then some (.bool false) else if b.toNat = 1 then some (.bool true)
      else none
    | _ => none
  | .char, d => if d.length = 3 ∧ isScalar (leNat d) = true then some (.char (leNat d)) else none
  | .uint w, d => if d.length = w then some (.uint (leNat d)) else none
  | .sint w, d => if d.length = w then some (.sint (leInt d)) else none
  | .str, d => if validUtf8 d = true then some (.str (utf8Dec d)) else none
  | .bytes, d => some (.bytes d)
  | .fixedBytes n, d => if d.length = n then some (.bytes d) else none
  | .option t, d => match d with
    | [] => none
    | tag :: rest =>
      if tag.toNat = 0 then some .none
      else if tag.toNat = 1 then (decode t rest).map .some
      else none
  | .array n t, d => match fixedWidth t with
    | some w => (mapOpt (decode t) (strideElems w n d)).map .arr
    | none => (mapOpt (decode t) ((List.range n).map (arrayElement n d))).map .arr
  | .tuple ts, d => (decodeList ts (tupleElements (fixedWidthList ts) d)).map .tup
def decodeList : List KT → List Bytes → Option (List Val)
  | [], [] => some []
  | t :: ts, e :: es =>
    match decode t e, decodeList ts es with
    | some v, some vs => some (v :: vs)
    | _, _ => none
  | _, _ => none
end

/-! ### the native order of the values (Rust `Ord`)

integers numerically, `false < true`, `char` by scalar value, `str` by scalar values
(lexicographic), `[u8]` lexicographic, `None < Some`, arrays and tuples lexicographic by
component. -/

mutual
def vcmp : KT → Val → Val → Ordering
  | .unit, _, _ => .eq
  | .bool, a, b => match a, b with
    | .bool x, .bool y => compare x.toNat y.toNat
    | _, _ => .eq
  | .char, a, b => match a, b with
    | .char x, .char y => compare x y
    | _, _ => .eq
  | .uint _, a, b => match a, b with
    | .uint x, .uint y => compare x y
    | _, _ => .eq
  | .sint _, a, b => match a, b with
    | .sint x, .sint y => compare x y
    | _, _ => .eq
  | .str, a, b => match a, b with
    | .str x, .str y => lexBy (fun (p q : Nat) => compare p q) x y
    | _, _ => .eq
  | .bytes, a, b => match a, b with
    | .bytes x, .bytes y => lexCmp x y
    | _, _ => .eq
  | .fixedBytes _, a, b => match a, b with
    | .bytes x, .bytes y => lexCmp x y
    | _, _ => .eq
  | .option t, a, b => match a, b with
    | .none, .none => .eq
    | .none, .some _ => .lt
    | .some _, .none => .gt
    | .some x, .some y => vcmp t x y
    | _, _ => .eq
  | .array _ t, a, b => match a, b with
    | .arr xs, .arr ys => lexBy (vcmp t) xs ys
    | _, _ => .eq
  | .tuple ts, a, b => match a, b with
    | .tup xs, .tup ys => vcmpList ts xs ys
    | _, _ => .eq
def vcmpList : List KT → List Val → List Val → Ordering
  | t :: ts, a :: as, b :: bs =>
    match vcmp t a b with
    | .eq => vcmpList ts as bs
    | o => o
  | _, _, _ => .eq
end

end Redb.Key
