/-
Page life-cycle monitor (properties C06, C02, C05, C07, C11, C13): the abstract page-ownership
state of the database at a transaction boundary, as observed through the read-only snapshot
hooks, and the decidable conditions the driver checks on every observed state and on every
observed transition. Import-free, executable.

Pages are order-0 global page ids. An allocated page is owned by the latest data tree, the
latest system tree, or a pending-free record keyed by the transaction that made it unreachable.
A *pin* is a snapshot that must stay readable: a live read transaction, a savepoint, or the last
durable commit (its data tree; its system tree is `dsys`).
-/
namespace Redb.Life

abbrev Page := Nat

inductive PinKind | reader | savepoint | durable
deriving BEq, Repr, DecidableEq

structure Pin where
  id : Nat
  kind : PinKind
  pages : List Page
deriving BEq, Repr

structure St where
  id : Nat                          -- latest committed transaction id
  dur : Nat                         -- last durable transaction id
  alloc : List Page                 -- allocated pages (allocator bits)
  data : List Page                  -- pages of the latest data tree
  sys : List Page                   -- pages of the latest system tree
  dfreed : List (Nat × List Page)   -- data pages pending free, by freeing transaction
  sfreed : List (Nat × List Page)   -- system pages pending free, by freeing transaction
  dsys : List Page                  -- pages of the durable system tree
  pins : List Pin
deriving Repr

inductive Owner where
  | data | sys
  | dfreed (t : Nat)
  | sfreed (t : Nat)
deriving BEq, Repr, DecidableEq

/-- every (page, owner) claim of the state -/
def claims (s : St) : List (Page × Owner) :=
  s.data.map (·, .data) ++ s.sys.map (·, .sys) ++
  s.dfreed.flatMap (fun r => r.2.map (·, Owner.dfreed r.1)) ++
  s.sfreed.flatMap (fun r => r.2.map (·, Owner.sfreed r.1))

def owned (s : St) : List Page := (claims s).map (·.1)

/-- the owner of a page, if any (the first claim; under `ownOk` it is the only one) -/
def owner (s : St) (p : Page) : Option Owner :=
  ((claims s).find? (fun c => c.1 == p)).map (·.2)

/-- "exactly one owner": no page is claimed twice, every claimed page is allocated, every
allocated page is claimed, the allocated list has no duplicates -/
def ownOk (s : St) : Bool :=
  (owned s).Nodup && s.alloc.Nodup &&
  (owned s).all (fun p => s.alloc.contains p) && s.alloc.all (fun p => (owned s).contains p)

/-- pages a snapshot taken at transaction `id` may still reach: the latest data tree and the
records of transactions after `id` -/
def reachableFrom (s : St) (id : Nat) : List Page :=
  s.data ++ (s.dfreed.filter (fun r => id < r.1)).flatMap (·.2)

def sysReachableFrom (s : St) (id : Nat) : List Page :=
  s.sys ++ (s.sfreed.filter (fun r => id < r.1)).flatMap (·.2)

/-- every pin's pages are accounted for where a snapshot of that age must find them, and the
durable system tree likewise -/
def pinOk (s : St) : Bool :=
  s.pins.all (fun π => π.pages.all (fun p => (reachableFrom s π.id).contains p)) &&
  s.dsys.all (fun p => (sysReachableFrom s s.dur).contains p) &&
  -- the durable pin is the snapshot of the last durable commit; no pin is from the future
  s.pins.all (fun π => π.kind != .durable || π.id == s.dur) &&
  s.pins.all (fun π => π.id ≤ s.id)

/-- same pin in both states -/
def Pin.same (a b : Pin) : Bool := a.id == b.id && a.kind == b.kind && a.pages == b.pages

/-- pins of `s` that are still present in `s'` (the durable pin survives iff the durable commit
did not advance) -/
def surviving (s s' : St) : List Pin := s.pins.filter (fun π => s'.pins.any (fun π' => π.same π'))

/-- the page is not reachable from any surviving pin, nor from the durable system tree when
that did not advance -/
def unpinned (s s' : St) (p : Page) : Bool :=
  (surviving s s').all (fun π => !π.pages.contains p) &&
  (s.dur != s'.dur || !s.dsys.contains p)

/-- The only moves an owned page may make between two observed states of one running database:
 * stay with its owner;
 * leave the latest tree into the record of a later transaction (it became unreachable);
 * move to the record of a later transaction (still pending, kept longer);
 * come back from a record into the latest data tree because a savepoint that still pins it
   was restored;
 * anything else (released, or released and allocated again) only if no surviving pin and no
   unchanged durable root reaches it. -/
def moveOk (s s' : St) (p : Page) : Bool :=
  match owner s p, owner s' p with
  | none, _ => true                                   -- was free: any allocation is fine
  | some o, some o' =>
    if o == o' then true else
    match o, o' with
    | .data, .dfreed t => s.id < t
    | .sys, .sfreed t => s.id < t
    | .dfreed t, .dfreed t' => t ≤ t'
    | .sfreed t, .sfreed t' => t ≤ t'
    | .dfreed t, .data =>
      s.pins.any (fun π => π.kind == .savepoint && π.id < t && π.pages.contains p) ||
      unpinned s s' p
    | _, _ => unpinned s s' p
  | some _, none => unpinned s s' p

/-- A legal transition between two observed states. Across a crash + recovery (`crash = true`)
the in-memory state is rebuilt from the last durable commit, so non-durable commits, their
transaction ids and their page moves are rolled back: only the per-state conditions (`ownOk`,
`pinOk` of the recovered state, which still lists the persistent savepoints and the durable
root) and the monotonicity of the durable transaction id are required. -/
def stepOk (crash : Bool) (s s' : St) : Bool :=
  if crash then s.dur ≤ s'.dur
  else s.alloc.all (moveOk s s') && s.id ≤ s'.id && s.dur ≤ s'.dur &&
    -- the durable system tree is fixed for as long as the durable commit does not advance
    (s.dur != s'.dur || s.dsys == s'.dsys)

/-- same elements (the lists are duplicate-free under `ownOk`) -/
def sameSet (a b : List Page) : Bool := a.all (fun p => b.contains p) && b.all (fun p => a.contains p)

def sameRecords (a b : List (Nat × List Page)) : Bool :=
  a.all (fun r => b.any (fun r' => r.1 == r'.1 && sameSet r.2 r'.2)) &&
  b.all (fun r => a.any (fun r' => r.1 == r'.1 && sameSet r.2 r'.2))

/-- An abandoned write transaction (abort, drop, refused commit of a poisoned transaction)
leaves no trace in the page accounting: the same pages are allocated, with the same owners, the
same pending-free records and the same committed and durable transaction ids. (Only the
transaction-id counter, which is not part of `St`, may have advanced.) -/
def abortOk (s s' : St) : Bool :=
  sameSet s.alloc s'.alloc && sameSet s.data s'.data && sameSet s.sys s'.sys &&
  sameRecords s.dfreed s'.dfreed && sameRecords s.sfreed s'.sfreed &&
  s.id == s'.id && s.dur == s'.dur && sameSet s.dsys s'.dsys

/-- `accept`: every state is well accounted and every transition is legal; the trace is a list
of (arrived-by-crash, state) -/
def accept : List (Bool × St) → Bool
  | [] => true
  | [s] => ownOk s.2 && pinOk s.2
  | s :: s' :: rest => ownOk s.2 && pinOk s.2 && stepOk s'.1 s.2 s'.2 && accept (s' :: rest)

end Redb.Life
