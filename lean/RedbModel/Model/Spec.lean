import RedbModel.Model.KeyType
/-
The abstract specification of a redb table (property C04): a list of (key, value) pairs kept
strictly sorted under the key type's comparator. Every table API in the property statement is a
function on this list. Import-free apart from the key-type model; executable.
-/
namespace Redb.Spec
open Redb.Key

abbrev Entry := Bytes × Bytes
abbrev Map := List Entry

inductive Bound where
  | unb
  | incl (k : Bytes)
  | excl (k : Bytes)
deriving Repr, BEq

/-- insert or replace; returns the previous value -/
def insert (t : KT) : Map → Bytes → Bytes → Map × Option Bytes
  | [], k, v => ([(k, v)], none)
  | (k', v') :: rest, k, v =>
    match cmp t k k' with
    | .lt => ((k, v) :: (k', v') :: rest, none)
    | .eq => ((k', v) :: rest, some v')
    | .gt => let r := insert t rest k v; ((k', v') :: r.1, r.2)

def get (t : KT) : Map → Bytes → Option Bytes
  | [], _ => none
  | (k', v') :: rest, k =>
    match cmp t k k' with
    | .lt => none
    | .eq => some v'
    | .gt => get t rest k

def remove (t : KT) : Map → Bytes → Map × Option Bytes
  | [], _ => ([], none)
  | (k', v') :: rest, k =>
    match cmp t k k' with
    | .lt => ((k', v') :: rest, none)
    | .eq => (rest, some v')
    | .gt => let r := remove t rest k; ((k', v') :: r.1, r.2)

def popFirst : Map → Map × Option Entry
  | [] => ([], none)
  | e :: rest => (rest, some e)

def popLast (m : Map) : Map × Option Entry :=
  match m.getLast? with
  | none => (m, none)
  | some e => (m.dropLast, some e)

def inRange (t : KT) (lo hi : Bound) (k : Bytes) : Bool :=
  (match lo with
   | .unb => true
   | .incl b => cmp t k b != .lt
   | .excl b => cmp t k b == .gt) &&
  (match hi with
   | .unb => true
   | .incl b => cmp t k b != .gt
   | .excl b => cmp t k b == .lt)

def range (t : KT) (m : Map) (lo hi : Bound) : List Entry :=
  m.filter (fun e => inRange t lo hi e.1)

/-- consumption of a double-ended iterator: `fwd`, `rev`, or alternating starting at the front -/
inductive Mode | fwd | rev | alt
deriving BEq

def consume (l : List Entry) (mode : Mode) (limit : Nat) : List Entry :=
  match mode with
  | .fwd => l.take limit
  | .rev => l.reverse.take limit
  | .alt =>
    let rec go (fuel : Nat) (front : Bool) (l : List Entry) (acc : List Entry) : List Entry :=
      match fuel with
      | 0 => acc.reverse
      | fuel + 1 =>
        match l with
        | [] => acc.reverse
        | e :: rest =>
          if front then go fuel false rest (e :: acc)
          else
            match l.getLast? with
            | none => acc.reverse
            | some x => go fuel true l.dropLast (x :: acc)
    go limit true l []

/-- `retain_in`: entries inside the range for which the predicate is false are removed -/
def retainIn (t : KT) (m : Map) (lo hi : Bound) (p : Bytes → Bytes → Bool) : Map :=
  m.filter (fun e => !(inRange t lo hi e.1) || p e.1 e.2)

/-- `extract_from_if` consumed according to `mode`/`limit`: returns (new map, yielded entries) -/
def extractIf (t : KT) (m : Map) (lo hi : Bound) (p : Bytes → Bytes → Bool) (mode : Mode)
    (limit : Nat) : Map × List Entry :=
  let sel := m.filter (fun e => inRange t lo hi e.1 && p e.1 e.2)
  let got := consume sel mode limit
  (got.foldl (fun acc e => (remove t acc e.1).1) m, got)

/-- strictly sorted under `cmp t` -/
def Sorted (t : KT) : Map → Prop
  | [] => True
  | [_] => True
  | a :: b :: rest => cmp t a.1 b.1 = .lt ∧ Sorted t (b :: rest)

end Redb.Spec
