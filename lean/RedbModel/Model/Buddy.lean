/-
Model of redb's buddy page allocator (src/tree_store/page_store/buddy_allocator.rs,
bitmap.rs). Import-free, executable.

Representation: `free[o][i] = true` means "block i of order o is NOT free at this order"
(the Rust bitmaps store exactly this bit: set = not free). The 64-way summary levels of the
Rust `BtreeBitmap` are an index over the leaf level; they are recomputed in `toBytes` only.
-/
namespace Redb.Buddy

abbrev Bits := List Bool

def maxMaxOrder : Nat := 20

def getBit (f : List Bits) (o i : Nat) : Bool := (f.getD o []).getD i true
def lenAt (f : List Bits) (o : Nat) : Nat := (f.getD o []).length
def setBit (f : List Bits) (o i : Nat) (v : Bool) : List Bits := f.modify o (fun bs => bs.set i v)

/-- `BtreeBitmap::find_first_unset` at the leaf level. -/
def firstUnset (bs : Bits) : Option Nat := bs.findIdx? (fun b => !b)

/-- `BuddyAllocator::alloc_inner`. -/
def allocInner (mo : Nat) (f : List Bits) (o : Nat) : Option (Nat × List Bits) :=
  if o > mo then none else
  match firstUnset (f.getD o []) with
  | some x => some (x, setBit f o x true)
  | none =>
    match allocInner mo f (o + 1) with
    | none => none
    | some (up, f') => some (2 * up, setBit f' o (2 * up + 1) false)
termination_by mo + 1 - o

/-- `BuddyAllocator::free_inner`; returns the new bits and the order at which merging stopped. -/
def freeInner (mo : Nat) (f : List Bits) (p o : Nat) : List Bits × Nat :=
  if o ≥ mo then (setBit f o p false, o) else
  let buddy := p ^^^ 1
  if buddy ≥ lenAt f o || getBit f o buddy then (setBit f o p false, o)
  else freeInner mo (setBit f o buddy true) (p / 2) (o + 1)
termination_by mo - o

/-- `BuddyAllocator::record_alloc_inner`; `none` = returned `false` (state untouched). -/
def recordAllocInner (mo : Nat) (f : List Bits) (p o : Nat) : Option (List Bits) :=
  if o > mo then none
  else if p ≥ lenAt f o then none
  else if getBit f o p then
    match recordAllocInner mo f (p / 2) (o + 1) with
    | none => none
    | some f' => some (setBit f' o (p ^^^ 1) false)
  else some (setBit f o p true)
termination_by mo + 1 - o

/-- One step of the search loop in `alloc_lowest`: try order `i`, keep the lower candidate. -/
structure LowState where
  bestAtOrder : Nat
  bestIdx : Nat
  bestOrder : Nat
  f : List Bits

def lowestStep (mo o : Nat) (s : LowState) (i : Nat) : LowState :=
  match allocInner mo s.f i with
  | none => s
  | some (index, f') =>
    let iao := index * 2 ^ (i - o)
    if iao < s.bestAtOrder then
      { bestAtOrder := iao, bestIdx := index, bestOrder := i,
        f := (freeInner mo f' s.bestIdx s.bestOrder).1 }
    else { s with f := (freeInner mo f' index i).1 }

/-- The split-down loop of `alloc_lowest`. -/
def splitDown (f : List Bits) (idx ord o : Nat) : Nat × List Bits :=
  if ord > o then splitDown (setBit f (ord - 1) (2 * idx + 1) false) (2 * idx) (ord - 1) o
  else (idx, f)
termination_by ord - o

/-- `BuddyAllocator::alloc_lowest`. -/
def allocLowest (mo : Nat) (f : List Bits) (o : Nat) : Option (Nat × List Bits) :=
  match allocInner mo f o with
  | none => none
  | some (idx, f1) =>
    let s := (List.range' (o + 1) (mo - o)).foldl (lowestStep mo o)
      { bestAtOrder := idx, bestIdx := idx, bestOrder := o, f := f1 }
    some (splitDown s.f s.bestIdx s.bestOrder o)

/-- `calculate_usable_order`. -/
def usableOrder (cap : Nat) : Nat := min maxMaxOrder cap.log2

/-- greedy marking of free blocks in `new`: from `accounted`, at order `o`. -/
def markFreeAt (num o : Nat) (fuel : Nat) (acc : Nat) (f : List Bits) : Nat × List Bits :=
  match fuel with
  | 0 => (acc, f)
  | fuel + 1 =>
    if acc + 2 ^ o ≤ num then markFreeAt num o fuel (acc + 2 ^ o) (setBit f o (acc / 2 ^ o) false)
    else (acc, f)

structure Buddy where
  free : List Bits
  len : Nat
  maxOrder : Nat
  cap : Nat
deriving Repr, BEq, DecidableEq

/-- `BuddyAllocator::new(num_pages, max_page_capacity)`. -/
def Buddy.new (num cap : Nat) : Buddy :=
  let mo := usableOrder cap
  let f0 : List Bits := (List.range (mo + 1)).map (fun o => List.replicate (num >>> o) true)
  let r := (List.range (mo + 1)).reverse.foldl
    (fun (s : Nat × List Bits) o => markFreeAt num o (num + 1) s.1 s.2) (0, f0)
  { free := r.2, len := num, maxOrder := mo, cap := cap }

def Buddy.alloc (b : Buddy) (o : Nat) : Option (Nat × Buddy) :=
  match allocInner b.maxOrder b.free o with
  | none => none
  | some (i, f) => some (i, { b with free := f })

def Buddy.allocLowest (b : Buddy) (o : Nat) : Option (Nat × Buddy) :=
  match Redb.Buddy.allocLowest b.maxOrder b.free o with
  | none => none
  | some (i, f) => some (i, { b with free := f })

def Buddy.freeBlock (b : Buddy) (p o : Nat) : Buddy × Nat :=
  let r := freeInner b.maxOrder b.free p o
  ({ b with free := r.1 }, r.2)

def Buddy.recordAlloc (b : Buddy) (p o : Nat) : Option Buddy :=
  match recordAllocInner b.maxOrder b.free p o with
  | none => none
  | some f => some { b with free := f }

/-- `BtreeBitmap::resize(new_len, full = true)` on the leaf level. -/
def resizeBits (bs : Bits) (n : Nat) : Bits :=
  if n ≤ bs.length then bs.take n else bs ++ List.replicate (n - bs.length) true

def resizeAll (f : List Bits) (n : Nat) : List Bits :=
  (List.range f.length).map (fun o => resizeBits (f.getD o []) (n >>> o))

/-- first loop of the grow path of `resize`: free aligned blocks of increasing order. -/
def growAlign (mo newSize : Nat) (fuel : Nat) (processed : Nat) (f : List Bits) : Nat × List Bits :=
  match fuel with
  | 0 => (processed, f)
  | fuel + 1 =>
    if processed < newSize then
      -- trailing_zeros of 0 is 32 in Rust (u32), always ≥ max_order
      let order := if processed = 0 then 32 else (processed &&& (processed ^^^ (processed - 1))).log2
      let sz := 2 ^ order
      if order ≥ mo || processed + sz > newSize then (processed, f)
      else growAlign mo newSize fuel (processed + sz) (freeInner mo f (processed / sz) order).1
    else (processed, f)

def growFill (mo newSize o : Nat) (fuel : Nat) (processed : Nat) (f : List Bits) : Nat × List Bits :=
  match fuel with
  | 0 => (processed, f)
  | fuel + 1 =>
    if processed + 2 ^ o ≤ newSize then
      growFill mo newSize o fuel (processed + 2 ^ o) (freeInner mo f (processed / 2 ^ o) o).1
    else (processed, f)

/-- shrink path: record_alloc the tail; `none` models the Rust `assert!` failing. -/
def shrinkAlign (mo len : Nat) (fuel : Nat) (processed : Nat) (f : List Bits) :
    Option (Nat × List Bits) :=
  match fuel with
  | 0 => some (processed, f)
  | fuel + 1 =>
    if processed < len then
      let order := if processed = 0 then 32 else (processed &&& (processed ^^^ (processed - 1))).log2
      if order ≥ mo then some (processed, f)
      else
        let sz := 2 ^ order
        if processed + sz > len then some (processed, f)
        else match recordAllocInner mo f (processed / sz) order with
          | none => none
          | some f' => shrinkAlign mo len fuel (processed + sz) f'
    else some (processed, f)

def shrinkFill (mo len o : Nat) (fuel : Nat) (processed : Nat) (f : List Bits) :
    Option (Nat × List Bits) :=
  match fuel with
  | 0 => some (processed, f)
  | fuel + 1 =>
    if processed + 2 ^ o ≤ len then
      match recordAllocInner mo f (processed / 2 ^ o) o with
      | none => none
      | some f' => shrinkFill mo len o fuel (processed + 2 ^ o) f'
    else some (processed, f)

/-- `BuddyAllocator::resize`. `none` = an assertion of the Rust code would fire. -/
def Buddy.resize (b : Buddy) (newSize : Nat) : Option Buddy :=
  let mo := b.maxOrder
  if newSize > b.len then
    let f0 := resizeAll b.free newSize
    let (p1, f1) := growAlign mo newSize (newSize + 1) b.len f0
    let r := (List.range (mo + 1)).reverse.foldl
      (fun (s : Nat × List Bits) o => growFill mo newSize o (newSize + 1) s.1 s.2) (p1, f1)
    if r.1 = newSize then some { b with free := r.2, len := newSize } else none
  else
    match shrinkAlign mo b.len (b.len + 1) newSize b.free with
    | none => none
    | some (p1, f1) =>
      let r := (List.range (mo + 1)).reverse.foldl
        (fun (s : Option (Nat × List Bits)) o =>
          match s with
          | none => none
          | some (p, f) => shrinkFill mo b.len o (b.len + 1) p f) (some (p1, f1))
      match r with
      | none => none
      | some (p, f) =>
        if p = b.len then some { b with free := resizeAll f newSize, len := newSize } else none

/-! ### Queries -/

def countUnset (bs : Bits) : Nat := bs.countP (fun b => !b)

def Buddy.countFree (b : Buddy) : Nat :=
  (List.range (b.maxOrder + 1)).foldl (fun acc o => acc + countUnset (b.free.getD o []) * 2 ^ o) 0

def Buddy.highestFreeOrder (b : Buddy) : Option Nat :=
  (List.range (b.maxOrder + 1)).reverse.find? (fun o => (b.free.getD o []).any (fun x => !x))

/-- `find_free_order`. -/
def findFreeOrder (f : List Bits) (mo : Nat) (page : Nat) : Option Nat :=
  let rec go (fuel o page : Nat) : Option Nat :=
    match fuel with
    | 0 => none
    | fuel + 1 =>
      if page < lenAt f o && !getBit f o page then some o else go fuel (o + 1) (page / 2)
  go (mo + 1) 0 page

def Buddy.trailingFree (b : Buddy) : Nat :=
  let rec go (fuel next acc : Nat) : Nat :=
    match fuel with
    | 0 => acc
    | fuel + 1 =>
      match findFreeOrder b.free b.maxOrder next with
      | none => acc
      | some o =>
        let sz := 2 ^ o
        if sz > next then acc + sz else go fuel (next - sz) (acc + sz)
  if b.len = 0 then 0 else go (b.len + 1) (b.len - 1) 0

/-! ### Serialization (format of `BuddyAllocator::to_vec`, `BtreeBitmap::to_vec`) -/

def u32le (n : Nat) : List UInt8 :=
  [UInt8.ofNat (n % 256), UInt8.ofNat (n / 256 % 256), UInt8.ofNat (n / 65536 % 256),
   UInt8.ofNat (n / 16777216 % 256)]

def rdU32 (d : List UInt8) (off : Nat) : Nat :=
  (d.getD off 0).toNat + 256 * (d.getD (off + 1) 0).toNat + 65536 * (d.getD (off + 2) 0).toNat
    + 16777216 * (d.getD (off + 3) 0).toNat

/-- 8 bits (little end first) to a byte; missing bits read as 1 (padding is "full"). -/
def byteOfBits (bs : Bits) : UInt8 :=
  UInt8.ofNat ((List.range 8).foldl (fun acc i => acc + (if bs.getD i true then 2 ^ i else 0)) 0)

/-- the words of one level: `ceil(len/64)` u64 little-endian, padded with ones -/
def levelWords (bs : Bits) : List UInt8 :=
  let words := (bs.length + 63) / 64
  (List.range (words * 8)).map (fun k => byteOfBits (bs.drop (8 * k)))

/-- summary level above `bs`: bit i = all 64 bits of word i set (padding counts as set);
its length is `ceil(len/64)`. -/
def summary (bs : Bits) : Bits :=
  (List.range ((bs.length + 63) / 64)).map (fun i => ((bs.drop (64 * i)).take 64).all id)

def heightForCapacity (cap : Nat) : Nat :=
  let rec go (fuel cap h : Nat) : Nat :=
    match fuel with
    | 0 => h
    | fuel + 1 => if cap > 64 then go fuel ((cap + 63) / 64) (h + 1) else h
  go 8 cap 1

/-- levels root-first, given the leaf bits and the height -/
def levelsOf (leaf : Bits) (height : Nat) : List Bits :=
  let rec go (n : Nat) (cur : Bits) (acc : List Bits) : List Bits :=
    match n with
    | 0 => acc
    | n + 1 => go n (summary cur) (cur :: acc)
  go height leaf []

def bitmapToBytes (leaf : Bits) (height : Nat) : List UInt8 :=
  let lv := levelsOf leaf height
  let datas := lv.map (fun l => u32le l.length ++ levelWords l)
  let start := 4 + 4 * lv.length
  let ends := (datas.foldl (fun (s : Nat × List Nat) d => (s.1 + d.length, s.2 ++ [s.1 + d.length]))
    (start, [])).2
  u32le lv.length ++ (ends.map u32le).flatten ++ datas.flatten

def Buddy.toBytes (b : Buddy) : List UInt8 :=
  let ser := (List.range (b.maxOrder + 1)).map (fun o =>
    bitmapToBytes (b.free.getD o []) (heightForCapacity (b.cap >>> o)))
  let start := 8 + 4 * (b.maxOrder + 1)
  let ends := (ser.foldl (fun (s : Nat × List Nat) d => (s.1 + d.length, s.2 ++ [s.1 + d.length]))
    (start, [])).2
  [UInt8.ofNat b.maxOrder, 0, 0, 0] ++ u32le b.len ++ (ends.map u32le).flatten ++ ser.flatten

def bitsOfBytes (d : List UInt8) (n : Nat) : Bits :=
  (List.range n).map (fun i => (d.getD (i / 8) 0).toNat.testBit (i % 8))

/-- leaf level of a serialized `BtreeBitmap` -/
def bitmapLeafOfBytes (d : List UInt8) : Bits :=
  let height := rdU32 d 0
  if height = 0 then [] else
  let dataStart := if height = 1 then 4 + 4 * height else rdU32 d (4 + 4 * (height - 2))
  let len := rdU32 d dataStart
  bitsOfBytes (d.drop (dataStart + 4)) len

/-- `BuddyAllocator::from_bytes` (the capacity is not stored; the caller supplies it) -/
def Buddy.fromBytes (d : List UInt8) (cap : Nat) : Buddy :=
  let mo := (d.getD 0 0).toNat
  let len := rdU32 d 4
  let start0 := 8 + 4 * (mo + 1)
  let free := (List.range (mo + 1)).map (fun o =>
    let s := if o = 0 then start0 else rdU32 d (8 + 4 * (o - 1))
    let e := rdU32 d (8 + 4 * o)
    bitmapLeafOfBytes ((d.take e).drop s))
  { free := free, len := len, maxOrder := mo, cap := cap }

end Redb.Buddy
