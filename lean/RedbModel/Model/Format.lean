import RedbModel.Model.KeyType
import RedbModel.Model.Spec
import RedbModel.Model.BTree
import RedbModel.Model.Xxh3
/-
Executable decoder / validator of the redb on-disk file format, version 3 (property C10).

Everything here follows docs/design.md ("File format", "B+tree pages") and the accessor code it
describes:
  * super header and commit slots  -- src/tree_store/page_store/header.rs
  * region layout, page addresses   -- src/tree_store/page_store/layout.rs, base.rs (`PageNumber`)
  * leaf / branch pages, checksums  -- src/tree_store/btree_base.rs (`LeafAccessor`, `BranchAccessor`,
                                       `leaf_checksum`, `branch_checksum`, `BtreeHeader`)
  * table definitions               -- src/tree_store/table_tree_base.rs (`InternalTableDefinition`)
  * multimap value sets             -- src/tree_store/multimap_btree.rs (`DynamicCollection`)
  * system tables                   -- src/transactions.rs
All integers are little endian. All functions are total (fuel 128 = `MAX_BTREE_DEPTH`).

The decoder is layered:
  bytes ──decodeHeader/decodeSlot──▶ `Header`, `Slot`
        ──getPage──▶ page bytes ──decodeLeaf/decodeBranch──▶ `LeafPage`, `BranchPage`
        ──decodeTree──▶ `PTree` (the abstract `BTree.Tree` decorated with page numbers)
        ──checkTree──▶ `BTree.wf` (ordering, routing keys, uniform depth)
        ──checkImage──▶ all tables of both master trees, page uniqueness, contents.
Errors are the complete `DIFF img <conjunct> <detail>` line. Conjuncts:
  slot-checksum       primary commit slot checksum
  page-checksum       checksum stored for a page (in its parent / `BtreeHeader`) ≠ XXH3-128 of the page
  keys-not-increasing keys of a leaf, routing keys of a branch or an inline value set not valid and
                      strictly increasing
  separator-bound     a key outside the interval (lo, hi] given by the routing keys above its page
  depth               leaves at different depths, or deeper than 128
  length-field        a `BtreeHeader.length` (commit slot, table definition, value subtree) ≠ number
                      of pairs in that tree (for a master tree: the number of tables)
  count-mismatch      `table_length` of a table definition ≠ pairs present (multimap: (key, value) pairs)
  page-twice          a page referenced twice, or two referenced pages overlapping
  page-out-of-range   page outside the region layout
  decode              structurally undecodable
  contents            decoded contents ≠ expected count / hash
  table-set           unexpected / missing user table, or stored type ≠ expected type
-/
namespace Redb.Format
open Redb.Key Redb.Spec Redb.BTree

/-! ## byte helpers -/

/-- byte at `off` (0 past the end; callers check lengths first) -/
def byteAt (d : Bytes) (off : Nat) : Nat := (d.getD off 0).toNat
def u16At (d : Bytes) (off : Nat) : Nat := leNat ((d.drop off).take 2)
def u32At (d : Bytes) (off : Nat) : Nat := leNat ((d.drop off).take 4)
def u64At (d : Bytes) (off : Nat) : Nat := leNat ((d.drop off).take 8)

def hexDigit (n : Nat) : Char :=
  if n < 10 then Char.ofNat (48 + n) else Char.ofNat (87 + n)

/-- hex rendering used in diagnostics only (first 16 bytes) -/
def hex (b : Bytes) : String :=
  let s := String.ofList ((b.take 16).flatMap
    (fun x => [hexDigit (x.toNat / 16), hexDigit (x.toNat % 16)]))
  if b.isEmpty then "-" else if b.length > 16 then s ++ s!"..({b.length}B)" else s

/-- `n` consecutive little-endian u32 -/
def readU32s : Nat → Bytes → List Nat
  | 0, _ => []
  | n + 1, d => leNat (d.take 4) :: readU32s n (d.drop 4)

/-- `n` consecutive chunks of `sz` bytes -/
def chunks (sz : Nat) : Nat → Bytes → List Bytes
  | 0, _ => []
  | n + 1, d => d.take sz :: chunks sz n (d.drop sz)

/-- `start ≤ e₀ ≤ e₁ ≤ …` -/
def monotoneFrom (start : Nat) : List Nat → Bool
  | [] => true
  | e :: es => start ≤ e && monotoneFrom e es

/-- `d` is positioned at absolute offset `pos`; cut it at the absolute end offsets `ends`
(item `i` is `page[end (i-1) .. end i]`). One pass over the bytes. -/
def cutAt (d : Bytes) (pos : Nat) : List Nat → List Bytes
  | [] => []
  | e :: es => d.take (e - pos) :: cutAt (d.drop (e - pos)) e es

/-- end offsets of `n` fixed-width items of width `w` starting at `start` -/
def fixedEnds (start w n : Nat) : List Nat := (List.range n).map (fun i => start + w * (i + 1))

/-- error line of the driver protocol -/
def fail {α : Type} (conjunct detail : String) : Except String α :=
  .error s!"DIFF img {conjunct} {detail}"

/-! ## page numbers and region layout -/

/-- `PageNumber` (base.rs): bits 0..20 index (only the low `20 - order` bits are read),
bits 20..40 region, bits 59..64 order. -/
structure PageNumber where
  region : Nat
  index : Nat
  order : Nat
deriving BEq, DecidableEq, Repr, Inhabited

/-- `PageNumber::from_le_bytes` applied to the u64 value -/
def PageNumber.ofNat (x : Nat) : PageNumber :=
  { region := x / 2 ^ 20 % 2 ^ 20
    index := x % 2 ^ (20 - x / 2 ^ 59 % 32)
    order := x / 2 ^ 59 % 32 }

instance : ToString PageNumber := ⟨fun p => s!"r{p.region}.{p.index}/{p.order}"⟩

/-- the immutable geometry and the region counts of the database header -/
structure Layout where
  pageSize : Nat
  regionHeaderPages : Nat
  regionMaxDataPages : Nat
  numFullRegions : Nat
  trailingPages : Nat
deriving Repr, Inhabited

/-- `DatabaseLayout::num_regions` -/
def Layout.numRegions (l : Layout) : Nat :=
  l.numFullRegions + (if l.trailingPages > 0 then 1 else 0)

/-- data pages of region `r` (full regions, then the trailing partial one) -/
def Layout.regionPages (l : Layout) (r : Nat) : Nat :=
  if r < l.numFullRegions then l.regionMaxDataPages
  else if r = l.numFullRegions then l.trailingPages else 0

/-- `DatabaseLayout::len`: super-header page, full regions, trailing region -/
def Layout.fileLen (l : Layout) : Nat :=
  l.pageSize + l.numFullRegions * (l.regionHeaderPages + l.regionMaxDataPages) * l.pageSize
    + (if l.trailingPages > 0 then (l.regionHeaderPages + l.trailingPages) * l.pageSize else 0)

/-- `PageNumber::address_range` with the arguments `TransactionalMemory::get_page` passes:
(start, length) -/
def Layout.pageAddr (l : Layout) (p : PageNumber) : Nat × Nat :=
  (l.pageSize + p.region * (l.regionHeaderPages + l.regionMaxDataPages) * l.pageSize
     + l.regionHeaderPages * l.pageSize + p.index * (l.pageSize * 2 ^ p.order),
   l.pageSize * 2 ^ p.order)

/-- order ≤ `MAX_MAX_PAGE_ORDER` (20), the region exists and the page ends inside its data section -/
def Layout.inRange (l : Layout) (p : PageNumber) : Bool :=
  p.order ≤ 20 && p.region < l.numRegions && (p.index + 1) * 2 ^ p.order ≤ l.regionPages p.region

/-- the bytes of page `p`, `none` when the page lies outside the layout or the image -/
def getPage (img : ByteArray) (l : Layout) (p : PageNumber) : Option Bytes :=
  if l.inRange p && (l.pageAddr p).1 + (l.pageAddr p).2 ≤ img.size then
    some (img.extract (l.pageAddr p).1 ((l.pageAddr p).1 + (l.pageAddr p).2)).toList
  else none

/-! ## B-tree header, commit slot, database header -/

/-- `BtreeHeader` (32 bytes): root page number u64 ‖ checksum 16 B ‖ length u64 -/
structure BtreeHeader where
  root : PageNumber
  checksum : Bytes
  length : Nat
deriving Repr, Inhabited

def decodeBtreeHeader (d : Bytes) : BtreeHeader :=
  { root := PageNumber.ofNat (u64At d 0), checksum := slice d 8 24, length := u64At d 24 }

/-- commit slot (`TransactionHeader`, 128 bytes): 0 version, 1 user-root-non-null,
2 system-root-non-null, 8..40 user root, 40..72 system root, 104..112 transaction id,
112..128 checksum -/
structure Slot where
  version : Nat
  userRoot : Option BtreeHeader
  systemRoot : Option BtreeHeader
  txnId : Nat
  checksum : Bytes
deriving Repr, Inhabited

def decodeSlot (d : Bytes) : Option Slot :=
  if d.length != 128 then none else
  some { version := byteAt d 0
         userRoot := if byteAt d 1 != 0 then some (decodeBtreeHeader (slice d 8 40)) else none
         systemRoot := if byteAt d 2 != 0 then some (decodeBtreeHeader (slice d 40 72)) else none
         txnId := u64At d 104
         checksum := slice d 112 128 }

/-- XXH3-128 (seed 0) of slot bytes 0..112 equals bytes 112..128 -/
def slotChecksumOk (d : Bytes) : Bool :=
  Redb.Xxh3.checksum (d.take 112).toByteArray == d.drop 112

def magic : Bytes := [0x72, 0x65, 0x64, 0x62, 0x1A, 0x0A, 0xA9, 0x0D, 0x0A]

/-- database header (first 320 bytes of page 0): 0..9 magic, 9 god byte, 12 page size,
16 region header pages, 20 region max data pages, 24 full regions, 28 trailing pages,
64..192 slot 0, 192..320 slot 1 -/
structure Header where
  layout : Layout
  primarySlot : Nat
  recoveryRequired : Bool
  twoPhaseCommit : Bool
  slot0 : Bytes
  slot1 : Bytes
deriving Inhabited

def decodeHeader (img : ByteArray) : Option Header :=
  if img.size < 320 then none else
  let d := (img.extract 0 320).toList
  if d.take 9 != magic then none else
  some { layout := { pageSize := u32At d 12, regionHeaderPages := u32At d 16,
                     regionMaxDataPages := u32At d 20, numFullRegions := u32At d 24,
                     trailingPages := u32At d 28 }
         primarySlot := byteAt d 9 % 2
         recoveryRequired := byteAt d 9 / 2 % 2 == 1
         twoPhaseCommit := byteAt d 9 / 4 % 2 == 1
         slot0 := slice d 64 192
         slot1 := slice d 192 320 }

def Header.primary (h : Header) : Bytes := if h.primarySlot = 0 then h.slot0 else h.slot1

/-! ## pages -/

/-- decoded leaf: the pairs, and `value_end(last)` = number of bytes covered by the checksum -/
structure LeafPage where
  entries : List Entry
  used : Nat
deriving Inhabited

/-- `LeafAccessor`: byte 0 = 1, 2..4 num_pairs; then (variable keys) n × u32 key_end, then
(variable values) n × u32 value_end, then keys, then values; ends are absolute page offsets.
Fixed key width w: key i ends at key_section_start + w(i+1); fixed value width v: value i ends at
key_end(last) + v(i+1). Undecodable when there are no pairs, the offsets are not monotone or
run past the page. `kw`, `vw` are the fixed widths of the key and value types. -/
def decodeLeaf (kw vw : Option Nat) (page : Bytes) : Option LeafPage :=
  if page.length < 4 || byteAt page 0 != 1 then none else
  let n := u16At page 2
  let kss := 4 + (if kw.isNone then 4 * n else 0) + (if vw.isNone then 4 * n else 0)
  if n == 0 || page.length < kss then none else
  let keyEnds := match kw with
    | some w => fixedEnds kss w n
    | none => readU32s n (page.drop 4)
  let keyEndLast := keyEnds.getLastD kss
  let valEnds := match vw with
    | some v => fixedEnds keyEndLast v n
    | none => readU32s n (page.drop (4 + (if kw.isNone then 4 * n else 0)))
  let used := valEnds.getLastD keyEndLast
  if !(monotoneFrom kss (keyEnds ++ valEnds)) || used > page.length then none else
  some { entries := (cutAt (page.drop kss) kss keyEnds).zip (cutAt (page.drop keyEndLast) keyEndLast valEnds)
         used := used }

/-- decoded branch: (child page, child checksum) list, routing keys, `key_end(last)` -/
structure BranchPage where
  children : List (PageNumber × Bytes)
  keys : List Bytes
  used : Nat
deriving Inhabited

/-- `BranchAccessor`: byte 0 = 2, 2..4 num_keys; from byte 8 (n+1) × 16 B child checksums, then
(n+1) × 8 B child page numbers, then (variable keys) n × u32 key_end, then the keys. -/
def decodeBranch (kw : Option Nat) (page : Bytes) : Option BranchPage :=
  if page.length < 8 || byteAt page 0 != 2 then none else
  let n := u16At page 2
  let kss := 8 + 24 * (n + 1) + (if kw.isNone then 4 * n else 0)
  if n == 0 || page.length < kss then none else
  let keyEnds := match kw with
    | some w => fixedEnds kss w n
    | none => readU32s n (page.drop (8 + 24 * (n + 1)))
  let used := keyEnds.getLastD kss
  if !(monotoneFrom kss keyEnds) || used > page.length then none else
  some { children := ((chunks 8 (n + 1) (page.drop (8 + 16 * (n + 1)))).map
                        (fun b => PageNumber.ofNat (leNat b))).zip (chunks 16 (n + 1) (page.drop 8))
         keys := cutAt (page.drop kss) kss keyEnds
         used := used }

/-- `leaf_checksum` / `branch_checksum`: XXH3-128 of `page[0 .. used]` -/
def pageChecksum (page : Bytes) (used : Nat) : Bytes :=
  Redb.Xxh3.checksum (page.take used).toByteArray

/-! ## trees -/

/-- `BTree.Tree` decorated with the page each node was read from (for diagnostics) -/
inductive PTree where
  | leaf (page : PageNumber) (entries : List Entry)
  | branch (page : PageNumber) (children : List PTree) (keys : List Bytes)
deriving Inhabited

mutual
/-- forget the page numbers -/
def PTree.erase : PTree → Tree
  | .leaf _ es => .leaf es
  | .branch _ cs ks => .branch (eraseList cs) ks
def eraseList : List PTree → List Tree
  | [] => []
  | c :: cs => c.erase :: eraseList cs
end

mutual
/-- leaves in key order, with their pages -/
def PTree.leaves : PTree → List (PageNumber × List Entry)
  | .leaf p es => [(p, es)]
  | .branch _ cs _ => leavesList cs
def leavesList : List PTree → List (PageNumber × List Entry)
  | [] => []
  | c :: cs => c.leaves ++ leavesList cs
end

/-- Decode the subtree rooted at page `p`, whose checksum as stored in the parent (or in the
`BtreeHeader`) is `ck`. Checks per page: not seen before (`page-twice`), inside the layout
(`page-out-of-range`), structurally decodable (`decode`), stored checksum = computed checksum
(`page-checksum`). `seen` accumulates every page visited so far (all trees of the image).
Fuel 128 = `MAX_BTREE_DEPTH` (`RawBtree::verify_checksum_helper` gives up at the same depth). -/
def decodeTree (img : ByteArray) (lay : Layout) (kw vw : Option Nat) :
    Nat → PageNumber → Bytes → List PageNumber → Except String (PTree × List PageNumber)
  | 0, p, _, _ => fail "depth" s!"page {p}: tree deeper than 128 levels"
  | fuel + 1, p, ck, seen =>
    if seen.contains p then fail "page-twice" s!"page {p} is referenced twice" else
    match getPage img lay p with
    | none => fail "page-out-of-range" s!"page {p}"
    | some page =>
      if byteAt page 0 == 1 then
        match decodeLeaf kw vw page with
        | none => fail "decode" s!"page {p}: malformed leaf"
        | some lf =>
          if pageChecksum page lf.used != ck then
            fail "page-checksum" s!"page {p} (leaf): stored {hex ck} computed {hex (pageChecksum page lf.used)}"
          else .ok (.leaf p lf.entries, p :: seen)
      else if byteAt page 0 == 2 then
        match decodeBranch kw page with
        | none => fail "decode" s!"page {p}: malformed branch"
        | some br =>
          if pageChecksum page br.used != ck then
            fail "page-checksum" s!"page {p} (branch): stored {hex ck} computed {hex (pageChecksum page br.used)}"
          else do
            let r ← br.children.foldlM (fun (acc : List PTree × List PageNumber) c => do
              let t ← decodeTree img lay kw vw fuel c.1 c.2 acc.2
              pure (t.1 :: acc.1, t.2)) ([], p :: seen)
            pure (.branch p r.1.reverse br.keys, r.2)
      else fail "decode" s!"page {p}: unknown page type {byteAt page 0}"

/-- keys valid and strictly increasing under the key type's comparator -/
def strictlyIncreasing (t : KT) : List Bytes → Bool
  | [] => true
  | [k] => valid t k
  | a :: b :: rest => valid t a && cmp t a b == .lt && strictlyIncreasing t (b :: rest)

/-- the ordering conditions of one node with bounds (lo, hi]: names the violated conjunct -/
def nodeDiag (t : KT) (lo hi : Option Bytes) (p : PageNumber) (ks : List Bytes) : Option String :=
  if !(strictlyIncreasing t ks) then
    some s!"DIFF img keys-not-increasing page {p}: keys are not valid and strictly increasing"
  else if !(keysOk t lo hi ks) then
    some s!"DIFF img separator-bound page {p}: a key lies outside the bounds ({(lo.map hex).getD "-inf"}, {(hi.map hex).getD "+inf"}] given by the routing keys above it"
  else none

mutual
/-- first node (in key order) violating the ordering / routing-key conditions of `BTree.wf` -/
def diagnose (t : KT) (lo hi : Option Bytes) : PTree → Option String
  | .leaf p es => nodeDiag t lo hi p (es.map (·.1))
  | .branch p cs ks =>
    match nodeDiag t lo hi p ks with
    | some e => some e
    | none => diagnoseChildren t lo hi p cs ks
def diagnoseChildren (t : KT) (lo hi : Option Bytes) (p : PageNumber) : List PTree → List Bytes → Option String
  | [c], [] => diagnose t lo hi c
  | c :: cs, s :: rest =>
    match diagnose t lo (some s) c with
    | some e => some e
    | none => diagnoseChildren t (some s) hi p cs rest
  | _, _ => some s!"DIFF img decode page {p}: child count ≠ key count + 1"
end

mutual
/-- a node that is not at the depth a tree of height `d` requires -/
def badDepth : Nat → PTree → Option PageNumber
  | 0, .leaf _ _ => none
  | d + 1, .branch _ cs _ => badDepthList d cs
  | _ + 1, .leaf p _ => some p
  | 0, .branch p _ _ => some p
def badDepthList (d : Nat) : List PTree → Option PageNumber
  | [] => none
  | c :: cs =>
    match badDepth d c with
    | some p => some p
    | none => badDepthList d cs
end

/-- height along the leftmost path -/
def depthLeft : Nat → Tree → Nat
  | 0, _ => 0
  | _, .leaf _ => 0
  | _ + 1, .branch [] _ => 0
  | fuel + 1, .branch (c :: _) _ => depthLeft fuel c + 1

/-- The abstract well-formedness check: `BTree.wf` with no outer bounds at the height of the
leftmost leaf. On failure the finer checks name the conjunct and the page. -/
def checkTree (t : KT) (what : String) (pt : PTree) : Except String Unit :=
  if wf t none none (depthLeft 129 pt.erase) pt.erase then .ok ()
  else match diagnose t none none pt with
    | some e => .error (e ++ s!" [{what}]")
    | none =>
      match badDepth (depthLeft 129 pt.erase) pt with
      | some p => fail "depth" s!"page {p}: leaves are not all at depth {depthLeft 129 pt.erase} [{what}]"
      | none => fail "separator-bound" s!"BTree.wf fails [{what}]"

/-- Decode and check the tree given by an optional `BtreeHeader`. Returns the decorated tree
(none for a null root). `length-field`: `BtreeHeader.length` ≠ number of pairs in the tree. -/
def decodeCheckedTree (img : ByteArray) (lay : Layout) (t : KT) (kw vw : Option Nat) (what : String)
    (root : Option BtreeHeader) (seen : List PageNumber) :
    Except String (Option PTree × List PageNumber) :=
  match root with
  | none => .ok (none, seen)
  | some h =>
    match decodeTree img lay kw vw 128 h.root h.checksum seen with
    | .error e => .error (e ++ s!" [{what}]")
    | .ok r => do
      checkTree t what r.1
      if (flatten r.1.erase).length != h.length then
        fail "length-field" s!"page {h.root}: root header length {h.length} but {(flatten r.1.erase).length} pairs present [{what}]"
      else pure (some r.1, r.2)

/-! ## table definitions -/

/-- `InternalTableDefinition::from_bytes`: type u8 (3 normal, 4 multimap) ‖ table_length u64 ‖
root-non-null u8 ‖ BtreeHeader 32 B ‖ fixed-key flag u8 ‖ u32 ‖ fixed-value flag u8 ‖ u32 ‖
key alignment u32 ‖ value alignment u32 ‖ key type name length u32 ‖ key type name ‖ value type
name. (Type names: classification byte followed by UTF-8.) -/
structure TableDef where
  kind : Nat
  tableLength : Nat
  root : Option BtreeHeader
  fixedKey : Option Nat
  fixedValue : Option Nat
  keyAlign : Nat
  valueAlign : Nat
  keyType : Bytes
  valueType : Bytes
deriving Inhabited

def decodeTableDef (d : Bytes) : Option TableDef :=
  if d.length < 64 then none else
  if byteAt d 0 != 3 && byteAt d 0 != 4 then none else
  if d.length < 64 + u32At d 60 + 1 || u32At d 60 == 0 then none else
  some { kind := byteAt d 0
         tableLength := u64At d 1
         root := if byteAt d 9 != 0 then some (decodeBtreeHeader (slice d 10 42)) else none
         fixedKey := if byteAt d 42 != 0 then some (u32At d 43) else none
         fixedValue := if byteAt d 47 != 0 then some (u32At d 48) else none
         keyAlign := u32At d 52
         valueAlign := u32At d 56
         keyType := slice d 64 (64 + u32At d 60)
         valueType := d.drop (64 + u32At d 60) }

/-! ## tables -/

/-- the abstract contents of a user table -/
inductive Contents where
  | normal (entries : List Entry)
  | multimap (entries : List (Bytes × List Bytes))

/-- what the image must contain for one user table. `contentsOk` compares count and hash (the hash
functions live in the driver). -/
structure TableSpec where
  name : String
  multimap : Bool
  kt : KT
  vt : KT
  contentsOk : Contents → Bool
  descr : String

def nameOf (b : Bytes) : String := (String.fromUTF8? b.toByteArray).getD (hex b)

/-- normal table: tree over (K, V); `table_length` = number of pairs -/
def checkNormalTable (img : ByteArray) (lay : Layout) (name : String) (kt : KT) (d : TableDef)
    (seen : List PageNumber) : Except String (List Entry × List PageNumber) := do
  let r ← decodeCheckedTree img lay kt d.fixedKey d.fixedValue s!"table {name}" d.root seen
  let es := match r.1 with
    | some pt => flatten pt.erase
    | none => []
  if d.tableLength != es.length then
    fail "count-mismatch" s!"table {name}: table_length {d.tableLength} but {es.length} pairs present (root page {(d.root.map (toString ·.root)).getD "null"})"
  else pure (es, r.2)

/-- `DynamicCollection`: byte 0 = 1 ‖ inline leaf image with key type V and zero-width values, or
byte 0 = 3 ‖ BtreeHeader of a subtree over (V, ()) whose header length is the number of values.
Returns the values in order. -/
def decodeCollection (img : ByteArray) (lay : Layout) (name : String) (vt : KT) (p : PageNumber)
    (key : Bytes) (v : Bytes) (seen : List PageNumber) :
    Except String (List Bytes × List PageNumber) :=
  if byteAt v 0 == 1 && v.length ≥ 1 then
    match decodeLeaf (fixedWidth vt) (some 0) (v.drop 1) with
    | none => fail "decode" s!"page {p}: malformed inline value set of key {hex key} [table {name}]"
    | some lf =>
      if !(strictlyIncreasing vt (lf.entries.map (·.1))) then
        fail "keys-not-increasing" s!"page {p}: inline value set of key {hex key} is not strictly increasing [table {name}]"
      else .ok (lf.entries.map (·.1), seen)
  else if byteAt v 0 == 3 && v.length ≥ 33 then do
    let r ← decodeCheckedTree img lay vt (fixedWidth vt) (some 0)
      s!"table {name}, value subtree of key {hex key} in page {p}" (some (decodeBtreeHeader (slice v 1 33))) seen
    match r.1 with
    | some pt => pure ((flatten pt.erase).map (·.1), r.2)
    | none => pure ([], r.2)
  else fail "decode" s!"page {p}: unknown value set type {byteAt v 0} for key {hex key} [table {name}]"

/-- multimap table: tree over (K, DynamicCollection); the root header length is the number of
keys, `table_length` the number of (key, value) pairs -/
def checkMultimapTable (img : ByteArray) (lay : Layout) (name : String) (kt vt : KT) (d : TableDef)
    (seen : List PageNumber) : Except String (List (Bytes × List Bytes) × List PageNumber) := do
  let r ← decodeCheckedTree img lay kt d.fixedKey none s!"table {name}" d.root seen
  let leaves := match r.1 with
    | some pt => pt.leaves
    | none => []
  let res ← leaves.foldlM (fun (acc : List (Bytes × List Bytes) × List PageNumber) lf =>
    lf.2.foldlM (fun (acc : List (Bytes × List Bytes) × List PageNumber) e => do
      let c ← decodeCollection img lay name vt lf.1 e.1 e.2 acc.2
      if c.1.isEmpty then fail "decode" s!"page {lf.1}: empty value set for key {hex e.1} [table {name}]"
      else pure ((e.1, c.1) :: acc.1, c.2)) acc) ([], r.2)
  let es := res.1.reverse
  let pairs := es.foldl (fun a e => a + e.2.length) 0
  if d.tableLength != pairs then
    fail "count-mismatch" s!"table {name}: table_length {d.tableLength} but {pairs} pairs present (root page {(d.root.map (toString ·.root)).getD "null"})"
  else pure (es, res.2)

/-- `PageList` value (transactions.rs): u16 count ‖ count × 8-byte page numbers; the buffer may
be longer than needed -/
def pageListOk (v : Bytes) : Bool := v.length ≥ 2 && 2 + 8 * u16At v 0 ≤ v.length

/-- key types of the tables in the system master tree (transactions.rs); the flag says whether
the values are `PageList`s -/
def systemTableType (name : String) : Option (KT × Bool) :=
  if name = "next_savepoint_id" then some (.unit, false)
  else if name = "persistent_savepoints" then some (.uint 8, false)
  else if name = "data_pages_allocated" then some (.tuple [.uint 8, .uint 8], true)
  else if name = "data_pages_unreachable" then some (.tuple [.uint 8, .uint 8], true)
  else if name = "system_pages_unreachable" then some (.tuple [.uint 8, .uint 8], true)
  else if name = "allocator_state" then some (.tuple [.uint 1, .uint 4], false)
  else none

def checkSystemTable (img : ByteArray) (lay : Layout) (name : String) (d : TableDef)
    (seen : List PageNumber) : Except String (List PageNumber) :=
  match systemTableType name with
  | none => fail "table-set" s!"unknown system table {name}"
  | some (kt, isPageList) =>
    if d.kind != 3 then fail "table-set" s!"system table {name} is not a normal table"
    else if d.fixedKey != fixedWidth kt then
      fail "table-set" s!"system table {name}: fixed key size {repr d.fixedKey}, expected {repr (fixedWidth kt)}"
    else do
      let r ← checkNormalTable img lay name kt d seen
      if isPageList && !(r.1.all (fun e => pageListOk e.2)) then
        fail "decode" s!"system table {name}: malformed page list (root page {(d.root.map (toString ·.root)).getD "null"})"
      else pure r.2

/-- a user table present in the data master tree, against its spec -/
def checkUserTable (img : ByteArray) (lay : Layout) (spec : TableSpec) (d : TableDef)
    (seen : List PageNumber) : Except String (List PageNumber) :=
  if (d.kind == 4) != spec.multimap then
    fail "table-set" s!"table {spec.name}: stored table type {d.kind} does not match {spec.descr}"
  else if d.fixedKey != fixedWidth spec.kt || d.fixedValue != fixedWidth spec.vt then
    fail "table-set" s!"table {spec.name}: stored fixed sizes {repr d.fixedKey}/{repr d.fixedValue} do not match {spec.descr}"
  else if d.keyAlign != 1 || d.valueAlign != 1 then
    fail "decode" s!"table {spec.name}: alignment {d.keyAlign}/{d.valueAlign}"
  else if spec.multimap then do
    let r ← checkMultimapTable img lay spec.name spec.kt spec.vt d seen
    if !(spec.contentsOk (.multimap r.1)) then
      fail "contents" s!"table {spec.name}: {r.1.length} keys, {r.1.foldl (fun a e => a + e.2.length) 0} pairs decoded; expected {spec.descr}"
    else pure r.2
  else do
    let r ← checkNormalTable img lay spec.name spec.kt d seen
    if !(spec.contentsOk (.normal r.1)) then
      fail "contents" s!"table {spec.name}: {r.1.length} pairs decoded; expected {spec.descr}"
    else pure r.2

/-- A master tree (data or system): B-tree over (`&str` name, `InternalTableDefinition`), both
variable width. Returns (name bytes, definition) in key order. -/
def decodeMaster (img : ByteArray) (lay : Layout) (what : String) (root : Option BtreeHeader)
    (seen : List PageNumber) : Except String (List (Bytes × TableDef) × List PageNumber) := do
  let r ← decodeCheckedTree img lay .str none none what root seen
  let es := match r.1 with
    | some pt => flatten pt.erase
    | none => []
  let defs ← es.mapM (fun e =>
    match decodeTableDef e.2 with
    | some d => pure (e.1, d)
    | none => fail "decode" s!"{what}: malformed definition of table {nameOf e.1} (root page {(root.map (toString ·.root)).getD "null"})")
  pure (defs, r.2)

/-! ## page uniqueness -/

def insertSorted (x : Nat × Nat × PageNumber) : List (Nat × Nat × PageNumber) → List (Nat × Nat × PageNumber)
  | [] => [x]
  | y :: ys => if x.1 ≤ y.1 then x :: y :: ys else y :: insertSorted x ys

/-- first pair of neighbours (sorted by start address) whose address ranges overlap -/
def firstOverlap : List (Nat × Nat × PageNumber) → Option (PageNumber × PageNumber)
  | [] => none
  | [_] => none
  | a :: b :: rest => if a.1 + a.2.1 > b.1 then some (a.2.2, b.2.2) else firstOverlap (b :: rest)

/-- no page referenced twice, and no two referenced pages (of any orders) overlap -/
def pagesDisjoint (lay : Layout) (pages : List PageNumber) : Option (PageNumber × PageNumber) :=
  firstOverlap (pages.foldl (fun acc p => insertSorted ((lay.pageAddr p).1, (lay.pageAddr p).2, p) acc) [])

/-! ## whole image -/

/-- Property C10 for one image: header and primary commit slot (checksum, version 3), both master
trees, every table in them (user tables against `specs`: exactly these, empty ones may be absent),
multimap value subtrees, all checksums, ordering, routing keys, uniform depth, stored counts, page
range and uniqueness. -/
def checkImage (img : ByteArray) (pageSize : Nat) (specs : List TableSpec) : Except String Unit :=
  match decodeHeader img with
  | none => fail "decode" "page 0: bad magic number or short header"
  | some h =>
    if h.layout.pageSize != pageSize then
      fail "decode" s!"page 0: page size field {h.layout.pageSize}, expected {pageSize}"
    else if h.layout.regionMaxDataPages == 0 || h.layout.numRegions == 0 then
      fail "decode" "page 0: empty region layout"
    -- the file may be longer than the layout of the served commit (space appended after that
    -- commit - e.g. by its post-commit epilogue - reaches the header with the next commit); it may
    -- never be shorter
    else if img.size < h.layout.fileLen then
      fail "decode" s!"page 0: layout describes {h.layout.fileLen} bytes, file has only {img.size}"
    else if !(slotChecksumOk h.primary) then
      fail "slot-checksum" s!"page 0: primary slot {h.primarySlot}"
    else match decodeSlot h.primary with
    | none => fail "decode" "page 0: commit slot"
    | some slot =>
      if slot.version != 3 then fail "decode" s!"page 0: file format version {slot.version}" else do
      let lay := h.layout
      -- data master tree and the user tables
      let um ← decodeMaster img lay "data master tree" slot.userRoot []
      let seen ← um.1.foldlM (fun (seen : List PageNumber) e =>
        match specs.find? (fun s => s.name.toUTF8.toList == e.1) with
        | none => fail "table-set" s!"unexpected user table {nameOf e.1}"
        | some spec => checkUserTable img lay spec e.2 seen) um.2
      specs.forM (fun s =>
        if um.1.any (fun e => e.1 == s.name.toUTF8.toList) then pure ()
        else if s.contentsOk (if s.multimap then .multimap [] else .normal []) then pure ()
        else fail "table-set" s!"missing user table {s.name}, expected {s.descr}")
      -- system master tree and the system tables
      let sm ← decodeMaster img lay "system master tree" slot.systemRoot seen
      let seen ← sm.1.foldlM (fun (seen : List PageNumber) e =>
        checkSystemTable img lay (nameOf e.1) e.2 seen) sm.2
      match pagesDisjoint lay seen with
      | some (a, b) => fail "page-twice" s!"pages {a} and {b} overlap"
      | none => pure ()

end Redb.Format
