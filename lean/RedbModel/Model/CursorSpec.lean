import RedbModel.Model.Spec
/-
The abstract specification of redb's gap cursors (property C18): `Table::lower_bound_mut` /
`upper_bound_mut` -> `CursorMut`, `ReadableTable::lower_bound` / `upper_bound` -> `Cursor`
(src/table.rs, implemented by src/tree_store/btree_cursor.rs).

A cursor is a zipper over the sorted-map spec `Spec.Map`: the entries before the gap (nearest
first, i.e. reversed) and the entries after it. The table the cursor stands for is
`before.reverse ++ after`; the gap index is `before.length`.

The implementation buffers runs of `insert_before` / `insert_after` and splices them into the
B-tree when the cursor moves, removes, switches direction, exceeds 1 MiB of pending bytes, is
closed or is dropped. None of that is visible through the API (peeks answer from the buffer), so
the specification has no notion of a pending run: every accepted insert is in the map at once.
Executable, total, import-free apart from `Spec`.
-/
namespace Redb.CursorSpec
open Redb.Key Redb.Spec

structure Cursor where
  /-- entries before the gap, nearest first -/
  before : List Entry := []
  /-- entries after the gap, nearest first -/
  after : List Entry := []
deriving Repr, BEq

namespace Cursor

/-- the table the cursor stands for (what `close()` leaves behind) -/
def toMap (c : Cursor) : Map := c.before.reverse ++ c.after

/-- number of entries before the gap -/
def gap (c : Cursor) : Nat := c.before.length

end Cursor

/-- the zipper with the gap after the first `i` entries -/
def atIndex (m : Map) (i : Nat) : Cursor := { before := (m.take i).reverse, after := m.drop i }

/-- split at the end of the longest prefix whose keys satisfy `p` -/
def split (p : Bytes → Bool) : List Entry → Map → Cursor
  | acc, [] => { before := acc, after := [] }
  | acc, e :: rest => if p e.1 then split p (e :: acc) rest else { before := acc, after := e :: rest }

/-- keys that a lower bound leaves before the gap: `Included x` -> keys < x, `Excluded x` -> keys ≤ x -/
def belowLower (t : KT) (b : Bound) (k : Bytes) : Bool :=
  match b with
  | .unb => false
  | .incl x => cmp t k x == .lt
  | .excl x => cmp t k x != .gt

/-- keys that an upper bound leaves before the gap: `Included x` -> keys ≤ x, `Excluded x` -> keys < x -/
def belowUpper (t : KT) (b : Bound) (k : Bytes) : Bool :=
  match b with
  | .unb => true
  | .incl x => cmp t k x != .gt
  | .excl x => cmp t k x == .lt

/-- `lower_bound(b)`: the gap before the smallest key admitted by `b` as a lower bound -/
def lowerBound (t : KT) (m : Map) (b : Bound) : Cursor := split (belowLower t b) [] m

/-- `upper_bound(b)`: the gap after the greatest key admitted by `b` as an upper bound -/
def upperBound (t : KT) (m : Map) (b : Bound) : Cursor := split (belowUpper t b) [] m

def peekNext (c : Cursor) : Option Entry := c.after.head?
def peekPrev (c : Cursor) : Option Entry := c.before.head?

/-- moves past the entry after the gap and returns it; at the end nothing moves -/
def next (c : Cursor) : Cursor × Option Entry :=
  match c.after with
  | [] => (c, none)
  | e :: rest => ({ before := e :: c.before, after := rest }, some e)

/-- moves before the entry preceding the gap and returns it; at the start nothing moves -/
def prev (c : Cursor) : Cursor × Option Entry :=
  match c.before with
  | [] => (c, none)
  | e :: rest => ({ before := rest, after := e :: c.after }, some e)

/-- `k` sorts strictly between the gap's neighbours (a missing neighbour is no constraint) -/
def fits (t : KT) (c : Cursor) (k : Bytes) : Bool :=
  (match c.before.head? with
   | none => true
   | some p => cmp t p.1 k == .lt) &&
  (match c.after.head? with
   | none => true
   | some n => cmp t k n.1 == .lt)

/-- `insert_before`: `none` = rejected (`StorageError::UnorderedKey`); the gap ends up after the new entry -/
def insertBefore (t : KT) (c : Cursor) (k v : Bytes) : Option Cursor :=
  if fits t c k then some { before := (k, v) :: c.before, after := c.after } else none

/-- `insert_after`: `none` = rejected; the gap ends up before the new entry -/
def insertAfter (t : KT) (c : Cursor) (k v : Bytes) : Option Cursor :=
  if fits t c k then some { before := c.before, after := (k, v) :: c.after } else none

/-- removes and returns the entry after the gap; the gap stays between its old neighbours -/
def removeNext (c : Cursor) : Cursor × Option Entry :=
  match c.after with
  | [] => (c, none)
  | e :: rest => ({ before := c.before, after := rest }, some e)

/-- removes and returns the entry before the gap -/
def removePrev (c : Cursor) : Cursor × Option Entry :=
  match c.before with
  | [] => (c, none)
  | e :: rest => ({ before := rest, after := c.after }, some e)

/-! ### scripts (for `close_eq_spec`) -/

inductive Op where
  | peekNext | peekPrev | next | prev
  | insertBefore (k v : Bytes)
  | insertAfter (k v : Bytes)
  | removeNext | removePrev
deriving Repr, BEq

/-- one cursor call; a rejected insert leaves the cursor as it was -/
def step (t : KT) (c : Cursor) : Op → Cursor
  | .peekNext => c
  | .peekPrev => c
  | .next => (next c).1
  | .prev => (prev c).1
  | .insertBefore k v => (insertBefore t c k v).getD c
  | .insertAfter k v => (insertAfter t c k v).getD c
  | .removeNext => (removeNext c).1
  | .removePrev => (removePrev c).1

/-- a whole session from open to `close()` -/
def run (t : KT) (c : Cursor) (ops : List Op) : Cursor := ops.foldl (step t) c

/-- the edit of the underlying sorted map that a cursor call amounts to -/
inductive Edit where
  | ins (k v : Bytes)
  | del (k : Bytes)
deriving Repr, BEq

def editOf (t : KT) (c : Cursor) : Op → Option Edit
  | .insertBefore k v => if fits t c k then some (.ins k v) else none
  | .insertAfter k v => if fits t c k then some (.ins k v) else none
  | .removeNext => (peekNext c).map (fun e => .del e.1)
  | .removePrev => (peekPrev c).map (fun e => .del e.1)
  | _ => none

/-- the map edits of a script, in order -/
def edits (t : KT) : Cursor → List Op → List Edit
  | _, [] => []
  | c, op :: rest =>
    match editOf t c op with
    | some e => e :: edits t (step t c op) rest
    | none => edits t (step t c op) rest

def applyEdit (t : KT) (m : Map) : Edit → Map
  | .ins k v => (Spec.insert t m k v).1
  | .del k => (Spec.remove t m k).1

def applyEdits (t : KT) (m : Map) (es : List Edit) : Map := es.foldl (applyEdit t) m

end Redb.CursorSpec
