/-
Model of the built-in key types of redb (src/types.rs, src/tuple_types.rs,
src/complex_types.rs (varint), src/types/uuid.rs) and of `branch_separator`
(src/tree_store/btree_base.rs). Import-free, executable.

A key type is a descriptor `KT`; `cmp`, `valid`, `sep`, `minKey`, `fixedWidth` work on the
encoded bytes exactly the way the Rust `Key::compare` / `Key::separator` read them.
-/
namespace Redb.Key

abbrev Bytes := List UInt8

inductive KT where
  | unit | bool | char
  | uint (w : Nat)          -- u8..u128: w = 1,2,4,8,16 bytes, little endian
  | sint (w : Nat)          -- i8..i128, two's complement little endian
  | str                     -- &str / String
  | bytes                   -- &[u8]
  | fixedBytes (n : Nat)    -- &[u8; N]; Uuid is fixedBytes 16
  | option (t : KT)
  | array (n : Nat) (t : KT)
  | tuple (ts : List KT)    -- arity ≥ 1; `(T,)` is `tuple [t]`
deriving Repr, BEq, Inhabited

mutual
def fixedWidth : KT → Option Nat
  | .unit => some 0
  | .bool => some 1
  | .char => some 3
  | .uint w => some w
  | .sint w => some w
  | .str => none
  | .bytes => none
  | .fixedBytes n => some n
  | .option t => match fixedWidth t with
    | some w => some (w + 1)
    | none => none
  | .array n t => match fixedWidth t with
    | some w => some (w * n)
    | none => none
  | .tuple ts => fixedWidths ts
def fixedWidths : List KT → Option Nat
  | [] => some 0
  | t :: ts => match fixedWidth t, fixedWidths ts with
    | some a, some b => some (a + b)
    | _, _ => none
end

def fixedWidthList (ts : List KT) : List (Option Nat) := ts.map fixedWidth

/-! ### byte helpers -/

def leNat : Bytes → Nat
  | [] => 0
  | b :: bs => b.toNat + 256 * leNat bs

def natLe (w n : Nat) : Bytes :=
  match w with
  | 0 => []
  | w + 1 => UInt8.ofNat (n % 256) :: natLe w (n / 256)

/-- two's complement value of a little-endian byte string of width `w` -/
def leInt (bs : Bytes) : Int :=
  let n := leNat bs
  let w := bs.length
  if n < 2 ^ (8 * w - 1) then (n : Int) else (n : Int) - (2 ^ (8 * w) : Nat)

def lexCmp : Bytes → Bytes → Ordering
  | [], [] => .eq
  | [], _ :: _ => .lt
  | _ :: _, [] => .gt
  | a :: as, b :: bs => if a < b then .lt else if b < a then .gt else lexCmp as bs

def slice (d : Bytes) (s e : Nat) : Bytes := (d.take e).drop s

def rdU32 (d : Bytes) (off : Nat) : Nat := leNat ((d.drop off).take 4)

/-- `decode_varint_len`: (length, bytes consumed) -/
def decodeVarint (d : Bytes) : Nat × Nat :=
  match d with
  | [] => (0, 1)
  | b :: rest =>
    if b.toNat < 254 then (b.toNat, 1)
    else if b.toNat = 254 then (leNat (rest.take 2), 3)
    else (leNat (rest.take 4), 5)

def encodeVarint (n : Nat) : Bytes :=
  if n < 254 then [UInt8.ofNat n]
  else if n ≤ 65535 then 254 :: natLe 2 n
  else 255 :: natLe 4 n

/-! ### UTF-8 (RFC 3629) -/

def isCont (b : UInt8) : Bool := b.toNat / 64 = 2      -- 10xxxxxx

/-- well-formed UTF-8, as accepted by `core::str::from_utf8` -/
def validUtf8 : Bytes → Bool
  | [] => true
  | b0 :: rest =>
    let a := b0.toNat
    if a < 0x80 then validUtf8 rest
    else if a < 0xC2 then false
    else if a < 0xE0 then
      match rest with
      | b1 :: r => isCont b1 && validUtf8 r
      | _ => false
    else if a < 0xF0 then
      match rest with
      | b1 :: b2 :: r =>
        let x := b1.toNat
        (if a = 0xE0 then 0xA0 ≤ x && x ≤ 0xBF
         else if a = 0xED then 0x80 ≤ x && x ≤ 0x9F
         else 0x80 ≤ x && x ≤ 0xBF) && isCont b2 && validUtf8 r
      | _ => false
    else if a < 0xF5 then
      match rest with
      | b1 :: b2 :: b3 :: r =>
        let x := b1.toNat
        (if a = 0xF0 then 0x90 ≤ x && x ≤ 0xBF
         else if a = 0xF4 then 0x80 ≤ x && x ≤ 0x8F
         else 0x80 ≤ x && x ≤ 0xBF) && isCont b2 && isCont b3 && validUtf8 r
      | _ => false
    else false

/-- `round_up_to_char_boundary` -/
def roundUpToCharBoundary (utf8 : Bytes) (index : Nat) : Nat :=
  if h : index < utf8.length then
    if isCont utf8[index] then roundUpToCharBoundary utf8 (index + 1) else index
  else index
termination_by utf8.length - index

def commonPrefixLen : Bytes → Bytes → Nat
  | a :: as, b :: bs => if a = b then commonPrefixLen as bs + 1 else 0
  | _, _ => 0

/-! ### array / tuple element access -/

/-- element `i` of a variable-width array encoding with `n` elements -/
def arrayElement (n : Nat) (d : Bytes) (i : Nat) : Bytes :=
  let start := if i = 0 then 4 * n else rdU32 d (4 * (i - 1))
  slice d start (rdU32 d (4 * i))

/-- `parse_lens` over the widths of all but the last element: (header length, element lengths) -/
def parseLens (fws : List (Option Nat)) (d : Bytes) : Nat × List Nat :=
  fws.foldl (fun (s : Nat × List Nat) fw =>
    match fw with
    | some w => (s.1, s.2 ++ [w])
    | none =>
      let (len, used) := decodeVarint (d.drop s.1)
      (s.1 + used, s.2 ++ [len])) (0, [])

/-- split a tuple encoding into its element encodings -/
def tupleElements (fwsAll : List (Option Nat)) (d : Bytes) : List Bytes :=
  if fwsAll.all Option.isSome then
    (fwsAll.foldl (fun (s : Nat × List Bytes) fw =>
      let w := fw.getD 0
      (s.1 + w, s.2 ++ [slice d s.1 (s.1 + w)])) (0, [])).2
  else
    let (off, lens) := parseLens fwsAll.dropLast d
    let r := lens.foldl (fun (s : Nat × List Bytes) len =>
      (s.1 + len, s.2 ++ [slice d s.1 (s.1 + len)])) (off, [])
    r.2 ++ [d.drop r.1]

/-! ### validity of an encoding -/

mutual
def valid : KT → Bytes → Bool
  | .unit, d => d.isEmpty
  | .bool, d => d.length == 1 && (d.getD 0 0).toNat ≤ 1
  | .char, d => d.length == 3 &&
      (let c := leNat d; c < 0xD800 || (0xE000 ≤ c && c < 0x110000))
  | .uint w, d => d.length == w
  | .sint w, d => d.length == w
  | .str, d => validUtf8 d
  | .bytes, _ => true
  | .fixedBytes n, d => d.length == n
  | .option t, d =>
    match d with
    | [] => false
    | tag :: rest =>
      if tag.toNat = 0 then
        (match fixedWidth t with
         | some w => rest.length == w && rest.all (· == 0)
         | none => rest.isEmpty)
      else tag.toNat == 1 && valid t rest
  | .array n t, d =>
    match fixedWidth t with
    | some w => d.length == w * n && validStride t w n d
    | none => 4 * n ≤ d.length && validOffsets t n d (4 * n) 0 n
  | .tuple ts, d =>
    let fws := fixedWidthList ts
    let es := tupleElements fws d
    es.length == ts.length && (es.foldl (fun a e => a + e.length) 0 +
      (if fws.all Option.isSome then 0 else (parseLens fws.dropLast d).1)) == d.length
      && validList ts es
/-- `n` elements of width `w` each -/
def validStride (t : KT) (w : Nat) : Nat → Bytes → Bool
  | 0, _ => true
  | n + 1, d => valid t (d.take w) && validStride t w n (d.drop w)
/-- variable-width array: elements `i..i+k` given the running start offset -/
def validOffsets (t : KT) (n : Nat) (d : Bytes) (start i : Nat) : Nat → Bool
  | 0 => start == d.length
  | k + 1 =>
    let e := rdU32 d (4 * i)
    start ≤ e && e ≤ d.length && valid t (slice d start e) && validOffsets t n d e (i + 1) k
def validList : List KT → List Bytes → Bool
  | [], [] => true
  | t :: ts, e :: es => valid t e && validList ts es
  | _, _ => false
end

/-! ### comparison -/

mutual
def cmp : KT → Bytes → Bytes → Ordering
  | .unit, _, _ => .eq
  | .bool, a, b => compare (a.getD 0 0).toNat (b.getD 0 0).toNat
  | .char, a, b => compare (leNat (a.take 3)) (leNat (b.take 3))
  | .uint _, a, b => compare (leNat a) (leNat b)
  | .sint _, a, b => compare (leInt a) (leInt b)
  | .str, a, b => lexCmp a b
  | .bytes, a, b => lexCmp a b
  | .fixedBytes _, a, b => lexCmp a b
  | .option t, a, b =>
    if (a.getD 0 0).toNat = 0 then (if (b.getD 0 0).toNat = 0 then .eq else .lt)
    else if (b.getD 0 0).toNat = 0 then .gt else cmp t (a.drop 1) (b.drop 1)
  | .array n t, a, b =>
    match fixedWidth t with
    | some w => cmpStride t w n a b
    | none => cmpOffsets t a b (4 * n) (4 * n) 0 n
  | .tuple ts, a, b =>
    let fws := fixedWidthList ts
    cmpList ts (tupleElements fws a) (tupleElements fws b)
def cmpStride (t : KT) (w : Nat) : Nat → Bytes → Bytes → Ordering
  | 0, _, _ => .eq
  | n + 1, a, b =>
    match cmp t (a.take w) (b.take w) with
    | .eq => cmpStride t w n (a.drop w) (b.drop w)
    | o => o
def cmpOffsets (t : KT) (a b : Bytes) (s1 s2 i : Nat) : Nat → Ordering
  | 0 => .eq
  | k + 1 =>
    let e1 := rdU32 a (4 * i)
    let e2 := rdU32 b (4 * i)
    match cmp t (slice a s1 e1) (slice b s2 e2) with
    | .eq => cmpOffsets t a b e1 e2 (i + 1) k
    | o => o
def cmpList : List KT → List Bytes → List Bytes → Ordering
  | t :: ts, x :: xs, y :: ys =>
    match cmp t x y with
    | .eq => cmpList ts xs ys
    | o => o
  | _, _, _ => .eq
end

/-! ### smallest encoding, separators -/

def minKey : KT → Option Bytes
  | .option t => match fixedWidth t with
    | some w => some (List.replicate (w + 1) 0)
    | none => some [0]
  | .bytes => some []
  | .str => some []
  | .tuple [t] => minKey t
  | _ => none

/-- assemble a variable-width array encoding from its element encodings -/
def buildArray (elements : List Bytes) : Bytes :=
  let header := 4 * elements.length
  let ends := (elements.foldl (fun (s : Nat × List Nat) e => (s.1 + e.length, s.2 ++ [s.1 + e.length]))
    (header, [])).2
  (ends.map (natLe 4)).flatten ++ elements.flatten

mutual
/-- `Key::separator` -/
def sep : KT → Bytes → Bytes → Bytes
  | .bytes, l, r =>
    let n := commonPrefixLen l r + 1
    if n < l.length && n < r.length then r.take n else l
  | .str, l, r =>
    let n := roundUpToCharBoundary r (commonPrefixLen l r + 1)
    if n < l.length && n < r.length then r.take n else l
  | .option t, l, r =>
    match fixedWidth t with
    | some _ => l
    | none =>
      if (l.getD 0 0).toNat = 0 then l
      else
        let payload := sep t (l.drop 1) (r.drop 1)
        if payload.length + 1 ≥ l.length then l else 1 :: payload
  | .array n t, l, r =>
    match fixedWidth t with
    | some _ => l
    | none => sepArray t n l r 0 n
  | _, l, _ => l
/-- the element loop of the array separator: elements `i ..`, `k` remaining -/
def sepArray (t : KT) (n : Nat) (l r : Bytes) (i : Nat) : Nat → Bytes
  | 0 => l
  | k + 1 =>
    let le := arrayElement n l i
    let re := arrayElement n r i
    if cmp t le re == .eq then sepArray t n l r (i + 1) k
    else
      let s := sep t le re
      let replacesTail := i + 1 < n && cmp t le s == .lt
      let tail : Option Bytes := if replacesTail then minKey t else none
      let elements := (List.range i).map (arrayElement n l) ++ [s] ++
        (List.range (n - (i + 1))).map (fun j =>
          match tail with
          | some m => m
          | none => arrayElement n l (i + 1 + j))
      let total := elements.foldl (fun a e => a + e.length) (4 * n)
      if total ≥ l.length then l else buildArray elements
end

/-- `branch_separator` -/
def branchSeparator (t : KT) (l r : Bytes) : Bytes :=
  match fixedWidth t with
  | some _ => l
  | none => sep t l r

/-- the decidable separator contract (what the property demands of any separator `s`) -/
def sepOk (t : KT) (a b s : Bytes) : Bool :=
  valid t s && cmp t a s != .gt && cmp t s b == .lt && s.length ≤ a.length

end Redb.Key
