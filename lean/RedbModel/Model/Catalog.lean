/-
The table catalog of a redb database (property C17): a map from table name to
(kind, key type, value type, fixed widths, alignments, contents), kept as an association list
strictly sorted by name (byte-wise, the order of the `&str` keys of the master table), plus the
state of a write transaction: the committed catalog, the staged catalog and the set of names with
a live handle. Models `TableNamespace` / `TableTreeMut` (transactions.rs, table_tree.rs) and
`InternalTableDefinition::check_match` (table_tree_base.rs), `TypeName` (types.rs).
Import-free; executable; total.
-/
namespace Redb.Catalog

/-- a table name as its UTF-8 bytes -/
abbrev Name := List UInt8

/-- byte-wise lexicographic comparison (`<&str as Key>::compare` = `str::cmp`) -/
def cmpName : Name → Name → Ordering
  | [], [] => .eq
  | [], _ :: _ => .lt
  | _ :: _, [] => .gt
  | a :: as, b :: bs =>
    if a.toNat < b.toNat then .lt
    else if b.toNat < a.toNat then .gt
    else cmpName as bs

inductive Kind where
  | normal
  | multimap
deriving DecidableEq, Repr

/-- `TypeName`: classification byte (1 Internal, 2 UserDefined, 3 Internal2, 4 Internal3), the name,
and the in-memory-only classification that older versions stored for a composite -/
structure TypeName where
  cls : Nat
  name : String
  legacy : Option Nat := none
deriving DecidableEq, Repr

/-- `PartialEq for TypeName`: the on-disk identity; `legacy` does not participate -/
def TypeName.same (a b : TypeName) : Bool := a.cls == b.cls && a.name == b.name

/-- `TypeName::matches_legacy`: `stored` is the spelling an older version wrote for `self` -/
def TypeName.matchesLegacy (self stored : TypeName) : Bool :=
  match self.legacy with
  | some natural => natural == stored.cls && self.name == stored.name
  | none => false

/-- what a Rust type contributes to a request: `type_name()` and `fixed_width()` -/
structure TypeDesc where
  tn : TypeName
  width : Option Nat
deriving DecidableEq, Repr

/-! ### The type universe of the harness, named as the Rust impls name them -/

inductive Ty where
  | u8 | u32 | u64 | bytes | str | string
  | user (name : String) (width : Option Nat)
  | option (t : Ty)
  | tuple2 (a b : Ty)
  | array (t : Ty) (n : Nat)
  | bytesRef (n : Nat)
deriving Repr

def internal (name : String) : TypeName := { cls := 1, name := name }
def internal2 (name : String) : TypeName := { cls := 3, name := name }

/-- `TypeName::into_composite` -/
def intoComposite (t : TypeName) (userDefined : Bool) : TypeName :=
  { cls := if userDefined then 2 else 4, name := t.name, legacy := some t.cls }

def TypeName.isUserDefined (t : TypeName) : Bool := t.cls == 2

def Ty.fixedWidth : Ty → Option Nat
  | .u8 => some 1
  | .u32 => some 4
  | .u64 => some 8
  | .bytes => none
  | .str => none
  | .string => none
  | .user _ w => w
  | .option t => t.fixedWidth.map (· + 1)
  | .tuple2 a b =>
    match a.fixedWidth, b.fixedWidth with
    | some x, some y => some (x + y)
    | _, _ => none
  | .array t n => t.fixedWidth.map (· * n)
  | .bytesRef n => some n

def Ty.typeName : Ty → TypeName
  | .u8 => internal "u8"
  | .u32 => internal "u32"
  | .u64 => internal "u64"
  | .bytes => internal "&[u8]"
  | .str => internal "&str"
  | .string => internal "String"
  | .user n _ => { cls := 2, name := n }
  | .option t => intoComposite (internal s!"Option<{t.typeName.name}>") t.typeName.isUserDefined
  | .tuple2 a b =>
    let name := s!"({a.typeName.name},{b.typeName.name})"
    let natural := if (Ty.tuple2 a b).fixedWidth.isSome then internal name else internal2 name
    intoComposite natural (a.typeName.isUserDefined || b.typeName.isUserDefined)
  | .array t n => intoComposite (internal s!"[{t.typeName.name};{n}]") t.typeName.isUserDefined
  | .bytesRef n => intoComposite (internal s!"[u8;{n}]") false

def Ty.desc (t : Ty) : TypeDesc := { tn := t.typeName, width := t.fixedWidth }

/-- what a version before the composite reclassification stored for the type -/
def Ty.legacyDesc (t : Ty) : TypeDesc :=
  { tn := { cls := t.typeName.legacy.getD t.typeName.cls, name := t.typeName.name }, width := t.fixedWidth }

/-! ### Catalog entries -/

/-- abstract row of a table: (key number, value number, value padding) -/
abbrev Row := Nat × Nat × Nat
abbrev Contents := List Row

/-- `InternalTableDefinition` with the tree abstracted to its contents -/
structure TableInfo where
  kind : Kind
  keyType : TypeName
  valType : TypeName
  keyWidth : Option Nat
  valWidth : Option Nat
  keyAlign : Nat := 1
  valAlign : Nat := 1
  contents : Contents := []
deriving Repr

/-- the constant `ALIGNMENT` -/
def ALIGNMENT : Nat := 1

structure Request where
  kind : Kind
  key : TypeDesc
  val : TypeDesc
deriving Repr

/-- results of the catalog operations (`TableError` variants) -/
inductive Outcome where
  | ok
  | typeMismatch
  | isMultimap
  | notMultimap
  | typeDefinitionChanged
  | doesNotExist
  | tableExists
  | alreadyOpen
deriving DecidableEq, Repr

/-- `check_match_untyped`: kind, then the two alignments -/
def checkMatchUntyped (info : TableInfo) (kind : Kind) : Outcome :=
  if info.kind ≠ kind then
    (if info.kind = .multimap then .isMultimap else .notMultimap)
  else if info.keyAlign ≠ ALIGNMENT then .typeDefinitionChanged
  else if info.valAlign ≠ ALIGNMENT then .typeDefinitionChanged
  else .ok

def typeMatches (stored : TypeName) (expected : TypeName) : Bool :=
  stored.same expected || expected.matchesLegacy stored

/-- `check_match`: kind → alignment → type names (current or legacy spelling) → fixed widths -/
def checkMatch (info : TableInfo) (req : Request) : Outcome :=
  match checkMatchUntyped info req.kind with
  | .ok =>
    if !(typeMatches info.keyType req.key.tn) || !(typeMatches info.valType req.val.tn) then .typeMismatch
    else if info.keyWidth ≠ req.key.width then .typeDefinitionChanged
    else if info.valWidth ≠ req.val.width then .typeDefinitionChanged
    else .ok
  | e => e

/-- `InternalTableDefinition::new::<K, V>(kind, None, 0)` -/
def freshInfo (req : Request) : TableInfo :=
  { kind := req.kind, keyType := req.key.tn, valType := req.val.tn,
    keyWidth := req.key.width, valWidth := req.val.width }

/-! ### The sorted association list -/

abbrev Catalog := List (Name × TableInfo)

def lookup : Catalog → Name → Option TableInfo
  | [], _ => none
  | (k, v) :: rest, n =>
    match cmpName n k with
    | .lt => none
    | .eq => some v
    | .gt => lookup rest n

/-- insert or replace -/
def insert : Catalog → Name → TableInfo → Catalog
  | [], n, i => [(n, i)]
  | (k, v) :: rest, n, i =>
    match cmpName n k with
    | .lt => (n, i) :: (k, v) :: rest
    | .eq => (k, i) :: rest
    | .gt => (k, v) :: insert rest n i

def erase : Catalog → Name → Catalog
  | [], _ => []
  | (k, v) :: rest, n =>
    match cmpName n k with
    | .lt => (k, v) :: rest
    | .eq => rest
    | .gt => (k, v) :: erase rest n

/-- `list_tables(kind)`: the names of the given kind in catalog order -/
def listOf (c : Catalog) (kind : Kind) : List Name :=
  (c.filter (fun e => e.2.kind = kind)).map (·.1)

/-! ### Transaction state and operations -/

structure State where
  committed : Catalog := []
  staged : Catalog := []
  openNames : List Name := []

def init : State := {}

def isOpen (s : State) (n : Name) : Bool := s.openNames.contains n

/-- `open_table` / `open_multimap_table` in a write transaction (`TableNamespace::inner_open`):
already-open check first, then `get_or_create_table` -/
def openTable (s : State) (n : Name) (req : Request) : State × Outcome :=
  if isOpen s n then (s, .alreadyOpen)
  else
    match lookup s.staged n with
    | some info =>
      match checkMatch info req with
      | .ok => ({ s with openNames := n :: s.openNames }, .ok)
      | e => (s, e)
    | none =>
      ({ s with staged := insert s.staged n (freshInfo req), openNames := n :: s.openNames }, .ok)

/-- dropping a table handle (`close_table`) -/
def closeHandle (s : State) (n : Name) : State :=
  { s with openNames := s.openNames.filter (· ≠ n) }

/-- `rename_table` / `rename_multimap_table` -/
def rename (s : State) (kind : Kind) (a b : Name) : State × Outcome :=
  if isOpen s a then (s, .alreadyOpen)
  else
    match lookup s.staged a with
    | none => (s, .doesNotExist)
    | some info =>
      match checkMatchUntyped info kind with
      | .ok =>
        if a = b then (s, .ok)
        else
          match lookup s.staged b with
          | some other =>
            (match checkMatchUntyped other kind with
             | .ok => (s, .tableExists)
             | e => (s, e))
          | none => ({ s with staged := insert (erase s.staged a) b info }, .ok)
      | e => (s, e)

inductive DelResult where
  | removed
  | absent
  | refused (e : Outcome)
deriving DecidableEq, Repr

/-- `delete_table` / `delete_multimap_table` -/
def delete (s : State) (kind : Kind) (a : Name) : State × DelResult :=
  if isOpen s a then (s, .refused .alreadyOpen)
  else
    match lookup s.staged a with
    | none => (s, .absent)
    | some info =>
      match checkMatchUntyped info kind with
      | .ok => ({ s with staged := erase s.staged a }, .removed)
      | e => (s, .refused e)

def list (s : State) (kind : Kind) : List Name := listOf s.staged kind

def commit (s : State) : State := { committed := s.staged, staged := s.staged, openNames := [] }

def abort (s : State) : State := { committed := s.committed, staged := s.committed, openNames := [] }

/-- data operations through a handle change the contents of the staged entry only -/
def modifyContents (s : State) (n : Name) (f : Contents → Contents) : State :=
  match lookup s.staged n with
  | some info => { s with staged := insert s.staged n { info with contents := f info.contents } }
  | none => s

/-- `ReadTransaction::open_table` / `open_multimap_table` on a committed catalog -/
def readOpen (c : Catalog) (n : Name) (req : Request) : Outcome :=
  match lookup c n with
  | none => .doesNotExist
  | some info => checkMatch info req

/-- `ReadTransaction::open_untyped_table` / `open_untyped_multimap_table` -/
def readOpenUntyped (c : Catalog) (n : Name) (kind : Kind) : Outcome :=
  match lookup c n with
  | none => .doesNotExist
  | some info => checkMatchUntyped info kind

/-! ### Operation sequences -/

inductive Op where
  | openT (n : Name) (req : Request)
  | close (n : Name)
  | renameT (kind : Kind) (a b : Name)
  | deleteT (kind : Kind) (a : Name)
  | modify (n : Name) (f : Contents → Contents)
  | commitT
  | abortT

def step (s : State) : Op → State
  | .openT n req => (openTable s n req).1
  | .close n => closeHandle s n
  | .renameT k a b => (rename s k a b).1
  | .deleteT k a => (delete s k a).1
  | .modify n f => if isOpen s n then modifyContents s n f else s
  | .commitT => commit s
  | .abortT => abort s

def run (s : State) (ops : List Op) : State := ops.foldl step s

/-! ### Row sets (contents) -/

def rowLt (a b : Row) : Bool :=
  a.1 < b.1 || (a.1 == b.1 && (a.2.1 < b.2.1 || (a.2.1 == b.2.1 && a.2.2 < b.2.2)))

/-- insert into the sorted duplicate-free row list; the flag says whether the row is new -/
def rowInsert : Contents → Row → Contents × Bool
  | [], r => ([r], true)
  | x :: rest, r =>
    if rowLt r x then (r :: x :: rest, true)
    else if rowLt x r then
      let p := rowInsert rest r
      (x :: p.1, p.2)
    else (x :: rest, false)

def rowsOfKey (c : Contents) (i : Nat) : List Row := c.filter (fun r => r.1 == i)
def dropKey (c : Contents) (i : Nat) : Contents := c.filter (fun r => r.1 != i)

end Redb.Catalog
