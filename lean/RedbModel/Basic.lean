def hello := "world"
