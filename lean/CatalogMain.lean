import Driver.Catalog
/-! Stand-alone test entry for the C17 catalog driver: `cat` lines only. -/
open Redb.Driver

partial def catLoop (h : IO.FS.Stream) (out : IO.FS.Stream) (st : CatState) : IO Unit := do
  let line ← h.getLine
  if line.isEmpty then return ()
  if line.trimAscii.toString.isEmpty || line.startsWith "#" then
    catLoop h out st
  else
    let (req, obs) := splitLine line
    match req with
    | "cat" :: rest =>
      let (st', o) := catStep st rest obs
      out.putStrLn o
      catLoop h out st'
    | _ =>
      out.putStrLn "bad-op"
      catLoop h out st

def main : IO Unit := do
  let out ← IO.getStdout
  catLoop (← IO.getStdin) out {}
