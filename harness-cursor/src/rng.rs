//! SplitMix64: every random choice of a run derives from one seed.
#[derive(Clone)]
pub struct Rng(pub u64);

impl Rng {
    pub fn new(seed: u64) -> Self {
        Rng(seed.wrapping_mul(0x9E37_79B9_7F4A_7C15) ^ 0xD1B5_4A32_D192_ED03)
    }
    pub fn next(&mut self) -> u64 {
        self.0 = self.0.wrapping_add(0x9E37_79B9_7F4A_7C15);
        let mut z = self.0;
        z = (z ^ (z >> 30)).wrapping_mul(0xBF58_476D_1CE4_E5B9);
        z = (z ^ (z >> 27)).wrapping_mul(0x94D0_49BB_1331_11EB);
        z ^ (z >> 31)
    }
    /// uniform in 0..n (n > 0)
    pub fn below(&mut self, n: u64) -> u64 {
        self.next() % n
    }
    pub fn range(&mut self, lo: u64, hi_incl: u64) -> u64 {
        lo + self.below(hi_incl - lo + 1)
    }
    pub fn chance(&mut self, num: u64, den: u64) -> bool {
        self.below(den) < num
    }
    pub fn pick<'a, T>(&mut self, xs: &'a [T]) -> &'a T {
        &xs[self.below(xs.len() as u64) as usize]
    }
    pub fn fork(&mut self) -> Rng {
        Rng(self.next())
    }
    pub fn bytes(&mut self, n: usize) -> Vec<u8> {
        (0..n).map(|_| self.next() as u8).collect()
    }
}
