//! C18: gap cursors agree with a sorted-map cursor. Generated programs fill a table, then run
//! cursor scripts (`Table::lower_bound_mut` / `upper_bound_mut` -> `CursorMut`, and the read-only
//! `ReadableTable::lower_bound` / `upper_bound` -> `Cursor`) against the real code. Every answer is
//! written for the Lean zipper model; the same program is interpreted by a sorted vector plus a gap
//! index ordered by the implementation's own `Key::compare`, which is the implementation-only
//! evaluation of the property (S).
//!
//! Helpers (`repr`, `expand`, pattern tokens, `dump_hash`, key families) are copied from
//! /verif/harness/src/table.rs so that the Lean driver can reuse Driver/Table.lean.
use crate::backend::MemBackend;
use crate::out::{hex, unhex, Out};
use crate::rng::Rng;
use crate::Args;
use redb::{Builder, Database, Key, ReadableDatabase, ReadableTable, ReadableTableMetadata, TableDefinition, Value};
use std::cmp::Ordering;
use std::ops::Bound;
use std::panic::{catch_unwind, AssertUnwindSafe};

pub fn fnv64(parts: &[&[u8]]) -> u64 {
    let mut h: u64 = 0xcbf2_9ce4_8422_2325;
    for p in parts {
        for b in *p {
            h ^= u64::from(*b);
            h = h.wrapping_mul(0x0000_0100_0000_01b3);
        }
    }
    h
}

/// canonical short text of a byte string: hex when short, length + hash otherwise
pub fn repr(b: &[u8]) -> String {
    if b.len() <= 24 {
        hex(b)
    } else {
        format!("L{}H{:016x}", b.len(), fnv64(&[b]))
    }
}

/// request token of a byte string: hex, or a pattern `p<len>x<seed>` (byte i = (i*31+seed) & 0xff)
pub fn expand(tok: &str) -> Vec<u8> {
    if let Some(rest) = tok.strip_prefix('p') {
        let (len, seed) = rest.split_once('x').unwrap();
        let len: usize = len.parse().unwrap();
        let seed: usize = seed.parse().unwrap();
        (0..len).map(|i| ((i * 31 + seed) & 0xff) as u8).collect()
    } else {
        unhex(tok)
    }
}

type Entry = (Vec<u8>, Vec<u8>);

// ---------------------------------------------------------------------------------- key families

pub trait Fam {
    type K: Key + 'static;
    const DESC: &'static str;
    fn key<'a>(enc: &'a [u8]) -> <Self::K as Value>::SelfType<'a>;
    fn gen_key(rng: &mut Rng, page: usize) -> Vec<u8>;
    /// up to `n` ascending keys aimed at the open interval (lo, hi); the caller filters them with
    /// the implementation's comparator, so a family may over-approximate
    fn run_keys(lo: Option<&[u8]>, hi: Option<&[u8]>, n: usize, rng: &mut Rng) -> Vec<Vec<u8>>;
    /// single candidates hugging the ends of (lo, hi) (immediate successor of lo, predecessor of hi ...)
    fn near(lo: Option<&[u8]>, hi: Option<&[u8]>, rng: &mut Rng) -> Vec<Vec<u8>>;
}

pub struct FamU64;
impl FamU64 {
    fn v(k: &[u8]) -> u64 {
        u64::from_le_bytes(k.try_into().unwrap())
    }
    /// the interval as [start, end) in u128
    fn span(lo: Option<&[u8]>, hi: Option<&[u8]>) -> (u128, u128) {
        (lo.map_or(0, |x| u128::from(Self::v(x)) + 1), hi.map_or(1u128 << 64, |x| u128::from(Self::v(x))))
    }
}
impl Fam for FamU64 {
    type K = u64;
    const DESC: &'static str = "u64";
    fn key<'a>(enc: &'a [u8]) -> u64 {
        Self::v(enc)
    }
    fn gen_key(rng: &mut Rng, _page: usize) -> Vec<u8> {
        let v: u64 = match rng.below(12) {
            0 => *rng.pick(&[0, u64::MAX, 1 << 32, 255, 256, 65536, u64::MAX - 1]),
            1 => rng.next(),
            2 => rng.below(48),
            _ => rng.below(300) * 1000,
        };
        v.to_le_bytes().to_vec()
    }
    fn run_keys(lo: Option<&[u8]>, hi: Option<&[u8]>, n: usize, rng: &mut Rng) -> Vec<Vec<u8>> {
        let (start, end) = Self::span(lo, hi);
        if end <= start || n == 0 {
            return vec![];
        }
        let room = (end - start) / n as u128;
        let step = u128::from(*rng.pick(&[1u64, 1, 2, 7, 1000])).min(room.max(1));
        let slack = (end - start).saturating_sub(step * n as u128);
        let off = if slack > 0 && rng.chance(1, 2) { u128::from(rng.next()) % slack.min(5000) } else { 0 };
        (0..n as u128).map(|i| start + off + i * step).filter(|x| *x < end).map(|x| (x as u64).to_le_bytes().to_vec()).collect()
    }
    fn near(lo: Option<&[u8]>, hi: Option<&[u8]>, rng: &mut Rng) -> Vec<Vec<u8>> {
        let (start, end) = Self::span(lo, hi);
        if end <= start {
            return vec![];
        }
        let r = start + u128::from(rng.next()) % (end - start);
        [start, end - 1, start + (end - start) / 2, r].iter().map(|x| (*x as u64).to_le_bytes().to_vec()).collect()
    }
}

pub struct FamBytes;
impl Fam for FamBytes {
    type K = &'static [u8];
    const DESC: &'static str = "bytes";
    fn key<'a>(enc: &'a [u8]) -> &'a [u8] {
        enc
    }
    fn gen_key(rng: &mut Rng, page: usize) -> Vec<u8> {
        let mut v = vec![];
        match rng.below(14) {
            0 => {}
            1 => {
                // long key sharing a long prefix
                let n = *rng.pick(&[page / 3, page / 2, page - 40, page + 10, 2 * page]);
                v = vec![0x61; n];
                v.push(rng.below(4) as u8);
            }
            _ => {
                for _ in 0..rng.range(1, 4) {
                    v.extend_from_slice(*rng.pick::<&[u8]>(&[b"a", b"ab", b"b", b"\x00", b"\xff", b"key", b"key\x00", b"prefix/shared/", b"k", b"m", b"q", b"zz"]));
                }
                if rng.chance(1, 2) {
                    v.push(rng.below(200) as u8);
                }
            }
        }
        v
    }
    fn run_keys(lo: Option<&[u8]>, _hi: Option<&[u8]>, n: usize, rng: &mut Rng) -> Vec<Vec<u8>> {
        // lo ++ big-endian counter: every key extends lo (so sorts above it), ascending among themselves
        let base = lo.unwrap_or(&[]);
        let step = (*rng.pick(&[1usize, 1, 3, 40])).min(60000 / n.max(1)).max(1);
        let off = rng.below(5) as usize;
        (0..n)
            .map(|i| {
                let c = (off + i * step) as u16;
                let mut k = base.to_vec();
                k.extend_from_slice(&c.to_be_bytes());
                k
            })
            .collect()
    }
    fn near(lo: Option<&[u8]>, hi: Option<&[u8]>, rng: &mut Rng) -> Vec<Vec<u8>> {
        let mut c: Vec<Vec<u8>> = vec![vec![]];
        let base = lo.unwrap_or(&[]);
        for b in [0u8, 0xff, rng.below(256) as u8] {
            let mut k = base.to_vec();
            k.push(b);
            c.push(k);
        }
        if let Some(h) = hi
            && let Some((last, pre)) = h.split_last()
        {
            c.push(pre.to_vec());
            if *last > 0 {
                let mut k = pre.to_vec();
                k.push(last - 1);
                c.push(k.clone());
                k.push(0xff);
                c.push(k);
            }
        }
        c
    }
}

pub struct FamStr;
impl Fam for FamStr {
    type K = &'static str;
    const DESC: &'static str = "str";
    fn key<'a>(enc: &'a [u8]) -> &'a str {
        std::str::from_utf8(enc).unwrap()
    }
    fn gen_key(rng: &mut Rng, page: usize) -> Vec<u8> {
        let mut s = String::new();
        match rng.below(14) {
            0 => {}
            1 => {
                let n = *rng.pick(&[page / 3, page / 2, page - 60]);
                s = "\u{e9}".repeat(n / 2);
                s.push_str(*rng.pick::<&str>(&["a", "\u{e8}", "\u{20ac}", ""]));
            }
            _ => {
                for _ in 0..rng.range(1, 4) {
                    s.push_str(*rng.pick::<&str>(&["a", "ab", "b", "\u{e9}", "\u{e8}", "\u{20ac}", "\u{1f600}", "shared-prefix-", "k", "\u{7ff}", "\u{800}", "m", "q", "zz"]));
                }
                if rng.chance(1, 2) {
                    s.push(char::from(b'0' + rng.below(75) as u8));
                }
            }
        }
        s.into_bytes()
    }
    fn run_keys(lo: Option<&[u8]>, _hi: Option<&[u8]>, n: usize, rng: &mut Rng) -> Vec<Vec<u8>> {
        let base = lo.map_or("", |b| std::str::from_utf8(b).unwrap());
        let step = (*rng.pick(&[1usize, 1, 3, 25])).min(9000 / n.max(1)).max(1);
        let off = rng.below(5) as usize;
        (0..n).map(|i| format!("{base}{:04}", off + i * step).into_bytes()).collect()
    }
    fn near(lo: Option<&[u8]>, hi: Option<&[u8]>, rng: &mut Rng) -> Vec<Vec<u8>> {
        let mut c: Vec<Vec<u8>> = vec![vec![]];
        let base = lo.map_or("", |b| std::str::from_utf8(b).unwrap());
        for suf in ["\0", " ", "a", "\u{e9}", "\u{10ffff}", *rng.pick(&["b", "\u{20ac}", "~", "0"])] {
            c.push(format!("{base}{suf}").into_bytes());
        }
        if let Some(h) = hi {
            let h = std::str::from_utf8(h).unwrap();
            if let Some(last) = h.chars().next_back() {
                let pre = &h[..h.len() - last.len_utf8()];
                c.push(pre.as_bytes().to_vec());
                if let Some(d) = char::from_u32((last as u32).wrapping_sub(1)) {
                    c.push(format!("{pre}{d}").into_bytes());
                    c.push(format!("{pre}{d}\u{10ffff}").into_bytes());
                }
            }
        }
        c
    }
}

fn gen_value_tok(rng: &mut Rng, page: usize) -> String {
    let len = match rng.below(20) {
        0 => 0,
        1 => 1,
        2..=9 => rng.range(2, 230) as usize,
        10 | 11 => page / 3 + rng.below(9) as usize - 4,
        12 | 13 => page / 2 + rng.below(9) as usize - 4,
        14 => page - rng.range(1, 64) as usize,
        15 => page,
        16 => 2 * page,
        17 => 5 * page + rng.below(100) as usize,
        _ => rng.range(2, 60) as usize,
    };
    val_tok(rng, len)
}

fn val_tok(rng: &mut Rng, len: usize) -> String {
    if len <= 12 && rng.chance(1, 2) {
        hex(&rng.bytes(len))
    } else {
        format!("p{len}x{}", rng.below(251))
    }
}

fn bound_tok(b: &Bound<Vec<u8>>) -> String {
    match b {
        Bound::Unbounded => "u".into(),
        Bound::Included(k) => format!("i{}", hex(k)),
        Bound::Excluded(k) => format!("e{}", hex(k)),
    }
}
fn parse_bound(t: &str) -> Bound<Vec<u8>> {
    match &t[..1] {
        "u" => Bound::Unbounded,
        "i" => Bound::Included(unhex(&t[1..])),
        _ => Bound::Excluded(unhex(&t[1..])),
    }
}

fn opt_repr(v: Option<Vec<u8>>) -> String {
    v.map_or("none".into(), |x| repr(&x))
}
fn pair_repr(p: Option<Entry>) -> String {
    p.map_or("none".into(), |(k, v)| format!("{}={}", repr(&k), repr(&v)))
}
fn list_repr(l: &[Entry]) -> String {
    if l.is_empty() {
        "-".into()
    } else {
        l.iter().map(|(k, v)| format!("{}={}", repr(k), repr(v))).collect::<Vec<_>>().join(",")
    }
}

/// take from a double-ended sequence according to the mode: fwd / rev / alt (front first)
fn consume<T>(mut next: impl FnMut(bool) -> Option<T>, mode: &str, limit: usize) -> Vec<T> {
    let mut outv = vec![];
    let mut front = mode != "rev";
    while outv.len() < limit {
        match next(front) {
            Some(x) => outv.push(x),
            None => break,
        }
        if mode == "alt" {
            front = !front;
        }
    }
    outv
}

pub fn dump_hash(l: &[Entry]) -> u64 {
    let mut h: u64 = 0;
    for (k, v) in l {
        h = h.rotate_left(5) ^ fnv64(&[k, b"=", v]);
    }
    h
}

// ---------------------------------------------------------------------------------- oracle (S)

/// Sorted vector + gap index: the sorted-map cursor the property compares against.
#[derive(Clone, Default)]
pub struct Shadow {
    pub cur: Vec<Entry>,
    pub committed: Vec<Entry>,
    /// gap of the open `CursorMut`: number of entries before it
    pub gap: Option<usize>,
    /// contents seen by the open read-only `Cursor`, and its gap
    pub ro: Option<(Vec<Entry>, usize)>,
    pub in_read: bool,
}

fn cmp<F: Fam>(a: &[u8], b: &[u8]) -> Ordering {
    F::K::compare(a, b)
}

fn strictly_between<F: Fam>(k: &[u8], lo: Option<&[u8]>, hi: Option<&[u8]>) -> bool {
    lo.is_none_or(|l| cmp::<F>(l, k) == Ordering::Less) && hi.is_none_or(|h| cmp::<F>(k, h) == Ordering::Less)
}

impl Shadow {
    fn pos<F: Fam>(&self, k: &[u8]) -> Result<usize, usize> {
        self.cur.binary_search_by(|e| cmp::<F>(&e.0, k))
    }
    fn in_range<F: Fam>(lo: &Bound<Vec<u8>>, hi: &Bound<Vec<u8>>, k: &[u8]) -> bool {
        let a = match lo {
            Bound::Unbounded => true,
            Bound::Included(b) => cmp::<F>(k, b) != Ordering::Less,
            Bound::Excluded(b) => cmp::<F>(k, b) == Ordering::Greater,
        };
        let b = match hi {
            Bound::Unbounded => true,
            Bound::Included(b) => cmp::<F>(k, b) != Ordering::Greater,
            Bound::Excluded(b) => cmp::<F>(k, b) == Ordering::Less,
        };
        a && b
    }
    /// the gap a sorted map reports for lower_bound / upper_bound
    fn bound_gap<F: Fam>(v: &[Entry], upper: bool, b: &Bound<Vec<u8>>) -> usize {
        match (upper, b) {
            (false, Bound::Unbounded) => 0,
            (true, Bound::Unbounded) => v.len(),
            // first entry >= x
            (false, Bound::Included(x)) | (true, Bound::Excluded(x)) => v.partition_point(|e| cmp::<F>(&e.0, x) == Ordering::Less),
            // first entry > x
            (false, Bound::Excluded(x)) | (true, Bound::Included(x)) => v.partition_point(|e| cmp::<F>(&e.0, x) != Ordering::Greater),
        }
    }
    /// keys adjacent to the open mutable cursor's gap
    fn neighbours(&self) -> (Option<&[u8]>, Option<&[u8]>) {
        let g = self.gap.expect("no open cursor");
        (if g > 0 { Some(self.cur[g - 1].0.as_slice()) } else { None }, self.cur.get(g).map(|e| e.0.as_slice()))
    }
    fn view(&self) -> &Vec<Entry> {
        if self.in_read { &self.committed } else { &self.cur }
    }

    /// expected answer of a request
    fn apply<F: Fam>(&mut self, req: &[&str]) -> String {
        match req {
            // ---- plain table requests
            ["insert", k, v] => {
                let (k, v) = (expand(k), expand(v));
                opt_repr(match self.pos::<F>(&k) {
                    Ok(i) => Some(std::mem::replace(&mut self.cur[i].1, v)),
                    Err(i) => {
                        self.cur.insert(i, (k, v));
                        None
                    }
                })
            }
            ["remove", k] => opt_repr(match self.pos::<F>(&expand(k)) {
                Ok(i) => Some(self.cur.remove(i).1),
                Err(_) => None,
            }),
            ["get", k] => {
                let k = expand(k);
                let v = self.view();
                opt_repr(v.binary_search_by(|e| cmp::<F>(&e.0, &k)).ok().map(|i| v[i].1.clone()))
            }
            ["len"] => self.view().len().to_string(),
            ["scan"] => format!("{} {:016x}", self.view().len(), dump_hash(self.view())),
            ["range", lo, hi, mode, limit] => {
                let (lo, hi) = (parse_bound(lo), parse_bound(hi));
                let mut sel: std::collections::VecDeque<_> = self.view().iter().filter(|e| Self::in_range::<F>(&lo, &hi, &e.0)).cloned().collect();
                let got = consume(|front| if front { sel.pop_front() } else { sel.pop_back() }, mode, limit.parse().unwrap());
                list_repr(&got)
            }
            ["dump"] => format!("{} {:016x}", self.committed.len(), dump_hash(&self.committed)),
            // ---- mutable cursor
            ["open", side, b] => {
                self.gap = Some(Self::bound_gap::<F>(&self.cur, *side == "upper", &parse_bound(b)));
                "ok".into()
            }
            ["close"] | ["drop"] => {
                self.gap = None;
                "ok".into()
            }
            ["peeknext"] => pair_repr(self.cur.get(self.gap.unwrap()).cloned()),
            ["peekprev"] => {
                let g = self.gap.unwrap();
                pair_repr(if g > 0 { Some(self.cur[g - 1].clone()) } else { None })
            }
            ["next"] => {
                let g = self.gap.unwrap();
                if g < self.cur.len() {
                    self.gap = Some(g + 1);
                    pair_repr(Some(self.cur[g].clone()))
                } else {
                    "none".into()
                }
            }
            ["prev"] => {
                let g = self.gap.unwrap();
                if g > 0 {
                    self.gap = Some(g - 1);
                    pair_repr(Some(self.cur[g - 1].clone()))
                } else {
                    "none".into()
                }
            }
            ["insb", k, v] | ["insa", k, v] => {
                let (k, v) = (expand(k), expand(v));
                let g = self.gap.unwrap();
                let (lo, hi) = self.neighbours();
                if strictly_between::<F>(&k, lo, hi) {
                    self.cur.insert(g, (k, v));
                    if req[0] == "insb" {
                        self.gap = Some(g + 1);
                    }
                    "ok".into()
                } else {
                    "unordered".into()
                }
            }
            ["rmnext"] => {
                let g = self.gap.unwrap();
                pair_repr(if g < self.cur.len() { Some(self.cur.remove(g)) } else { None })
            }
            ["rmprev"] => {
                let g = self.gap.unwrap();
                if g > 0 {
                    self.gap = Some(g - 1);
                    pair_repr(Some(self.cur.remove(g - 1)))
                } else {
                    "none".into()
                }
            }
            // ---- read-only cursor (on the write transaction's table or on a read transaction)
            ["ropen", side, b] => {
                let snap = self.view().clone();
                let g = Self::bound_gap::<F>(&snap, *side == "upper", &parse_bound(b));
                self.ro = Some((snap, g));
                "ok".into()
            }
            ["rclose"] => {
                self.ro = None;
                "ok".into()
            }
            ["rpeeknext"] => {
                let (v, g) = self.ro.as_ref().unwrap();
                pair_repr(v.get(*g).cloned())
            }
            ["rpeekprev"] => {
                let (v, g) = self.ro.as_ref().unwrap();
                pair_repr(if *g > 0 { Some(v[*g - 1].clone()) } else { None })
            }
            ["rnext"] => {
                let (v, g) = self.ro.as_mut().unwrap();
                if *g < v.len() {
                    *g += 1;
                    pair_repr(Some(v[*g - 1].clone()))
                } else {
                    "none".into()
                }
            }
            ["rprev"] => {
                let (v, g) = self.ro.as_mut().unwrap();
                if *g > 0 {
                    *g -= 1;
                    pair_repr(Some(v[*g].clone()))
                } else {
                    "none".into()
                }
            }
            // ---- transaction structure
            ["cfg", ..] => {
                *self = Shadow::default();
                "ok".into()
            }
            ["begin"] | ["reopen"] => "ok".into(),
            ["commit"] => {
                self.committed = self.cur.clone();
                "ok".into()
            }
            ["abort"] => {
                self.cur = self.committed.clone();
                "ok".into()
            }
            ["rbegin"] => {
                self.in_read = true;
                "ok".into()
            }
            ["rend"] => {
                self.in_read = false;
                "ok".into()
            }
            _ => panic!("shadow: unknown request {req:?}"),
        }
    }
}

// ---------------------------------------------------------------------------------- executor

/// location of the last panic (set by the hook installed in `run`; caught panics are reported as
/// oracle failures, not printed)
static PANIC_LOC: std::sync::Mutex<String> = std::sync::Mutex::new(String::new());

pub fn to_bound<'a, F: Fam>(b: &'a Bound<Vec<u8>>) -> Bound<<F::K as Value>::SelfType<'a>> {
    match b {
        Bound::Unbounded => Bound::Unbounded,
        Bound::Included(k) => Bound::Included(F::key(k)),
        Bound::Excluded(k) => Bound::Excluded(F::key(k)),
    }
}

fn kbytes<F: Fam>(k: <F::K as Value>::SelfType<'_>) -> Vec<u8> {
    let b = <F::K as Value>::as_bytes(&k);
    AsRef::<[u8]>::as_ref(&b).to_vec()
}

type Tbl<'t, F> = redb::Table<'t, <F as Fam>::K, &'static [u8]>;
type Guards<'g, F> = Option<(redb::AccessGuard<'g, <F as Fam>::K>, redb::AccessGuard<'g, &'static [u8]>)>;

pub fn err_tag<E: std::fmt::Debug>(e: E) -> String {
    let s = format!("{e:?}");
    format!("err:{}", s.split(|c: char| !c.is_alphanumeric()).next().unwrap_or("?"))
}

fn entry_answer<F: Fam>(r: Result<Guards<'_, F>, redb::StorageError>) -> String {
    match r {
        Ok(p) => pair_repr(p.map(|(k, v)| (kbytes::<F>(k.value()), v.value().to_vec()))),
        Err(e) => err_tag(e),
    }
}

fn insert_answer(r: Result<(), redb::StorageError>) -> String {
    match r {
        Ok(()) => "ok".into(),
        Err(redb::StorageError::UnorderedKey) => "unordered".into(),
        Err(e) => err_tag(e),
    }
}

/// requests every readable table answers (the write transaction's `Table` and `ReadOnlyTable`)
fn read_op<F: Fam, T: ReadableTable<F::K, &'static [u8]>>(t: &T, req: &[&str]) -> Option<String> {
    Some(match req {
        ["get", k] => {
            let k = expand(k);
            match t.get(F::key(&k)) {
                Ok(g) => opt_repr(g.map(|g| g.value().to_vec())),
                Err(e) => err_tag(e),
            }
        }
        ["len"] => match t.len() {
            Ok(n) => n.to_string(),
            Err(e) => err_tag(e),
        },
        ["scan"] => match t.iter() {
            Ok(it) => {
                let mut all: Vec<Entry> = vec![];
                for e in it {
                    match e {
                        Ok((k, v)) => all.push((kbytes::<F>(k.value()), v.value().to_vec())),
                        Err(e) => return Some(err_tag(e)),
                    }
                }
                format!("{} {:016x}", all.len(), dump_hash(&all))
            }
            Err(e) => err_tag(e),
        },
        ["range", lo, hi, mode, limit] => {
            let (lo, hi) = (parse_bound(lo), parse_bound(hi));
            // experimental-api-5: `range` takes a `KeyRange`; a pair of bounds is one
            match t.range((to_bound::<F>(&lo), to_bound::<F>(&hi))) {
                Ok(mut it) => {
                    let mut failed = None;
                    let got = consume(
                        |front| {
                            let x = if front { it.next() } else { it.next_back() };
                            match x {
                                Some(Ok((k, v))) => Some((kbytes::<F>(k.value()), v.value().to_vec())),
                                Some(Err(e)) => {
                                    failed = Some(err_tag(e));
                                    None
                                }
                                None => None,
                            }
                        },
                        mode,
                        limit.parse().unwrap(),
                    );
                    failed.unwrap_or_else(|| list_repr(&got))
                }
                Err(e) => err_tag(e),
            }
        }
        _ => return None,
    })
}

fn write_op<F: Fam>(t: &mut Tbl<'_, F>, req: &[&str]) -> String {
    match req {
        ["insert", k, v] => {
            let (k, v) = (expand(k), expand(v));
            match t.insert(F::key(&k), v.as_slice()) {
                Ok(old) => opt_repr(old.map(|g| g.value().to_vec())),
                Err(e) => err_tag(e),
            }
        }
        ["remove", k] => {
            let k = expand(k);
            match t.remove(F::key(&k)) {
                Ok(g) => opt_repr(g.map(|g| g.value().to_vec())),
                Err(e) => err_tag(e),
            }
        }
        _ => read_op::<F, _>(&*t, req).unwrap_or_else(|| panic!("exec: unknown table request {req:?}")),
    }
}

/// one method call on the real `CursorMut`
fn cursor_op<F: Fam>(c: &mut redb::CursorMut<'_, F::K, &'static [u8]>, req: &[&str]) -> String {
    match req {
        ["peeknext"] => entry_answer::<F>(c.peek_next()),
        ["peekprev"] => entry_answer::<F>(c.peek_prev()),
        ["next"] => entry_answer::<F>(c.next()),
        ["prev"] => entry_answer::<F>(c.prev()),
        ["rmnext"] => entry_answer::<F>(c.remove_next()),
        ["rmprev"] => entry_answer::<F>(c.remove_prev()),
        ["insb", k, v] => {
            let (k, v) = (expand(k), expand(v));
            insert_answer(c.insert_before(F::key(&k), v.as_slice()))
        }
        ["insa", k, v] => {
            let (k, v) = (expand(k), expand(v));
            insert_answer(c.insert_after(F::key(&k), v.as_slice()))
        }
        _ => panic!("exec: unknown cursor request {req:?}"),
    }
}

fn ro_cursor_op<F: Fam>(c: &mut redb::Cursor<'_, F::K, &'static [u8]>, req: &[&str]) -> String {
    match req {
        ["rpeeknext"] => entry_answer::<F>(c.peek_next()),
        ["rpeekprev"] => entry_answer::<F>(c.peek_prev()),
        ["rnext"] => entry_answer::<F>(c.next()),
        ["rprev"] => entry_answer::<F>(c.prev()),
        _ => panic!("exec: unknown read-only cursor request {req:?}"),
    }
}

fn short(line: &str) -> String {
    if line.len() > 160 { format!("{}...({} chars)", &line[..150], line.len()) } else { line.to_string() }
}

/// the oracle signature class of a request
fn class(op: &str) -> &'static str {
    match op {
        "peeknext" | "peekprev" | "rpeeknext" | "rpeekprev" => "cursor-peek",
        "next" | "prev" | "rnext" | "rprev" => "cursor-move",
        "insb" | "insa" => "cursor-insert",
        "rmnext" | "rmprev" => "cursor-remove",
        "open" | "ropen" | "close" | "drop" | "rclose" => "cursor-open-close",
        "dump" => "cursor-dump",
        "scan" | "len" => "cursor-contents",
        _ => "cursor-table-op",
    }
}

/// compare the implementation's answer with the oracle's and write the line for the Lean driver
fn record<F: Fam>(out: &mut Out, shadow: &mut Shadow, line: &str, got: String) {
    let toks: Vec<&str> = line.split(' ').collect();
    out.count(&format!("op_{}", toks[0]));
    if matches!(class(toks[0]), "cursor-peek" | "cursor-move" | "cursor-insert" | "cursor-remove" | "cursor-open-close") {
        out.count("cursor_ops");
    }
    if got == "unordered" {
        out.count("inserts_rejected");
    }
    let want = shadow.apply::<F>(&toks);
    if got != want {
        out.oracle_fail(format!("{}|{} {}: implementation answered {}, sorted-map cursor oracle {}", class(toks[0]), F::DESC, short(line), short(&got), short(&want)));
    }
    out.line(&format!("cur {line} => {got}"));
}

pub struct Cfg {
    pub page: usize,
    pub region: u64,
    pub cache: usize,
}

pub fn open_db(backend: MemBackend, cfg: &Cfg) -> Result<Database, redb::DatabaseError> {
    let mut b = Builder::new();
    b.verif_set_page_size(cfg.page);
    if cfg.region != 0 {
        b.verif_set_region_size(cfg.region);
    }
    b.set_cache_size(cfg.cache);
    b.create_with_backend(backend)
}

/// a read-only cursor session `ropen ... rclose` on any readable table
fn ro_session<F: Fam, T: ReadableTable<F::K, &'static [u8]>>(t: &T, prog: &[String], i: &mut usize, shadow: &mut Shadow, out: &mut Out) {
    let toks: Vec<&str> = prog[*i].split(' ').collect();
    let bound = parse_bound(toks[2]);
    let r = if toks[1] == "lower" { t.lower_bound(to_bound::<F>(&bound)) } else { t.upper_bound(to_bound::<F>(&bound)) };
    let mut c = match r {
        Ok(c) => c,
        Err(e) => {
            record::<F>(out, shadow, &prog[*i], err_tag(&e));
            panic!("read-only cursor could not be opened: {e:?}");
        }
    };
    record::<F>(out, shadow, &prog[*i], "ok".into());
    *i += 1;
    out.count("ro_sessions");
    while prog[*i] != "rclose" {
        let toks: Vec<&str> = prog[*i].split(' ').collect();
        let got = ro_cursor_op::<F>(&mut c, &toks);
        record::<F>(out, shadow, &prog[*i], got);
        *i += 1;
    }
    drop(c);
    record::<F>(out, shadow, &prog[*i], "ok".into());
    *i += 1;
}

/// Runs a whole program (list of requests) on the real database and on the oracle.
/// Returns false if the case could not be completed (panic caught).
pub fn run_program<F: Fam>(prog: &[String], out: &mut Out) -> bool {
    let def: TableDefinition<F::K, &'static [u8]> = TableDefinition::new("t");
    let mut shadow = Shadow::default();
    let mut cfg = Cfg { page: 4096, region: 0, cache: 1 << 20 };
    let mut backend = MemBackend::fresh();
    let mut db: Option<Database> = None;
    let mut i = 0;
    let res = catch_unwind(AssertUnwindSafe(|| {
        while i < prog.len() {
            let toks: Vec<&str> = prog[i].split(' ').collect();
            match toks.as_slice() {
                ["cfg", kt, page, region, cache] => {
                    assert_eq!(*kt, F::DESC);
                    cfg = Cfg { page: page.parse().unwrap(), region: region.parse().unwrap(), cache: cache.parse().unwrap() };
                    db = None;
                    backend = MemBackend::fresh();
                    db = Some(open_db(backend.clone(), &cfg).expect("create database"));
                    shadow = Shadow::default();
                    out.line(&format!("cur {}", prog[i]));
                    i += 1;
                }
                ["reopen"] => {
                    db = None;
                    backend = MemBackend::new(backend.data.clone());
                    db = Some(open_db(backend.clone(), &cfg).expect("reopen database"));
                    out.line("cur reopen");
                    i += 1;
                }
                ["begin"] => {
                    out.line("cur begin");
                    i += 1;
                    let txn = db.as_ref().unwrap().begin_write().expect("begin_write");
                    {
                        let mut t = txn.open_table(def).expect("open_table");
                        while i < prog.len() && prog[i] != "commit" && prog[i] != "abort" {
                            let toks: Vec<&str> = prog[i].split(' ').collect();
                            match toks.as_slice() {
                                ["open", side, b] => {
                                    let bound = parse_bound(b);
                                    let r = if *side == "lower" { t.lower_bound_mut(to_bound::<F>(&bound)) } else { t.upper_bound_mut(to_bound::<F>(&bound)) };
                                    let mut c = match r {
                                        Ok(c) => c,
                                        Err(e) => {
                                            record::<F>(out, &mut shadow, &prog[i], err_tag(&e));
                                            panic!("cursor could not be opened: {e:?}");
                                        }
                                    };
                                    record::<F>(out, &mut shadow, &prog[i], "ok".into());
                                    i += 1;
                                    out.count("sessions");
                                    loop {
                                        let toks: Vec<&str> = prog[i].split(' ').collect();
                                        match toks.as_slice() {
                                            ["close"] => {
                                                let got = match c.close() {
                                                    Ok(()) => "ok".to_string(),
                                                    Err(e) => err_tag(e),
                                                };
                                                record::<F>(out, &mut shadow, &prog[i], got);
                                                i += 1;
                                                break;
                                            }
                                            ["drop"] => {
                                                drop(c);
                                                record::<F>(out, &mut shadow, &prog[i], "ok".into());
                                                i += 1;
                                                break;
                                            }
                                            _ => {
                                                let got = cursor_op::<F>(&mut c, &toks);
                                                record::<F>(out, &mut shadow, &prog[i], got);
                                                i += 1;
                                            }
                                        }
                                    }
                                }
                                ["ropen", _, _] => ro_session::<F, _>(&t, prog, &mut i, &mut shadow, out),
                                _ => {
                                    let got = write_op::<F>(&mut t, &toks);
                                    record::<F>(out, &mut shadow, &prog[i], got);
                                    i += 1;
                                }
                            }
                        }
                    }
                    if i < prog.len() && prog[i] == "commit" {
                        txn.commit().expect("commit");
                        shadow.apply::<F>(&["commit"]);
                        out.line("cur commit");
                    } else {
                        txn.abort().expect("abort");
                        shadow.apply::<F>(&["abort"]);
                        out.line("cur abort");
                    }
                    i += 1;
                }
                ["rbegin"] => {
                    out.line("cur rbegin");
                    shadow.apply::<F>(&["rbegin"]);
                    i += 1;
                    let rt = db.as_ref().unwrap().begin_read().expect("begin_read");
                    let t = rt.open_table(def).expect("open_table (read)");
                    while prog[i] != "rend" {
                        let toks: Vec<&str> = prog[i].split(' ').collect();
                        if toks[0] == "ropen" {
                            ro_session::<F, _>(&t, prog, &mut i, &mut shadow, out);
                        } else {
                            let got = read_op::<F, _>(&t, &toks).unwrap_or_else(|| panic!("exec: unknown read request {toks:?}"));
                            record::<F>(out, &mut shadow, &prog[i], got);
                            i += 1;
                        }
                    }
                    out.line("cur rend");
                    shadow.apply::<F>(&["rend"]);
                    i += 1;
                }
                ["dump"] => {
                    // full contents through a read transaction
                    let rt = db.as_ref().unwrap().begin_read().expect("begin_read");
                    let got = match rt.open_table(def) {
                        Ok(t) => {
                            let all: Vec<Entry> = t
                                .iter()
                                .unwrap()
                                .map(|e| {
                                    let (k, v) = e.unwrap();
                                    (kbytes::<F>(k.value()), v.value().to_vec())
                                })
                                .collect();
                            let n = t.len().unwrap();
                            if n as usize != all.len() {
                                out.oracle_fail(format!("cursor-len|{}: len() = {n} but iteration yields {} entries", F::DESC, all.len()));
                            }
                            for w in all.windows(2) {
                                if cmp::<F>(&w[0].0, &w[1].0) != Ordering::Less {
                                    out.oracle_fail(format!("cursor-order|{}: iteration not strictly increasing at {}", F::DESC, repr(&w[1].0)));
                                }
                            }
                            format!("{} {:016x}", all.len(), dump_hash(&all))
                        }
                        Err(redb::TableError::TableDoesNotExist(_)) => format!("0 {:016x}", 0),
                        Err(e) => err_tag(e),
                    };
                    record::<F>(out, &mut shadow, "dump", got);
                    i += 1;
                }
                other => panic!("unknown program line {other:?}"),
            }
        }
    }));
    drop(db);
    if let Err(p) = res {
        let msg = p.downcast_ref::<String>().cloned().or_else(|| p.downcast_ref::<&str>().map(|s| s.to_string())).unwrap_or_default();
        out.oracle_fail(format!(
            "cursor-panic|{}: panic at program line {i} ({}): {} [{}]",
            F::DESC,
            short(&prog.get(i).cloned().unwrap_or_default()),
            msg.lines().next().unwrap_or(""),
            PANIC_LOC.lock().map(|l| l.clone()).unwrap_or_default()
        ));
        return false;
    }
    let v = backend.mon.contract_violations.lock().unwrap();
    for x in v.iter() {
        out.oracle_fail(format!("backend-contract|{x}"));
    }
    true
}

// ---------------------------------------------------------------------------------- generator

struct Gen<'r> {
    rng: &'r mut Rng,
    sh: Shadow,
    prog: Vec<String>,
    page: usize,
    thorough: bool,
}

impl Gen<'_> {
    fn emit<F: Fam>(&mut self, line: String) {
        let toks: Vec<&str> = line.split(' ').collect();
        self.sh.apply::<F>(&toks);
        self.prog.push(line);
    }

    fn some_key<F: Fam>(&mut self, existing_num: u64, existing_den: u64) -> Vec<u8> {
        let v = self.sh.view();
        if !v.is_empty() && self.rng.chance(existing_num, existing_den) { self.rng.pick(v).0.clone() } else { F::gen_key(self.rng, self.page) }
    }

    fn gen_bound<F: Fam>(&mut self) -> Bound<Vec<u8>> {
        let k = self.some_key::<F>(2, 3);
        match self.rng.below(7) {
            0 => Bound::Unbounded,
            1..=3 => Bound::Included(k),
            _ => Bound::Excluded(k),
        }
    }

    fn gen_range<F: Fam>(&mut self) -> (String, String) {
        let mut lo = self.gen_bound::<F>();
        let mut hi = self.gen_bound::<F>();
        // keep lo <= hi (an inverted range is a caller error in std; not part of the property)
        let keys = match (&lo, &hi) {
            (Bound::Included(a) | Bound::Excluded(a), Bound::Included(b) | Bound::Excluded(b)) => Some((a.clone(), b.clone())),
            _ => None,
        };
        if let Some((a, b)) = keys {
            match cmp::<F>(&a, &b) {
                Ordering::Greater => std::mem::swap(&mut lo, &mut hi),
                Ordering::Equal => {
                    lo = Bound::Included(a.clone());
                    hi = Bound::Included(a);
                }
                Ordering::Less => {}
            }
        }
        (bound_tok(&lo), bound_tok(&hi))
    }

    /// a key strictly inside the open cursor's gap, if the family can find one
    fn key_in_gap<F: Fam>(&mut self) -> Option<Vec<u8>> {
        let (lo, hi) = self.sh.neighbours();
        let (lo, hi) = (lo.map(<[u8]>::to_vec), hi.map(<[u8]>::to_vec));
        let mut c = F::near(lo.as_deref(), hi.as_deref(), self.rng);
        c.extend(F::run_keys(lo.as_deref(), hi.as_deref(), 3, self.rng));
        for _ in 0..3 {
            c.push(F::gen_key(self.rng, self.page));
        }
        c.retain(|k| strictly_between::<F>(k, lo.as_deref(), hi.as_deref()));
        if c.is_empty() { None } else { Some(self.rng.pick(&c).clone()) }
    }

    /// a key that the cursor must reject: equal to a neighbour, beyond a neighbour, or anywhere
    fn key_off_gap<F: Fam>(&mut self) -> Vec<u8> {
        let g = self.sh.gap.unwrap();
        let (lo, hi) = self.sh.neighbours();
        let (lo, hi) = (lo.map(<[u8]>::to_vec), hi.map(<[u8]>::to_vec));
        match self.rng.below(6) {
            0 | 1 if lo.is_some() => lo.unwrap(),
            2 | 3 if hi.is_some() => hi.unwrap(),
            4 if g > 0 => self.sh.cur[self.rng.below(g as u64) as usize].0.clone(),
            5 if g < self.sh.cur.len() => self.sh.cur[g + self.rng.below((self.sh.cur.len() - g) as u64) as usize].0.clone(),
            _ => F::gen_key(self.rng, self.page),
        }
    }

    fn small_val(&mut self) -> String {
        let len = if self.rng.chance(1, 12) { 0 } else { self.rng.range(1, 40) as usize };
        val_tok(self.rng, len)
    }

    fn plain_ops<F: Fam>(&mut self, n: u64) {
        for _ in 0..n {
            let line = match self.rng.below(10) {
                0..=3 => {
                    let k = if self.rng.chance(1, 3) { self.some_key::<F>(1, 1) } else { F::gen_key(self.rng, self.page) };
                    format!("insert {} {}", hex(&k), gen_value_tok(self.rng, self.page))
                }
                4 | 5 => format!("remove {}", hex(&self.some_key::<F>(3, 4))),
                6 | 7 => format!("get {}", hex(&self.some_key::<F>(3, 4))),
                8 => {
                    let (lo, hi) = self.gen_range::<F>();
                    format!("range {lo} {hi} {} {}", self.rng.pick(&["fwd", "rev", "alt"]), self.rng.pick(&[1usize, 3, 1000]))
                }
                _ => "len".into(),
            };
            self.emit::<F>(line);
        }
    }

    fn read_ops<F: Fam>(&mut self, n: u64) {
        for _ in 0..n {
            let line = match self.rng.below(5) {
                0 | 1 => format!("get {}", hex(&self.some_key::<F>(3, 4))),
                2 => {
                    let (lo, hi) = self.gen_range::<F>();
                    format!("range {lo} {hi} {} {}", self.rng.pick(&["fwd", "rev", "alt"]), self.rng.pick(&[1usize, 3, 1000]))
                }
                3 => "scan".into(),
                _ => "len".into(),
            };
            self.emit::<F>(line);
        }
    }

    /// `ropen ... rclose` on the current view (write transaction's table, or a read transaction)
    fn ro_session<F: Fam>(&mut self) {
        let side = *self.rng.pick(&["lower", "upper"]);
        let b = self.gen_bound::<F>();
        self.emit::<F>(format!("ropen {side} {}", bound_tok(&b)));
        let n = self.rng.range(1, if self.thorough { 40 } else { 20 });
        // a session keeps a direction preference so that it walks somewhere
        let fwd = self.rng.chance(1, 2);
        for _ in 0..n {
            let w = self.rng.below(10);
            let op = match w {
                0 | 1 => "rpeeknext",
                2 | 3 => "rpeekprev",
                4..=7 => if fwd { "rnext" } else { "rprev" },
                _ => if fwd { "rprev" } else { "rnext" },
            };
            self.emit::<F>(op.into());
        }
        self.emit::<F>("rclose".into());
    }

    fn move_or_peek<F: Fam>(&mut self, fwd: bool) {
        let op = match self.rng.below(10) {
            0 | 1 => "peeknext",
            2 | 3 => "peekprev",
            4..=7 => if fwd { "next" } else { "prev" },
            _ => if fwd { "prev" } else { "next" },
        };
        self.emit::<F>(op.into());
    }

    /// an insert that must be rejected (most of the time; the oracle decides)
    fn bad_insert<F: Fam>(&mut self, same_dir: Option<&str>) {
        let k = self.key_off_gap::<F>();
        // a rejected insert in the other direction still splices the pending run; `same_dir`
        // keeps the direction so that a long run stays buffered
        let op = same_dir.unwrap_or(if self.rng.chance(1, 2) { "insb" } else { "insa" });
        let v = self.small_val();
        self.emit::<F>(format!("{op} {} {v}", hex(&k)));
    }

    /// a run of inserts in one direction: ascending keys through insert_before, or descending keys
    /// through insert_after; peeks (which must not flush the buffered run) and rejected keys interleaved
    fn insert_run<F: Fam>(&mut self, ascending: bool, n: usize, big: bool) {
        let (lo, hi) = self.sh.neighbours();
        let (lo, hi) = (lo.map(<[u8]>::to_vec), hi.map(<[u8]>::to_vec));
        let mut keys = F::run_keys(lo.as_deref(), hi.as_deref(), n, self.rng);
        keys.retain(|k| strictly_between::<F>(k, lo.as_deref(), hi.as_deref()));
        keys.dedup();
        if !ascending {
            keys.reverse();
        }
        let op = if ascending { "insb" } else { "insa" };
        let fat = self.rng.chance(1, 6);
        for k in keys {
            let v = if big {
                format!("p{}x{}", 18000 + self.rng.below(4000), self.rng.below(251))
            } else if fat || self.rng.chance(1, 15) {
                gen_value_tok(self.rng, self.page)
            } else {
                self.small_val()
            };
            self.emit::<F>(format!("{op} {} {v}", hex(&k)));
            match self.rng.below(40) {
                0 | 1 => self.emit::<F>("peekprev".into()),
                2 | 3 => self.emit::<F>("peeknext".into()),
                4 | 5 => {
                    let same = big || self.rng.chance(1, 2);
                    self.bad_insert::<F>(if same { Some(op) } else { None });
                }
                _ => {}
            }
        }
    }

    /// `open ... close|drop` on the write transaction's table
    fn session<F: Fam>(&mut self, big_dir: Option<bool>) {
        let big = big_dir.is_some();
        let side = *self.rng.pick(&["lower", "upper"]);
        let b = self.gen_bound::<F>();
        self.emit::<F>(format!("open {side} {}", bound_tok(&b)));
        match self.rng.below(4) {
            0 => {
                self.emit::<F>("peekprev".into());
                self.emit::<F>("peeknext".into());
            }
            1 => {
                self.emit::<F>("peeknext".into());
                self.emit::<F>("peekprev".into());
            }
            _ => {}
        }
        let budget = self.rng.range(2, if self.thorough { 70 } else { 36 });
        let fwd = self.rng.chance(1, 2);
        let run_len = |rng: &mut Rng, thorough: bool| -> usize {
            if big {
                70
            } else {
                *rng.pick(if thorough { &[3usize, 8, 20, 60, 150, 400][..] } else { &[3usize, 8, 20, 60, 120][..] })
            }
        };
        let style = match big_dir {
            Some(true) => 1,
            Some(false) => 2,
            None => self.rng.below(8),
        };
        match style {
            0 => {
                // walk
                for _ in 0..budget {
                    if self.rng.chance(1, 12) {
                        self.bad_insert::<F>(None);
                    } else {
                        self.move_or_peek::<F>(fwd);
                    }
                }
            }
            1 => {
                let n = run_len(self.rng, self.thorough);
                self.insert_run::<F>(true, n, big);
                for _ in 0..self.rng.below(4) {
                    self.move_or_peek::<F>(fwd);
                }
            }
            2 => {
                let n = run_len(self.rng, self.thorough);
                self.insert_run::<F>(false, n, big);
                for _ in 0..self.rng.below(4) {
                    self.move_or_peek::<F>(fwd);
                }
            }
            3 => {
                // several runs separated by moves / removals / direction switches
                for _ in 0..self.rng.range(2, 5) {
                    let n = *self.rng.pick(&[1usize, 2, 5, 12, 30]);
                    let asc = self.rng.chance(1, 2);
                    self.insert_run::<F>(asc, n, false);
                    match self.rng.below(5) {
                        0 => self.emit::<F>("rmnext".into()),
                        1 => self.emit::<F>("rmprev".into()),
                        2 => {}
                        _ => {
                            for _ in 0..self.rng.range(1, 6) {
                                self.move_or_peek::<F>(fwd);
                            }
                        }
                    }
                }
            }
            4 => {
                // drain: removals in a preferred direction with moves in between
                for _ in 0..budget {
                    match self.rng.below(10) {
                        0..=4 => self.emit::<F>((if fwd { "rmnext" } else { "rmprev" }).into()),
                        5 => self.emit::<F>((if fwd { "rmprev" } else { "rmnext" }).into()),
                        _ => self.move_or_peek::<F>(fwd),
                    }
                }
            }
            5 => {
                // single inserts alternating direction: every switch splices the other side's run
                for _ in 0..budget {
                    if let Some(k) = self.key_in_gap::<F>() {
                        let op = if self.rng.chance(1, 2) { "insb" } else { "insa" };
                        let v = if self.rng.chance(1, 4) { gen_value_tok(self.rng, self.page) } else { self.small_val() };
                        self.emit::<F>(format!("{op} {} {v}", hex(&k)));
                    } else {
                        self.move_or_peek::<F>(fwd);
                    }
                    if self.rng.chance(1, 5) {
                        let op = if self.rng.chance(1, 2) { "peeknext" } else { "peekprev" };
                        self.emit::<F>(op.into());
                    }
                }
            }
            _ => {
                // everything mixed
                for _ in 0..budget {
                    match self.rng.below(20) {
                        0..=5 => {
                            if let Some(k) = self.key_in_gap::<F>() {
                                let op = if self.rng.chance(1, 2) { "insb" } else { "insa" };
                                let v = if self.rng.chance(1, 5) { gen_value_tok(self.rng, self.page) } else { self.small_val() };
                                self.emit::<F>(format!("{op} {} {v}", hex(&k)));
                            }
                        }
                        6 | 7 => self.bad_insert::<F>(None),
                        8 | 9 => self.emit::<F>("rmnext".into()),
                        10 | 11 => self.emit::<F>("rmprev".into()),
                        12 => {
                            let n = *self.rng.pick(&[2usize, 6, 15]);
                            let asc = self.rng.chance(1, 2);
                            self.insert_run::<F>(asc, n, false);
                        }
                        _ => self.move_or_peek::<F>(fwd),
                    }
                }
            }
        }
        let end = if self.rng.chance(1, 4) { "drop" } else { "close" };
        self.emit::<F>(end.into());
    }
}

pub fn gen_program<F: Fam>(rng: &mut Rng, thorough: bool, big_dir: Option<bool>) -> Vec<String> {
    let big = big_dir.is_some();
    let page = if big { 4096 } else { *rng.pick(&[512usize, 512, 512, 1024, 1024, 4096]) };
    let region: u64 = match rng.below(4) {
        0 => 0,
        1 => 1 << 20,
        _ => (page as u64 * 128).max(65536),
    };
    let cache = *rng.pick(&[0usize, 16384, 1 << 30]);
    let mut g = Gen { rng, sh: Shadow::default(), prog: vec![], page, thorough };
    g.emit::<F>(format!("cfg {} {page} {region} {cache}", F::DESC));
    // fill
    g.emit::<F>("begin".into());
    let n = match g.rng.below(8) {
        0 => 0,
        1 => g.rng.range(1, 3),
        2..=5 => g.rng.range(8, 70),
        _ => g.rng.range(70, if thorough { 400 } else { 180 }),
    };
    for _ in 0..n {
        let k = F::gen_key(g.rng, page);
        let v = if g.rng.chance(1, 3) { gen_value_tok(g.rng, page) } else { g.small_val() };
        g.emit::<F>(format!("insert {} {v}", hex(&k)));
    }
    g.emit::<F>("commit".into());
    g.emit::<F>("dump".into());
    let txns = if big { 1 } else { g.rng.range(2, if thorough { 6 } else { 4 }) };
    for _ in 0..txns {
        if g.rng.chance(1, 3) {
            // read-only cursors on a read transaction
            g.emit::<F>("rbegin".into());
            for _ in 0..g.rng.range(1, 3) {
                g.ro_session::<F>();
                let k = g.rng.below(3);
                g.read_ops::<F>(k);
            }
            g.emit::<F>("rend".into());
        }
        g.emit::<F>("begin".into());
        let parts = if big { 1 } else { g.rng.range(1, 4) };
        for _ in 0..parts {
            match g.rng.below(10) {
                _ if big => g.session::<F>(big_dir),
                0..=6 => g.session::<F>(None),
                7 => g.ro_session::<F>(),
                _ => {
                    let k = g.rng.range(1, 8);
                    g.plain_ops::<F>(k);
                }
            }
            match g.rng.below(6) {
                0 => g.emit::<F>("scan".into()),
                1 => g.emit::<F>("len".into()),
                2 => {
                    let k = g.rng.range(1, 4);
                    g.plain_ops::<F>(k);
                }
                _ => {}
            }
        }
        if g.rng.chance(1, 7) {
            g.emit::<F>("abort".into());
        } else {
            g.emit::<F>("commit".into());
        }
        if g.rng.chance(1, 3) {
            g.emit::<F>("reopen".into());
        }
        g.emit::<F>("dump".into());
    }
    g.prog
}

/// systematic part: a 512-byte-page table of `n` entries; for every gap an ascending insert_before
/// run and a descending insert_after run of `run` keys, and a remove on each side
fn systematic(out: &mut Out, n: u64, run: u64) {
    for gap in 0..=n {
        for variant in 0..4 {
            let mut prog = vec!["cfg u64 512 65536 0".to_string(), "begin".into()];
            for j in 0..n {
                prog.push(format!("insert {} p{}x{}", hex(&((j + 1) * 1000).to_le_bytes()), 40 + (j * 37) % 120, j));
            }
            prog.push("commit".into());
            prog.push("begin".into());
            // the gap before entry `gap` (1-based keys (gap)*1000 .. (gap+1)*1000)
            let b = if gap == n { "u".to_string() } else { format!("i{}", hex(&((gap + 1) * 1000).to_le_bytes())) };
            prog.push(format!("open {} {b}", if gap == n { "upper" } else { "lower" }));
            let base = gap * 1000;
            match variant {
                0 => {
                    for j in 0..run {
                        prog.push(format!("insb {} p{}x{}", hex(&(base + 1 + j).to_le_bytes()), 30 + (j * 53) % 200, j));
                    }
                    prog.push(format!("insb {} 00", hex(&(base + run).to_le_bytes()))); // equal to the last insert: rejected
                    prog.push("peekprev".into());
                    prog.push("peeknext".into());
                }
                1 => {
                    for j in 0..run {
                        prog.push(format!("insa {} p{}x{}", hex(&(base + 999 - j).to_le_bytes()), 30 + (j * 53) % 200, j));
                    }
                    prog.push(format!("insa {} 00", hex(&(base + 1000 - run).to_le_bytes()))); // equal to the last insert: rejected
                    prog.push("peeknext".into());
                    prog.push("peekprev".into());
                }
                2 => {
                    prog.push("rmnext".into());
                    prog.push("peekprev".into());
                    prog.push("peeknext".into());
                    prog.push(format!("insb {} 01", hex(&(base + 1000).to_le_bytes()))); // the removed key fits again
                }
                _ => {
                    prog.push("rmprev".into());
                    prog.push("peekprev".into());
                    prog.push("peeknext".into());
                    prog.push(format!("insa {} 01", hex(&base.to_le_bytes())));
                }
            }
            prog.push((if (gap + variant) % 3 == 0 { "drop" } else { "close" }).into());
            prog.push("scan".into());
            prog.push("commit".into());
            prog.push("dump".into());
            out.begin_case("systematic u64 512");
            let ok = run_program::<FamU64>(&prog, out);
            out.end_case(ok);
            out.count("systematic_programs");
        }
    }
}

pub fn run(args: &Args) {
    let mut out = Out::new(&args.out);
    std::panic::set_hook(Box::new(|info| {
        if let (Some(l), Ok(mut g)) = (info.location(), PANIC_LOC.lock()) {
            *g = format!("{}:{}", l.file(), l.line());
        }
    }));
    if let Some(path) = &args.replay {
        let text = std::fs::read_to_string(path).expect("read replay");
        let prog: Vec<String> = text.lines().map(str::trim).filter(|l| l.starts_with("cur ")).map(|l| l[4..].split(" => ").next().unwrap().to_string()).collect();
        let fam = prog.first().and_then(|l| l.split(' ').nth(1)).unwrap_or("bytes").to_string();
        out.begin_case(&format!("replay {fam}"));
        let ok = match fam.as_str() {
            "u64" => run_program::<FamU64>(&prog, &mut out),
            "str" => run_program::<FamStr>(&prog, &mut out),
            _ => run_program::<FamBytes>(&prog, &mut out),
        };
        out.end_case(ok);
        out.finish(&args.summary, &[]);
        return;
    }
    let mut rng = Rng::new(args.seed);
    out.comment(&format!("C18 cursor seed={} thorough={}", args.seed, args.thorough));
    if args.thorough {
        systematic(&mut out, 12, 40);
    } else {
        systematic(&mut out, 6, 25);
    }
    let programs = if args.thorough { 4000 } else { 300 };
    for n in 0..programs {
        let mut r = rng.fork();
        // a few programs carry one run above the 1 MiB flush threshold of the insert buffer
        // (Some(true): ascending insert_before run, Some(false): descending insert_after run)
        let m = if args.thorough { n % 250 } else { n };
        let big = match m {
            7 => Some(true),
            8 => Some(false),
            _ => None,
        };
        match n % 3 {
            0 => {
                let p = gen_program::<FamU64>(&mut r, args.thorough, big);
                out.begin_case("random u64");
                let ok = run_program::<FamU64>(&p, &mut out);
                out.end_case(ok);
            }
            1 => {
                let p = gen_program::<FamBytes>(&mut r, args.thorough, big);
                out.begin_case("random bytes");
                let ok = run_program::<FamBytes>(&p, &mut out);
                out.end_case(ok);
            }
            _ => {
                let p = gen_program::<FamStr>(&mut r, args.thorough, big);
                out.begin_case("random str");
                let ok = run_program::<FamStr>(&p, &mut out);
                out.end_case(ok);
            }
        }
        out.count("random_programs");
    }
    out.finish(&args.summary, &[]);
}
