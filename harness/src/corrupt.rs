//! C12: check_integrity never certifies a damaged database. Images of cleanly closed databases
//! (whose whole commit history is recorded) are altered - every header byte, sampled bytes and
//! bits of every non-empty page, runs of bytes inside a page, swapped pages - and each altered
//! file is opened, check_integrity'd and read back. `Ok(true)` or `Ok(false)` is acceptable only
//! if the contents then served are exactly those of one recorded commit point; after `Ok(false)`
//! a second check must return `Ok(true)`. A panic is neither a certificate nor a report: it is
//! counted separately. Accepted images are also given to the Lean recovery model (`img recover`).
use crate::backend::MemBackend;
use crate::history::{gen_history, read_all, Model, Step, World};
use crate::out::Out;
use crate::rng::Rng;
use crate::table::{open_db, Cfg};
use crate::Args;
use redb::ReadableDatabase;
use std::panic::{catch_unwind, AssertUnwindSafe};
use std::sync::atomic::Ordering;
use std::sync::{Arc, Mutex};

#[derive(Clone, Debug)]
enum Alter {
    Xor(usize, u8),
    Add(usize, u8),
    Run(usize, usize, u8),
    Swap(usize, usize, usize),
}

fn apply(img: &mut [u8], a: &Alter) {
    match a {
        Alter::Xor(p, m) => img[*p] ^= m,
        Alter::Add(p, d) => img[*p] = img[*p].wrapping_add(*d),
        Alter::Run(p, n, seed) => {
            for i in 0..*n {
                if p + i < img.len() {
                    img[p + i] = img[p + i].wrapping_mul(31).wrapping_add(*seed).wrapping_add(i as u8) | 1;
                }
            }
        }
        Alter::Swap(a, b, n) => {
            for i in 0..*n {
                img.swap(a + i, b + i);
            }
        }
    }
}

#[derive(Debug)]
enum Verdict {
    OpenErr,
    CheckErr,
    Repaired(Model, bool),
    Clean(Model),
    Panic(String),
    ReadErr(String),
    /// the tables are those of a commit point, but the persistent savepoints are not: (what is wrong)
    SavepointsDamaged(bool, String),
}

/// persistent savepoints after a check that did not fail: the listed ids must be those recorded
/// with the served commit point, and restoring each must give back the contents it captured
fn savepoints_intact(db: &redb::Database, served: &Model, points: &[(Model, std::collections::BTreeMap<u64, Model>)]) -> Result<(), String> {
    let listed: std::collections::BTreeSet<u64> = {
        let txn = db.begin_write().map_err(|e| format!("{e:?}"))?;
        let l = txn.list_persistent_savepoints().map_err(|e| format!("listing persistent savepoints: {e:?}"))?.collect();
        txn.abort().map_err(|e| format!("{e:?}"))?;
        l
    };
    // only the most recent commit points can be what a commit slot of the file holds; an older
    // point with the same tables (e.g. the initial empty database) is no excuse for a savepoint
    // that has disappeared
    let recent = &points[points.len().saturating_sub(3)..];
    let candidates: Vec<&std::collections::BTreeMap<u64, Model>> = recent.iter().filter(|(m, _)| m == served).map(|(_, p)| p).collect();
    if candidates.is_empty() {
        return Ok(());
    }
    let Some(expect) = candidates.iter().find(|p| p.keys().copied().collect::<std::collections::BTreeSet<u64>>() == listed) else {
        return Err(format!("persistent savepoints listed {listed:?}, recorded with these contents {:?}", candidates.iter().map(|p| p.keys().copied().collect::<Vec<_>>()).collect::<Vec<_>>()));
    };
    // restore the newest first is not possible without invalidating others: each restore runs in
    // its own transaction that is aborted after reading through it is impossible, so only the
    // oldest savepoint is restored and committed (it invalidates nothing older)
    if let Some((id, want)) = expect.iter().next() {
        let mut txn = db.begin_write().map_err(|e| format!("{e:?}"))?;
        let sp = txn.get_persistent_savepoint(*id).map_err(|e| format!("get_persistent_savepoint({id}): {e:?}"))?;
        txn.restore_savepoint(&sp).map_err(|e| format!("restore_savepoint({id}): {e:?}"))?;
        txn.commit().map_err(|e| format!("commit of the restore of savepoint {id}: {e:?}"))?;
        let got = db.begin_read().map_err(|e| format!("{e:?}")).and_then(|rt| read_all(&rt)).map_err(|e| format!("SNAPSHOT reading after restoring savepoint {id} fails: {e}"))?;
        if got != *want {
            return Err(format!("SNAPSHOT restoring persistent savepoint {id} gives {} instead of the {} it captured", got.digest(), want.digest()));
        }
    }
    Ok(())
}

fn judge(img: Vec<u8>, cfg: &Cfg, points: &[(Model, std::collections::BTreeMap<u64, Model>)]) -> Verdict {
    let r = catch_unwind(AssertUnwindSafe(|| {
        let backend = MemBackend::new(Arc::new(Mutex::new(img)));
        let mut db = match open_db(backend, cfg) {
            Ok(db) => db,
            Err(_) => return Verdict::OpenErr,
        };
        match db.check_integrity() {
            Err(_) => Verdict::CheckErr,
            Ok(clean) => {
                let m = match db.begin_read().map_err(|e| format!("{e:?}")).and_then(|rt| read_all(&rt)) {
                    Ok(m) => m,
                    Err(e) => return Verdict::ReadErr(e),
                };
                let second = if clean { true } else { matches!(db.check_integrity(), Ok(true)) };
                if points.iter().any(|(p, _)| *p == m) {
                    if let Err(what) = savepoints_intact(&db, &m, points) {
                        return Verdict::SavepointsDamaged(clean, what);
                    }
                }
                if clean {
                    Verdict::Clean(m)
                } else {
                    Verdict::Repaired(m, second)
                }
            }
        }
    }));
    match r {
        Ok(v) => v,
        Err(p) => Verdict::Panic(p.downcast_ref::<String>().cloned().or_else(|| p.downcast_ref::<&str>().map(|s| s.to_string())).unwrap_or_default().lines().next().unwrap_or("").chars().take(120).collect()),
    }
}

pub fn run(args: &Args) {
    // panics of the code under test are expected here; keep the log readable
    std::panic::set_hook(Box::new(|_| {}));
    let mut out = Out::new(&args.out);
    let mut rng = Rng::new(args.seed ^ 0xC12);
    out.comment(&format!("C12 corrupt seed={} thorough={}", args.seed, args.thorough));
    let bases = if args.thorough { 10 } else { 3 };
    for base_index in 0..bases {
        let mut r = rng.fork();
        let page = 512usize;
        let cfg = Cfg { page, region: 65536, cache: 1 << 20 };
        // base history with all commit points recorded
        let mut scratch = Out::new("/dev/null");
        let mut w = World::new(Cfg { page, region: cfg.region, cache: cfg.cache }, "c12");
        let mut steps = gen_history(&mut r, "c12", false, page);
        steps.retain(|s| !matches!(s, Step::CrashReopen | Step::Compact));
        steps.truncate(12);
        let psp_of = |w: &World| -> std::collections::BTreeMap<u64, Model> { w.psp.iter().map(|(id, p)| (*id, p.expect.clone())).collect() };
        let mut points: Vec<(Model, std::collections::BTreeMap<u64, Model>)> = vec![(Model::default(), Default::default())];
        for s in &steps {
            if !w.run_step(s, &mut scratch) {
                break;
            }
            let now = (w.committed.clone(), psp_of(&w));
            if points.last() != Some(&now) {
                points.push(now);
            }
        }
        // every second base keeps a persistent savepoint; every third one ends without any user
        // table (only the savepoint's snapshot and the system tables are left to verify)
        if base_index % 2 == 1 || base_index % 3 == 2 {
            use crate::history::{End, SpOp, TxnSpec};
            let sp = Step::Txn(TxnSpec { durability: redb::Durability::Immediate, two_phase: false, quick_repair: false, sp_ops: vec![SpOp::Persistent], ops: crate::history::gen_ops(&mut r, page, 3), end: End::Commit });
            let _ = w.run_step(&sp, &mut scratch);
            points.push((w.committed.clone(), psp_of(&w)));
        }
        let tableless = base_index % 3 == 2;
        if tableless {
            // no user table at all is left (the data tree of the served commit is empty): only the
            // system tables and the snapshot of the savepoint remain to be verified
            let txn = w.db.as_ref().unwrap().begin_write().expect("begin_write");
            for i in 0..2 {
                let _ = txn.delete_table(crate::history::tdef(i));
            }
            let _ = txn.delete_multimap_table(redb::MultimapTableDefinition::<u64, u64>::new("m0"));
            let _ = txn.delete_multimap_table(redb::MultimapTableDefinition::<u64, &[u8]>::new("m1"));
            txn.commit().expect("commit");
            w.committed = Model::default();
            points.push((w.committed.clone(), psp_of(&w)));
        }
        // empty tables whose names sort before, between and after the data tables: every table of
        // the catalog has to be verified whatever its neighbours are
        if !tableless {
            let txn = w.db.as_ref().unwrap().begin_write().expect("begin_write");
            for name in ["a-empty", "n-empty", "zz-empty"] {
                let def: redb::TableDefinition<u64, &[u8]> = redb::TableDefinition::new(name);
                txn.open_table(def).expect("open empty table");
            }
            txn.commit().expect("commit empty tables");
        }
        // the pages of the served commit's system tree (damage there is what check_integrity() does
        // verify; damage in pages that only a savepoint's snapshot reaches is known finding F9)
        let sys_pages: std::collections::BTreeSet<u64> = {
            let snap = w.db.as_ref().unwrap().verif_snapshot();
            w.db.as_ref().unwrap().verif_tree_pages(snap.mem.latest_system_root).map(|p| crate::history::expand_pages(&p, snap.mem.region_max_pages).into_iter().collect()).unwrap_or_default()
        };
        let last = w.committed.clone();
        let data = w.backend.data.clone();
        w.readers.clear();
        w.sps.clear();
        w.db = None;
        drop(w);
        let image = data.lock().unwrap().clone();
        out.begin_case(&format!("corrupt base page={page} len={} commit-points={}", image.len(), points.len()));
        for f in &scratch.oracle_failures {
            out.oracle_fail(format!("corrupt-base|{f}"));
        }
        // the unaltered image must be certified with the last contents
        match judge(image.clone(), &cfg, &points) {
            Verdict::Clean(m) if m == last => {}
            other => out.oracle_fail(format!("corrupt-base|the unaltered image is not certified clean with the last contents: {other:?}")),
        }
        // interesting positions: the header and every non-empty 512-byte chunk
        let chunks: Vec<usize> = (0..image.len() / page).filter(|c| image[c * page..(c + 1) * page].iter().any(|b| *b != 0)).collect();
        let mut alts: Vec<Alter> = vec![];
        for p in 0..320 {
            alts.push(Alter::Xor(p, 0xff));
            if args.thorough || p < 64 {
                alts.push(Alter::Add(p, 1));
            }
        }
        for bit in 0..8 {
            alts.push(Alter::Xor(9, 1 << bit));
        }
        for p in 12..32 {
            for bit in [0u8, 3, 7] {
                alts.push(Alter::Xor(p, 1 << bit));
            }
        }
        let per_chunk = if args.thorough { 60 } else { 10 };
        for c in &chunks {
            if *c == 0 {
                continue;
            }
            // the used prefix of a page is where the checksummed bytes are
            let used = (0..page).rev().find(|i| image[c * page + i] != 0).unwrap_or(0) + 1;
            for _ in 0..per_chunk {
                let off = if r.chance(4, 5) { r.below(used as u64) as usize } else { r.below(page as u64) as usize };
                alts.push(if r.chance(1, 2) { Alter::Xor(c * page + off, 0xff) } else { Alter::Add(c * page + off, 1) });
            }
            alts.push(Alter::Xor(c * page, 0xff));
            alts.push(Alter::Xor(c * page + 2, 1));
            alts.push(Alter::Run(c * page + r.below((page - 64) as u64) as usize, r.range(2, 64) as usize, r.below(255) as u8));
        }
        for _ in 0..(if args.thorough { 300 } else { 40 }) {
            let a = *r.pick(&chunks);
            let b = *r.pick(&chunks);
            if a != b && a != 0 && b != 0 {
                alts.push(Alter::Swap(a * page, b * page, page));
            }
        }
        out.line(&format!("corrupt base chunks={} alterations={}", chunks.len(), alts.len()));
        let results: Mutex<Vec<(usize, Verdict)>> = Mutex::new(vec![]);
        let next = std::sync::atomic::AtomicUsize::new(0);
        std::thread::scope(|s| {
            for _ in 0..16 {
                s.spawn(|| loop {
                    let i = next.fetch_add(1, Ordering::SeqCst);
                    if i >= alts.len() {
                        break;
                    }
                    let mut img = image.clone();
                    apply(&mut img, &alts[i]);
                    let v = if img == image { Verdict::Clean(last.clone()) } else { judge(img, &cfg, &points) };
                    results.lock().unwrap().push((i, v));
                });
            }
        });
        let mut results = results.into_inner().unwrap();
        results.sort_by_key(|x| x.0);
        for (i, v) in results {
            out.count("alterations");
            out.count("evaluations");
            let a = &alts[i];
            let is_point = |m: &Model| points.iter().any(|p| p.0 == *m);
            match v {
                Verdict::OpenErr => out.count("verdict_open_error"),
                Verdict::CheckErr => out.count("verdict_check_error"),
                Verdict::ReadErr(e) => {
                    out.count("verdict_read_error_after_ok");
                    // an error while reading after a certificate: the certificate was wrong
                    out.oracle_fail(format!("certified-but-unreadable|alteration {a:?}: check_integrity() returned Ok but reading the tables fails: {e}"));
                }
                Verdict::SavepointsDamaged(clean, what) => {
                    out.count("verdict_savepoints_damaged");
                    // damage in the snapshot a savepoint pins (known finding F9) is told apart from
                    // damage in the system tables that list the savepoints
                    let off = match a {
                        Alter::Xor(p, _) | Alter::Add(p, _) | Alter::Run(p, _, _) => *p,
                        Alter::Swap(x, _, _) => *x,
                    };
                    let in_system_tree = off >= page && sys_pages.contains(&((off / page - 1) as u64));
                    let (sig, what) = match what.strip_prefix("SNAPSHOT ") {
                        _ if in_system_tree => ("certified-damaged-system-tree", what.trim_start_matches("SNAPSHOT ").to_string()),
                        Some(w) => ("certified-damaged-savepoint", w.to_string()),
                        None => ("certified-damaged-savepoint-table", what),
                    };
                    out.oracle_fail(format!("{sig}|alteration {a:?}: check_integrity() returned Ok({clean}) and the tables are those of a commit point, but {what}"));
                }
                Verdict::Panic(msg) => {
                    out.count("verdict_panic_not_certified");
                    if out.notes.len() < 3 {
                        out.notes.push(format!("panic (counted as not certified): {a:?}: {msg}"));
                    }
                }
                Verdict::Clean(m) => {
                    out.count(if m == last { "verdict_clean_same_contents" } else { "verdict_clean_other_commit_point" });
                    if !is_point(&m) {
                        out.oracle_fail(format!("certified-damaged|alteration {a:?}: check_integrity() returned Ok(true) but the contents {} are those of no commit point (last {})", m.digest(), last.digest()));
                    } else if i % 9 == 0 {
                        let mut img = image.clone();
                        apply(&mut img, a);
                        let path = crate::image::save("corrupt", &img);
                        let empty: Vec<(Vec<u8>, Vec<u8>)> = vec![];
                        let eh = crate::table::dump_hash(&empty);
                        if tableless {
                            out.line(&format!("img recover {path} {page} {}", m.tablespecs()));
                        } else {
                            out.line(&format!("img recover {path} {page} {} a-empty:normal:u64:bytes:0:{eh:016x} n-empty:normal:u64:bytes:0:{eh:016x} zz-empty:normal:u64:bytes:0:{eh:016x}", m.tablespecs()));
                        }
                    }
                }
                Verdict::Repaired(m, second) => {
                    out.count("verdict_repaired");
                    if !is_point(&m) {
                        out.oracle_fail(format!("repaired-to-nothing|alteration {a:?}: check_integrity() returned Ok(false) and the contents {} are those of no commit point", m.digest()));
                    }
                    if !second {
                        out.oracle_fail(format!("repair-not-stable|alteration {a:?}: after Ok(false) a second check_integrity() did not return Ok(true)"));
                    }
                }
            }
        }
        out.end_case(true);
    }
    out.finish(&args.summary, &[]);
}
