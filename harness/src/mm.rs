//! C09: a multimap table behaves as a sorted map from keys to sorted sets of values.
//! Same scheme as `table.rs`: generated programs on the real `MultimapTable`, answers written
//! for the Lean spec, and a nested sorted-vector oracle ordered by the implementation's own
//! `compare` functions.
use crate::backend::MemBackend;
use crate::out::{hex, unhex, Out};
use crate::rng::Rng;
use crate::table::{err_tag, expand, fnv64, open_db, repr, Cfg, Fam, FamBytes, FamStr, FamU64};
use crate::Args;
use redb::{Database, Key, MultimapTableDefinition, ReadableDatabase, ReadableMultimapTable, ReadableTableMetadata, Value};
use std::cmp::Ordering;
use std::ops::Bound;
use std::panic::{catch_unwind, AssertUnwindSafe};

type Set = Vec<Vec<u8>>;

#[derive(Clone, Default)]
struct Shadow {
    cur: Vec<(Vec<u8>, Set)>,
    committed: Vec<(Vec<u8>, Set)>,
}

/// value number `n` of width `vlen` (big-endian counter, zero padded: byte order = numeric order);
/// for u64 values the little-endian encoding of n
fn nth_value<VF: Fam>(n: u64, vlen: usize) -> Vec<u8> {
    if VF::DESC == "u64" {
        n.to_le_bytes().to_vec()
    } else {
        let mut v = n.to_be_bytes().to_vec();
        if vlen > 8 {
            v.resize(vlen, 0x2e);
        }
        v
    }
}

fn set_hash(s: &Set) -> u64 {
    let mut h: u64 = 0;
    for v in s {
        h = h.rotate_left(5) ^ fnv64(&[v]);
    }
    h
}

fn set_repr(s: &Set) -> String {
    if s.len() <= 4 {
        format!("({})", s.iter().map(|v| repr(v)).collect::<Vec<_>>().join("|"))
    } else {
        format!("#{}:{:016x}", s.len(), set_hash(s))
    }
}

fn parse_bound(t: &str) -> Bound<Vec<u8>> {
    match &t[..1] {
        "u" => Bound::Unbounded,
        "i" => Bound::Included(unhex(&t[1..])),
        _ => Bound::Excluded(unhex(&t[1..])),
    }
}

fn in_range<KF: Fam>(lo: &Bound<Vec<u8>>, hi: &Bound<Vec<u8>>, k: &[u8]) -> bool {
    (match lo {
        Bound::Unbounded => true,
        Bound::Included(b) => KF::K::compare(k, b) != Ordering::Less,
        Bound::Excluded(b) => KF::K::compare(k, b) == Ordering::Greater,
    }) && (match hi {
        Bound::Unbounded => true,
        Bound::Included(b) => KF::K::compare(k, b) != Ordering::Greater,
        Bound::Excluded(b) => KF::K::compare(k, b) == Ordering::Less,
    })
}

fn take_mode<T: Clone>(l: &[T], mode: &str, limit: usize) -> Vec<T> {
    let mut d: std::collections::VecDeque<T> = l.iter().cloned().collect();
    let mut outv = vec![];
    let mut front = mode != "rev";
    while outv.len() < limit {
        let x = if front { d.pop_front() } else { d.pop_back() };
        match x {
            Some(x) => outv.push(x),
            None => break,
        }
        if mode == "alt" {
            front = !front;
        }
    }
    outv
}

impl Shadow {
    fn kpos<KF: Fam>(&self, k: &[u8]) -> Result<usize, usize> {
        self.cur.binary_search_by(|e| KF::K::compare(&e.0, k))
    }
    fn insert<KF: Fam, VF: Fam>(&mut self, k: &[u8], v: &[u8]) -> bool {
        match self.kpos::<KF>(k) {
            Ok(i) => match self.cur[i].1.binary_search_by(|e| VF::K::compare(e, v)) {
                Ok(_) => true,
                Err(j) => {
                    self.cur[i].1.insert(j, v.to_vec());
                    false
                }
            },
            Err(i) => {
                self.cur.insert(i, (k.to_vec(), vec![v.to_vec()]));
                false
            }
        }
    }
    fn remove<KF: Fam, VF: Fam>(&mut self, k: &[u8], v: &[u8]) -> bool {
        match self.kpos::<KF>(k) {
            Ok(i) => match self.cur[i].1.binary_search_by(|e| VF::K::compare(e, v)) {
                Ok(j) => {
                    self.cur[i].1.remove(j);
                    if self.cur[i].1.is_empty() {
                        self.cur.remove(i);
                    }
                    true
                }
                Err(_) => false,
            },
            Err(_) => false,
        }
    }
    fn total(&self) -> usize {
        self.cur.iter().map(|e| e.1.len()).sum()
    }
    fn apply<KF: Fam, VF: Fam>(&mut self, req: &[&str]) -> String {
        match req {
            ["insert", k, v] => u8::from(self.insert::<KF, VF>(&expand(k), &expand(v))).to_string(),
            ["insertn", k, start, count, vlen] => {
                let k = expand(k);
                let (start, count, vlen): (u64, u64, usize) = (start.parse().unwrap(), count.parse().unwrap(), vlen.parse().unwrap());
                let mut existed = 0;
                for n in start..start + count {
                    existed += u64::from(self.insert::<KF, VF>(&k, &nth_value::<VF>(n, vlen)));
                }
                existed.to_string()
            }
            ["remove", k, v] => u8::from(self.remove::<KF, VF>(&expand(k), &expand(v))).to_string(),
            ["removen", k, start, count, vlen] => {
                let k = expand(k);
                let (start, count, vlen): (u64, u64, usize) = (start.parse().unwrap(), count.parse().unwrap(), vlen.parse().unwrap());
                let mut existed = 0;
                for n in start..start + count {
                    existed += u64::from(self.remove::<KF, VF>(&k, &nth_value::<VF>(n, vlen)));
                }
                existed.to_string()
            }
            ["removeall", k] => match self.kpos::<KF>(&expand(k)) {
                Ok(i) => set_repr(&self.cur.remove(i).1),
                Err(_) => set_repr(&vec![]),
            },
            ["get", k, mode, limit] => {
                let s = self.kpos::<KF>(&expand(k)).map(|i| self.cur[i].1.clone()).unwrap_or_default();
                format!("{} {}", s.len(), set_repr(&take_mode(&s, mode, limit.parse().unwrap())))
            }
            ["range", lo, hi, mode, limit] => {
                let (lo, hi) = (parse_bound(lo), parse_bound(hi));
                let sel: Vec<_> = self.cur.iter().filter(|e| in_range::<KF>(&lo, &hi, &e.0)).cloned().collect();
                let got = take_mode(&sel, mode, limit.parse().unwrap());
                if got.is_empty() {
                    "-".into()
                } else {
                    got.iter().map(|(k, s)| format!("{}={}", repr(k), set_repr(s))).collect::<Vec<_>>().join(",")
                }
            }
            ["len"] => self.total().to_string(),
            ["dump"] => format!("{} {} {:016x}", self.cur.len(), self.total(), dump_hash(&self.cur)),
            _ => panic!("mm shadow: unknown {req:?}"),
        }
    }
}

pub fn dump_hash(m: &[(Vec<u8>, Set)]) -> u64 {
    let mut h: u64 = 0;
    for (k, s) in m {
        h = h.rotate_left(7) ^ fnv64(&[k]) ^ set_hash(s).rotate_left(13);
    }
    h
}

fn vbytes<VF: Fam>(v: <VF::K as Value>::SelfType<'_>) -> Vec<u8> {
    let b = <VF::K as Value>::as_bytes(&v);
    AsRef::<[u8]>::as_ref(&b).to_vec()
}

type Mm<'t, KF, VF> = redb::MultimapTable<'t, <KF as Fam>::K, <VF as Fam>::K>;

fn collect_values<VF: Fam>(mut it: redb::MultimapValue<'_, VF::K>, mode: &str, limit: usize) -> Result<Set, String> {
    let mut outv = vec![];
    let mut front = mode != "rev";
    while outv.len() < limit {
        let x = if front { it.next() } else { it.next_back() };
        match x {
            Some(Ok(g)) => outv.push(vbytes::<VF>(g.value())),
            Some(Err(e)) => return Err(err_tag(e)),
            None => break,
        }
        if mode == "alt" {
            front = !front;
        }
    }
    Ok(outv)
}

fn exec_op<KF: Fam, VF: Fam>(t: &mut Mm<'_, KF, VF>, req: &[&str]) -> String {
    match req {
        ["insert", k, v] => {
            let (k, v) = (expand(k), expand(v));
            match t.insert(KF::key(&k), VF::key(&v)) {
                Ok(b) => u8::from(b).to_string(),
                Err(e) => err_tag(e),
            }
        }
        ["insertn", k, start, count, vlen] | ["removen", k, start, count, vlen] => {
            let k = expand(k);
            let (start, count, vlen): (u64, u64, usize) = (start.parse().unwrap(), count.parse().unwrap(), vlen.parse().unwrap());
            let mut existed = 0u64;
            for n in start..start + count {
                let v = nth_value::<VF>(n, vlen);
                let r = if req[0] == "insertn" { t.insert(KF::key(&k), VF::key(&v)) } else { t.remove(KF::key(&k), VF::key(&v)) };
                match r {
                    Ok(b) => existed += u64::from(b),
                    Err(e) => return err_tag(e),
                }
            }
            existed.to_string()
        }
        ["remove", k, v] => {
            let (k, v) = (expand(k), expand(v));
            match t.remove(KF::key(&k), VF::key(&v)) {
                Ok(b) => u8::from(b).to_string(),
                Err(e) => err_tag(e),
            }
        }
        ["removeall", k] => {
            let k = expand(k);
            match t.remove_all(KF::key(&k)) {
                Ok(it) => match collect_values::<VF>(it, "fwd", usize::MAX) {
                    Ok(s) => set_repr(&s),
                    Err(e) => e,
                },
                Err(e) => err_tag(e),
            }
        }
        ["get", k, mode, limit] => {
            let k = expand(k);
            match t.get(KF::key(&k)) {
                Ok(it) => {
                    let n = it.len();
                    match collect_values::<VF>(it, mode, limit.parse().unwrap()) {
                        Ok(s) => format!("{n} {}", set_repr(&s)),
                        Err(e) => e,
                    }
                }
                Err(e) => err_tag(e),
            }
        }
        ["range", lo, hi, mode, limit] => {
            let (lo, hi) = (parse_bound(lo), parse_bound(hi));
            let bounds = crate::table::to_bounds::<KF>(&lo, &hi);
            match t.range::<<KF::K as Value>::SelfType<'_>>(bounds) {
                Ok(mut it) => {
                    let limit: usize = limit.parse().unwrap();
                    let mut parts = vec![];
                    let mut front = *mode != "rev";
                    while parts.len() < limit {
                        let x = if front { it.next() } else { it.next_back() };
                        match x {
                            Some(Ok((k, vals))) => {
                                let kb = vbytes::<KF>(k.value());
                                let declared = vals.len();
                                match collect_values::<VF>(vals, "fwd", usize::MAX) {
                                    Ok(s) => {
                                        if declared as usize != s.len() {
                                            return format!("err:MultimapValueLen{declared}vs{}", s.len());
                                        }
                                        parts.push(format!("{}={}", repr(&kb), set_repr(&s)))
                                    }
                                    Err(e) => return e,
                                }
                            }
                            Some(Err(e)) => return err_tag(e),
                            None => break,
                        }
                        if *mode == "alt" {
                            front = !front;
                        }
                    }
                    if parts.is_empty() { "-".into() } else { parts.join(",") }
                }
                Err(e) => err_tag(e),
            }
        }
        ["len"] => match t.len() {
            Ok(n) => n.to_string(),
            Err(e) => err_tag(e),
        },
        _ => panic!("mm exec: unknown {req:?}"),
    }
}

fn emit_image<KF: Fam, VF: Fam>(out: &mut Out, backend: &MemBackend, cfg: &Cfg, shadow: &Shadow, when: &str) {
    let path = crate::image::save("mm", &backend.snapshot());
    out.count("images");
    let total: usize = shadow.committed.iter().map(|e| e.1.len()).sum();
    out.line(&format!(
        "img check {path} {} {when} m:multimap:{}:{}:{}:{}:{:016x}",
        cfg.page,
        KF::DESC,
        VF::DESC,
        shadow.committed.len(),
        total,
        dump_hash(&shadow.committed)
    ));
}

fn run_program<KF: Fam, VF: Fam>(prog: &[String], out: &mut Out) -> bool {
    let def: MultimapTableDefinition<KF::K, VF::K> = MultimapTableDefinition::new("m");
    let mut shadow = Shadow::default();
    let mut cfg = Cfg { page: 4096, region: 0, cache: 1 << 20 };
    let mut backend = MemBackend::fresh();
    let mut db: Option<Database> = None;
    let mut i = 0;
    let res = catch_unwind(AssertUnwindSafe(|| {
        while i < prog.len() {
            let toks: Vec<&str> = prog[i].split(' ').collect();
            match toks.as_slice() {
                ["cfg", kt, vt, page, region, cache] => {
                    assert_eq!((*kt, *vt), (KF::DESC, VF::DESC));
                    cfg = Cfg { page: page.parse().unwrap(), region: region.parse().unwrap(), cache: cache.parse().unwrap() };
                    db = None;
                    backend = MemBackend::fresh();
                    db = Some(open_db(backend.clone(), &cfg).expect("create database"));
                    shadow = Shadow::default();
                    out.line(&format!("mm {}", prog[i]));
                    i += 1;
                }
                ["reopen"] => {
                    db = None;
                    backend = MemBackend::new(backend.data.clone());
                    db = Some(open_db(backend.clone(), &cfg).expect("reopen database"));
                    out.line("mm reopen");
                    i += 1;
                }
                ["begin"] => {
                    out.line("mm begin");
                    i += 1;
                    let txn = db.as_ref().unwrap().begin_write().expect("begin_write");
                    {
                        let mut t = txn.open_multimap_table(def).expect("open_multimap_table");
                        while i < prog.len() && prog[i] != "commit" && prog[i] != "abort" {
                            // now and then the handle is dropped and the table opened again inside
                            // the transaction: nothing observable may depend on which handle is used
                            if fnv64(&[prog[i].as_bytes(), &i.to_le_bytes(), b"handle"]) % 6 == 0 {
                                drop(t);
                                t = txn.open_multimap_table(def).expect("open_multimap_table again");
                                out.count("handle_reopened_in_txn");
                            }
                            let toks: Vec<&str> = prog[i].split(' ').collect();
                            out.count(&format!("op_{}", toks[0]));
                            let got = exec_op::<KF, VF>(&mut t, &toks);
                            let want = shadow.apply::<KF, VF>(&toks);
                            if got != want {
                                out.oracle_fail(format!("mm-op|{}/{} {}: implementation answered {got}, oracle {want}", KF::DESC, VF::DESC, prog[i]));
                            }
                            out.line(&format!("mm {} => {got}", prog[i]));
                            i += 1;
                        }
                    }
                    if i < prog.len() && prog[i] == "commit" {
                        txn.commit().expect("commit");
                        shadow.committed = shadow.cur.clone();
                        out.line("mm commit");
                        if fnv64(&[prog[i - 1].as_bytes(), &i.to_le_bytes()]) % 3 == 0 {
                            emit_image::<KF, VF>(out, &backend, &cfg, &shadow, "commit");
                        }
                    } else {
                        txn.abort().expect("abort");
                        shadow.cur = shadow.committed.clone();
                        out.line("mm abort");
                    }
                    i += 1;
                }
                ["dump"] => {
                    let rt = db.as_ref().unwrap().begin_read().expect("begin_read");
                    let got = match rt.open_multimap_table(def) {
                        Ok(t) => {
                            let mut all: Vec<(Vec<u8>, Set)> = vec![];
                            for e in t.iter().unwrap() {
                                let (k, vals) = e.unwrap();
                                let kb = vbytes::<KF>(k.value());
                                let s = collect_values::<VF>(vals, "fwd", usize::MAX).unwrap();
                                for w in s.windows(2) {
                                    if VF::K::compare(&w[0], &w[1]) != Ordering::Less {
                                        out.oracle_fail(format!("mm-order|values of key {} not strictly increasing", repr(&kb)));
                                    }
                                }
                                if s.is_empty() {
                                    out.oracle_fail(format!("mm-empty-key|key {} present with no values", repr(&kb)));
                                }
                                all.push((kb, s));
                            }
                            let total: usize = all.iter().map(|e| e.1.len()).sum();
                            let n = t.len().unwrap();
                            if n as usize != total {
                                out.oracle_fail(format!("mm-len|len() = {n} but iteration yields {total} pairs"));
                            }
                            format!("{} {} {:016x}", all.len(), total, dump_hash(&all))
                        }
                        Err(redb::TableError::TableDoesNotExist(_)) => format!("0 0 {:016x}", 0),
                        Err(e) => err_tag(e),
                    };
                    let want = shadow.apply::<KF, VF>(&["dump"]);
                    if got != want {
                        out.oracle_fail(format!("mm-dump|committed contents {got} differ from the oracle {want}"));
                    }
                    out.line(&format!("mm dump => {got}"));
                    i += 1;
                }
                other => panic!("unknown mm program line {other:?}"),
            }
        }
    }));
    drop(db);
    if res.is_ok() && prog.len() > 1 {
        emit_image::<KF, VF>(out, &backend, &cfg, &shadow, "close");
    }
    if let Err(p) = res {
        let msg = p.downcast_ref::<String>().cloned().or_else(|| p.downcast_ref::<&str>().map(|s| s.to_string())).unwrap_or_default();
        out.oracle_fail(format!("mm-panic|panic at program line {i} ({}): {}", prog.get(i).cloned().unwrap_or_default(), msg.lines().next().unwrap_or("")));
        return false;
    }
    for x in backend.mon.contract_violations.lock().unwrap().iter() {
        out.oracle_fail(format!("backend-contract|{x}"));
    }
    true
}

fn gen_program<KF: Fam, VF: Fam>(rng: &mut Rng, thorough: bool) -> Vec<String> {
    let page = *rng.pick(&[512usize, 512, 1024, 4096]);
    let region: u64 = if rng.chance(1, 2) { 0 } else { (page as u64 * 256).max(65536) };
    let cache = *rng.pick(&[0usize, 1 << 30]);
    let mut prog = vec![format!("cfg {} {} {page} {region} {cache}", KF::DESC, VF::DESC)];
    let mut sh = Shadow::default();
    let nkeys = rng.range(1, 6) as usize;
    let keys: Vec<Vec<u8>> = (0..nkeys).map(|_| KF::gen_key(rng, page)).collect();
    let gen_val = |rng: &mut Rng| -> Vec<u8> {
        if VF::DESC == "u64" {
            return rng.below(40).to_le_bytes().to_vec();
        }
        let len = match rng.below(10) {
            0 => 0,
            1 => page / 2 - 4 + rng.below(9) as usize,
            2 => page / 2 + 20,
            3 => page + 17,
            4 => 8,
            _ => rng.range(1, 40) as usize,
        };
        let mut v = vec![b'v'; len];
        if len > 0 {
            v[len - 1] = rng.below(7) as u8;
        }
        if len > 1 {
            v[0] = b'a' + rng.below(3) as u8;
        }
        v
    };
    let txns = rng.range(1, if thorough { 6 } else { 4 });
    for _ in 0..txns {
        prog.push("begin".into());
        for _ in 0..rng.range(3, if thorough { 60 } else { 30 }) {
            let k = rng.pick(&keys).clone();
            let existing_val = |rng: &mut Rng, sh: &Shadow| -> Option<Vec<u8>> {
                sh.cur.iter().find(|e| e.0 == k).and_then(|e| if e.1.is_empty() { None } else { Some(rng.pick(&e.1).clone()) })
            };
            let line = match rng.below(100) {
                0..=34 => format!("insert {} {}", hex(&k), hex(&gen_val(rng))),
                35..=44 => {
                    let vlen = if VF::DESC == "u64" { 8 } else { *rng.pick(&[8usize, 8, 40, page / 2 - 6]) };
                    let count = *rng.pick(&[3u64, 20, 70, 300, if thorough { 3000 } else { 900 }]);
                    format!("insertn {} {} {count} {vlen}", hex(&k), rng.below(50))
                }
                45..=59 => match existing_val(rng, &sh) {
                    Some(v) if rng.chance(4, 5) => format!("remove {} {}", hex(&k), hex(&v)),
                    _ => format!("remove {} {}", hex(&k), hex(&gen_val(rng))),
                },
                60..=67 => {
                    let vlen = if VF::DESC == "u64" { 8 } else { *rng.pick(&[8usize, 40, page / 2 - 6]) };
                    format!("removen {} {} {} {vlen}", hex(&k), rng.below(50), rng.pick(&[5u64, 60, 290, 1000]))
                }
                68..=72 => format!("removeall {}", hex(&k)),
                73..=84 => format!("get {} {} {}", hex(&k), rng.pick(&["fwd", "rev", "alt"]), rng.pick(&[2usize, 7, 100000])),
                85..=94 => {
                    let b = |rng: &mut Rng| match rng.below(3) {
                        0 => "u".to_string(),
                        1 => format!("i{}", hex(rng.pick::<Vec<u8>>(&keys))),
                        _ => format!("e{}", hex(rng.pick::<Vec<u8>>(&keys))),
                    };
                    let (mut lo, mut hi) = (b(rng), b(rng));
                    if lo != "u" && hi != "u" {
                        let (a, c) = (unhex(&lo[1..]), unhex(&hi[1..]));
                        match KF::K::compare(&a, &c) {
                            Ordering::Greater => std::mem::swap(&mut lo, &mut hi),
                            Ordering::Equal => {
                                lo = format!("i{}", hex(&a));
                                hi = lo.clone();
                            }
                            Ordering::Less => {}
                        }
                    }
                    format!("range {lo} {hi} {} {}", rng.pick(&["fwd", "rev", "alt"]), rng.pick(&[1usize, 2, 100]))
                }
                _ => "len".into(),
            };
            let toks: Vec<&str> = line.split(' ').collect();
            sh.apply::<KF, VF>(&toks);
            prog.push(line);
        }
        if rng.chance(1, 7) {
            prog.push("abort".into());
            sh.cur = sh.committed.clone();
        } else {
            prog.push("commit".into());
            sh.committed = sh.cur.clone();
        }
        if rng.chance(1, 3) {
            prog.push("reopen".into());
        }
        prog.push("dump".into());
    }
    prog
}

pub fn run(args: &Args) {
    let mut out = Out::new(&args.out);
    if let Some(path) = &args.replay {
        let text = std::fs::read_to_string(path).expect("read replay");
        let prog: Vec<String> = text.lines().map(str::trim).filter(|l| l.starts_with("mm ")).map(|l| l[3..].split(" => ").next().unwrap().to_string()).collect();
        let toks: Vec<&str> = prog.first().map(|l| l.split(' ').collect()).unwrap_or_default();
        out.begin_case("replay");
        let ok = match (toks.get(1).copied(), toks.get(2).copied()) {
            (Some("u64"), Some("u64")) => run_program::<FamU64, FamU64>(&prog, &mut out),
            (Some("str"), Some("bytes")) => run_program::<FamStr, FamBytes>(&prog, &mut out),
            _ => run_program::<FamBytes, FamBytes>(&prog, &mut out),
        };
        out.end_case(ok);
        out.finish(&args.summary, &[]);
        return;
    }
    let mut rng = Rng::new(args.seed);
    out.comment(&format!("C09 multimap seed={} thorough={}", args.seed, args.thorough));
    let programs = if args.thorough { 1500 } else { 90 };
    for n in 0..programs {
        let mut r = rng.fork();
        match n % 3 {
            0 => {
                let p = gen_program::<FamBytes, FamBytes>(&mut r, args.thorough);
                out.begin_case("random bytes/bytes");
                let ok = run_program::<FamBytes, FamBytes>(&p, &mut out);
                out.end_case(ok);
            }
            1 => {
                let p = gen_program::<FamU64, FamU64>(&mut r, args.thorough);
                out.begin_case("random u64/u64");
                let ok = run_program::<FamU64, FamU64>(&p, &mut out);
                out.end_case(ok);
            }
            _ => {
                let p = gen_program::<FamStr, FamBytes>(&mut r, args.thorough);
                out.begin_case("random str/bytes");
                let ok = run_program::<FamStr, FamBytes>(&p, &mut out);
                out.end_case(ok);
            }
        }
        out.count("random_programs");
    }
    out.finish(&args.summary, &[]);
}
