//! Histories of whole-database steps (C02, C05, C06, C07, C11, C13): write transactions of every
//! durability / commit strategy with table, multimap and savepoint operations, ending in commit,
//! abort or drop; reader lifetimes; savepoint drops; reopen; compaction; check_integrity.
//! After every step the harness
//!   * evaluates the properties on the implementation alone (S): contents against the recorded
//!     commit points, every live reader / savepoint against the contents captured at its start,
//!     page accounting ("every allocated page has exactly one owner", pins inside the allocated
//!     set) from the read-only snapshot hooks;
//!   * writes the abstract page-ownership state for the Lean life-cycle model (`hist state ...`).
use crate::backend::MemBackend;
use crate::out::Out;
use crate::rng::Rng;
use crate::table::{fnv64, open_db, Cfg};
use crate::Args;
use redb::verif::{VerifRoot, VerifSnapshot};
use redb::{
    Database, Durability, MultimapTableDefinition, ReadTransaction, ReadableDatabase, ReadableMultimapTable, ReadableTable, ReadableTableMetadata,
    Savepoint, TableDefinition, TableError,
};
use std::collections::{BTreeMap, BTreeSet};
use std::panic::{catch_unwind, AssertUnwindSafe};

const T0: TableDefinition<u64, &[u8]> = TableDefinition::new("t0");
const T1: TableDefinition<u64, &[u8]> = TableDefinition::new("t1");
const M0: MultimapTableDefinition<u64, u64> = MultimapTableDefinition::new("m0");
/// a multimap with byte-string values of up to most of a page: value sets that are branches over
/// a few large leaves, collapse to inline storage and spill again
const M1: MultimapTableDefinition<u64, &[u8]> = MultimapTableDefinition::new("m1");

pub(crate) fn tdef(i: usize) -> TableDefinition<'static, u64, &'static [u8]> {
    if i == 0 { T0 } else { T1 }
}

pub(crate) fn value_of(len: usize, seed: u64) -> Vec<u8> {
    (0..len).map(|i| ((i as u64 * 31 + seed) & 0xff) as u8).collect()
}

/// contents of all user tables (an absent table and an empty table are the same contents)
#[derive(Clone, PartialEq, Eq, Default, Debug)]
pub struct Model {
    pub t: [BTreeMap<u64, Vec<u8>>; 2],
    pub m: BTreeMap<u64, BTreeSet<u64>>,
    pub mb: BTreeMap<u64, BTreeSet<Vec<u8>>>,
}

impl Model {
    /// table specifications for the Lean image checker (`img check` / `img recover` lines)
    pub fn tablespecs(&self) -> String {
        let mut v = vec![];
        for (i, t) in self.t.iter().enumerate() {
            let l: Vec<(Vec<u8>, Vec<u8>)> = t.iter().map(|(k, v)| (k.to_le_bytes().to_vec(), v.clone())).collect();
            v.push(format!("t{i}:normal:u64:bytes:{}:{:016x}", l.len(), crate::table::dump_hash(&l)));
        }
        let m: Vec<(Vec<u8>, Vec<Vec<u8>>)> = self.m.iter().map(|(k, s)| (k.to_le_bytes().to_vec(), s.iter().map(|x| x.to_le_bytes().to_vec()).collect())).collect();
        let total: usize = m.iter().map(|e| e.1.len()).sum();
        v.push(format!("m0:multimap:u64:u64:{}:{}:{:016x}", m.len(), total, crate::mm::dump_hash(&m)));
        let mb: Vec<(Vec<u8>, Vec<Vec<u8>>)> = self.mb.iter().map(|(k, s)| (k.to_le_bytes().to_vec(), s.iter().cloned().collect())).collect();
        let total: usize = mb.iter().map(|e| e.1.len()).sum();
        v.push(format!("m1:multimap:u64:bytes:{}:{}:{:016x}", mb.len(), total, crate::mm::dump_hash(&mb)));
        v.join(" ")
    }

    pub fn digest(&self) -> String {
        let mut h: u64 = 0;
        for (i, t) in self.t.iter().enumerate() {
            for (k, v) in t {
                h = h.rotate_left(5) ^ fnv64(&[&[i as u8], &k.to_le_bytes(), v]);
            }
        }
        for (k, s) in &self.m {
            for v in s {
                h = h.rotate_left(7) ^ fnv64(&[b"m", &k.to_le_bytes(), &v.to_le_bytes()]);
            }
        }
        for (k, s) in &self.mb {
            for v in s {
                h = h.rotate_left(9) ^ fnv64(&[b"mb", &k.to_le_bytes(), v]);
            }
        }
        let n: usize = self.t.iter().map(|t| t.len()).sum::<usize>() + self.m.values().map(|s| s.len()).sum::<usize>() + self.mb.values().map(|s| s.len()).sum::<usize>();
        format!("{n}:{h:016x}")
    }
}

/// reads everything through a read transaction
pub(crate) fn read_all(rt: &ReadTransaction) -> Result<Model, String> {
    let mut m = Model::default();
    for i in 0..2 {
        match rt.open_table(tdef(i)) {
            Ok(t) => {
                for e in t.iter().map_err(|e| format!("{e:?}"))? {
                    let (k, v) = e.map_err(|e| format!("{e:?}"))?;
                    m.t[i].insert(k.value(), v.value().to_vec());
                }
                let n = t.len().map_err(|e| format!("{e:?}"))?;
                if n as usize != m.t[i].len() {
                    return Err(format!("len() {n} != iterated {}", m.t[i].len()));
                }
            }
            Err(TableError::TableDoesNotExist(_)) => {}
            Err(e) => return Err(format!("{e:?}")),
        }
    }
    match rt.open_multimap_table(M0) {
        Ok(t) => {
            for e in t.iter().map_err(|e| format!("{e:?}"))? {
                let (k, vals) = e.map_err(|e| format!("{e:?}"))?;
                let mut s = BTreeSet::new();
                for v in vals {
                    s.insert(v.map_err(|e| format!("{e:?}"))?.value());
                }
                m.m.insert(k.value(), s);
            }
        }
        Err(TableError::TableDoesNotExist(_)) => {}
        Err(e) => return Err(format!("{e:?}")),
    }
    match rt.open_multimap_table(M1) {
        Ok(t) => {
            for e in t.iter().map_err(|e| format!("{e:?}"))? {
                let (k, vals) = e.map_err(|e| format!("{e:?}"))?;
                let mut s = BTreeSet::new();
                for v in vals {
                    s.insert(v.map_err(|e| format!("{e:?}"))?.value().to_vec());
                }
                m.mb.insert(k.value(), s);
            }
        }
        Err(TableError::TableDoesNotExist(_)) => {}
        Err(e) => return Err(format!("{e:?}")),
    }
    Ok(m)
}

// ---------------------------------------------------------------------------------- page sets

/// decodes the on-disk page number encoding into (region, index, order)
fn decode_page(p: u64) -> (u32, u32, u8) {
    let order = (p >> 59) as u8;
    let index = (p & (0x000F_FFFF >> order)) as u32;
    let region = ((p >> 20) & 0x000F_FFFF) as u32;
    (region, index, order)
}

/// order-0 global page ids covered by a page number
fn order0(p: u64, region_max_pages: u32) -> std::ops::Range<u64> {
    let (region, index, order) = decode_page(p);
    let base = u64::from(region) * u64::from(region_max_pages) + (u64::from(index) << order);
    base..base + (1u64 << order)
}

pub(crate) fn expand_pages(pages: &[u64], rmp: u32) -> Vec<u64> {
    let mut v: Vec<u64> = pages.iter().flat_map(|p| order0(*p, rmp)).collect();
    v.sort_unstable();
    v
}

fn ranges(v: &[u64]) -> String {
    if v.is_empty() {
        return "-".into();
    }
    let mut s = String::new();
    let mut i = 0;
    while i < v.len() {
        let mut j = i;
        while j + 1 < v.len() && v[j + 1] == v[j] + 1 {
            j += 1;
        }
        if !s.is_empty() {
            s.push(',');
        }
        if j == i {
            s.push_str(&v[i].to_string());
        } else {
            s.push_str(&format!("{}-{}", v[i], v[j]));
        }
        i = j + 1;
    }
    s
}

fn rd_u32(d: &[u8], off: usize) -> usize {
    u32::from_le_bytes(d[off..off + 4].try_into().unwrap()) as usize
}

/// Independent decoder of the serialized `BuddyAllocator` (format of `to_vec`): the set of
/// allocated order-0 pages of the region.
fn allocated_from_bytes(d: &[u8]) -> Vec<u32> {
    let max_order = d[0] as usize;
    let num_pages = rd_u32(d, 4);
    let mut free = vec![false; num_pages];
    let mut start = 8 + 4 * (max_order + 1);
    for order in 0..=max_order {
        let end = rd_u32(d, 8 + 4 * order);
        let bm = &d[start..end];
        // BtreeBitmap: height, level ends, levels root-first; the last level is the leaf
        let height = rd_u32(bm, 0);
        let leaf_start = if height == 1 { 4 + 4 * height } else { rd_u32(bm, 4 + 4 * (height - 2)) };
        let len = rd_u32(bm, leaf_start);
        for i in 0..len {
            let byte = bm[leaf_start + 4 + i / 8];
            if byte & (1 << (i % 8)) == 0 {
                // block i of this order is free
                for p in (i << order)..((i + 1) << order) {
                    if p < num_pages {
                        free[p] = true;
                    }
                }
            }
        }
        start = end;
    }
    (0..num_pages as u32).filter(|p| !free[*p as usize]).collect()
}

/// for each order of a serialized `BuddyAllocator`: does it hold a free block of that order?
fn free_orders_from_bytes(d: &[u8]) -> Vec<bool> {
    let max_order = d[0] as usize;
    let mut start = 8 + 4 * (max_order + 1);
    let mut v = vec![];
    for order in 0..=max_order {
        let end = rd_u32(d, 8 + 4 * order);
        let bm = &d[start..end];
        let height = rd_u32(bm, 0);
        let leaf_start = if height == 1 { 4 + 4 * height } else { rd_u32(bm, 4 + 4 * (height - 2)) };
        let len = rd_u32(bm, leaf_start);
        v.push((0..len).any(|i| bm[leaf_start + 4 + i / 8] & (1 << (i % 8)) == 0));
        start = end;
    }
    v
}

/// bit `region` of the tracker bitmap of `order` in a serialized `RegionTracker` (set = "full")
fn tracker_bit(d: &[u8], order: usize, region: usize) -> Option<bool> {
    let orders = rd_u32(d, 0);
    if order >= orders {
        return None;
    }
    let mut start = 4 + 4 * orders;
    for o in 0..order {
        start += rd_u32(d, 4 + 4 * o);
    }
    let bm = &d[start..start + rd_u32(d, 4 + 4 * order)];
    let height = rd_u32(bm, 0);
    let leaf_start = if height == 1 { 4 + 4 * height } else { rd_u32(bm, 4 + 4 * (height - 2)) };
    let len = rd_u32(bm, leaf_start);
    if region >= len {
        return None;
    }
    Some(bm[leaf_start + 4 + region / 8] & (1 << (region % 8)) != 0)
}

pub struct PageState {
    pub alloc: Vec<u64>,
    pub data: Vec<u64>,
    pub sys: Vec<u64>,
    pub dfreed: BTreeMap<u64, Vec<u64>>,
    pub sfreed: BTreeMap<u64, Vec<u64>>,
    /// DATA_ALLOCATED_TABLE (for the algorithmic life-cycle model, `Redb.Life2`)
    pub dalloc: BTreeMap<u64, Vec<u64>>,
}

// ---------------------------------------------------------------------------------- world

/// What keeps a reader's snapshot alive: the read transaction itself, or - the transaction handle
/// and the table handle having been dropped - only an owned iterator and an owned value guard
/// (C02: "including the owned ones that outlive the transaction handle")
pub(crate) enum Handle {
    Txn(ReadTransaction),
    Owned {
        it: redb::OwnedRange<u64, &'static [u8]>,
        /// what the iterator still has to yield, in order
        rest: std::collections::VecDeque<(u64, Vec<u8>)>,
        guard: Option<(redb::OwnedAccessGuard<&'static [u8]>, Vec<u8>)>,
    },
}

pub(crate) struct Reader {
    h: Handle,
    expect: Model,
    root: VerifRoot,
    id: u64,
    /// fingerprint of the bytes of every page of the pinned tree, taken when the pin was created
    fp: u64,
}

pub(crate) struct Sp {
    sp: Savepoint,
    expect: Model,
    /// transaction id the savepoint pins
    id: u64,
    root: VerifRoot,
    persistent_id: Option<u64>,
    fp: u64,
}

#[derive(Clone)]
pub(crate) struct Psp {
    pub(crate) expect: Model,
    pub(crate) root: VerifRoot,
    pub(crate) pin_id: u64,
    pub(crate) fp: u64,
}

pub struct World {
    pub(crate) cfg: Cfg,
    pub(crate) backend: MemBackend,
    pub(crate) db: Option<Database>,
    pub(crate) committed: Model,
    pub(crate) readers: Vec<Reader>,
    pub(crate) sps: Vec<Sp>,
    /// persistent savepoint id -> contents at creation, captured root, pinned transaction id
    pub(crate) psp: BTreeMap<u64, Psp>,
    /// allocated page count right after the initial commits, for the "returns to level" check
    pub(crate) step_no: usize,
    #[allow(dead_code)]
    pub(crate) focus: String,
    /// commit points since (and including) the last one known to be durable: a crash must
    /// recover to one of them (never older than the last durable, never newer than the last requested)
    pub(crate) window: Vec<(Model, BTreeMap<u64, Psp>)>,
    /// (durable transaction id, fingerprint of its data tree, of its system tree)
    pub(crate) durable_fp: Option<(u64, u64, u64)>,
    /// what the last step actually did, for the algorithmic life-cycle model (`Redb.Life2`):
    /// `key=value` tokens appended to the `hist step` line after the result
    pub(crate) step_extra: String,
    /// a write transaction was dropped by a caught panic: its pages stay allocated without an
    /// owner until the next open / integrity check rebuilds the allocator state
    pub(crate) leaky: bool,
    /// ephemeral savepoints that a committed restore has invalidated; probed (they must be refused)
    /// and dropped by the `ProbeDead` pseudo-step that follows
    pub(crate) dead_sps: Vec<Sp>,
    pub(crate) probe_due: bool,
}

fn dur_name(d: Durability) -> &'static str {
    match d {
        Durability::None => "none",
        Durability::Immediate => "imm",
        _ => "other",
    }
}

impl World {
    pub(crate) fn new(cfg: Cfg, focus: &str) -> Self {
        let backend = MemBackend::fresh();
        let db = open_db(backend.clone(), &cfg).expect("create database");
        World { cfg, backend, db: Some(db), committed: Model::default(), readers: vec![], sps: vec![], psp: BTreeMap::new(), step_no: 0, focus: focus.to_string(), window: vec![(Model::default(), BTreeMap::new())], durable_fp: None, step_extra: String::new(), leaky: false, dead_sps: vec![], probe_due: false }
    }

    pub(crate) fn db(&self) -> &Database {
        self.db.as_ref().unwrap()
    }

    /// the abstract page-ownership state from the hooks
    pub(crate) fn page_state(&self, snap: &VerifSnapshot) -> Result<PageState, String> {
        let rmp = snap.mem.region_max_pages;
        let owners = self.db().verif_owners().map_err(|e| format!("verif_owners: {e:?}"))?;
        let mut alloc = vec![];
        for (r, bytes) in snap.mem.region_allocators.iter().enumerate() {
            for p in allocated_from_bytes(bytes) {
                alloc.push(r as u64 * u64::from(rmp) + u64::from(p));
            }
        }
        alloc.sort_unstable();
        let mut dfreed: BTreeMap<u64, Vec<u64>> = BTreeMap::new();
        for (t, p) in &owners.data_freed {
            dfreed.entry(*t).or_default().extend(order0(*p, rmp));
        }
        for (t, ps) in &snap.mem.unpersisted_data_freed {
            for p in ps {
                dfreed.entry(*t).or_default().extend(order0(*p, rmp));
            }
        }
        let mut sfreed: BTreeMap<u64, Vec<u64>> = BTreeMap::new();
        for (t, p) in &owners.system_freed {
            sfreed.entry(*t).or_default().extend(order0(*p, rmp));
        }
        let mut dalloc: BTreeMap<u64, Vec<u64>> = BTreeMap::new();
        for (t, p) in &owners.data_allocated {
            dalloc.entry(*t).or_default().extend(order0(*p, rmp));
        }
        for v in dfreed.values_mut().chain(sfreed.values_mut()).chain(dalloc.values_mut()) {
            v.sort_unstable();
        }
        Ok(PageState { alloc, data: expand_pages(&owners.data_tree_pages, rmp), sys: expand_pages(&owners.system_tree_pages, rmp), dfreed, sfreed, dalloc })
    }

    /// S: every allocated page has exactly one owner; pins lie inside the allocated set;
    /// writes the `hist state` line for the Lean model
    pub(crate) fn check_state(&mut self, out: &mut Out, after: &str) {
        let snap = self.db().verif_snapshot();
        if snap.tracker.live_write_transaction.is_some() || !snap.mem.allocators_loaded {
            return;
        }
        let rmp = snap.mem.region_max_pages;
        let ps = match self.page_state(&snap) {
            Ok(p) => p,
            Err(e) => {
                out.oracle_fail(format!("owners-unreadable|after {after}: {e}"));
                return;
            }
        };
        // exactly-one-owner accounting
        let mut owner: BTreeMap<u64, &'static str> = BTreeMap::new();
        let mut dup = vec![];
        let mut add = |set: &[u64], name: &'static str, dup: &mut Vec<String>| {
            for p in set {
                if let Some(prev) = owner.insert(*p, name) {
                    if dup.len() < 5 {
                        dup.push(format!("page {p} owned by {prev} and {name}"));
                    }
                }
            }
        };
        add(&ps.data, "data-tree", &mut dup);
        add(&ps.sys, "system-tree", &mut dup);
        for v in ps.dfreed.values() {
            add(v, "data-freed-record", &mut dup);
        }
        for v in ps.sfreed.values() {
            add(v, "system-freed-record", &mut dup);
        }
        if !dup.is_empty() {
            out.oracle_fail(format!("page-two-owners|after {after}: {}", dup.join("; ")));
        }
        let alloc_set: BTreeSet<u64> = ps.alloc.iter().copied().collect();
        let leaked: Vec<u64> = ps.alloc.iter().filter(|p| !owner.contains_key(p)).copied().collect();
        let unallocated: Vec<u64> = owner.keys().filter(|p| !alloc_set.contains(p)).copied().collect();
        if !leaked.is_empty() {
            out.oracle_fail(format!("page-leak|after {after}: {} allocated pages have no owner: {}", leaked.len(), ranges(&leaked[..leaked.len().min(40)])));
        }
        if !unallocated.is_empty() {
            out.oracle_fail(format!("page-owned-but-free|after {after}: {} owned pages are free in the allocator: {}", unallocated.len(), ranges(&unallocated[..unallocated.len().min(40)])));
        }
        // pins
        let mut pins: Vec<String> = vec![];
        let mut pin_check = |kind: &str, id: u64, root: VerifRoot, fp: Option<u64>, db: &Database, out: &mut Out| {
            match db.verif_tree_pages(root) {
                Ok(pages) => {
                    let pages = expand_pages(&pages, rmp);
                    let missing: Vec<u64> = pages.iter().filter(|p| !alloc_set.contains(p)).copied().collect();
                    if !missing.is_empty() {
                        out.oracle_fail(format!("pinned-page-free|after {after}: {kind} pinned at transaction {id} reaches {} pages that are free: {}", missing.len(), ranges(&missing[..missing.len().min(40)])));
                    } else if let Some(fp) = fp {
                        match db.verif_tree_fingerprint(root) {
                            Ok(now) if now == fp => {}
                            Ok(_) => out.oracle_fail(format!("pinned-page-rewritten|after {after}: the bytes of the pages reachable from the {kind} pinned at transaction {id} changed")),
                            Err(e) => out.oracle_fail(format!("pinned-tree-unreadable|after {after}: {kind} pinned at transaction {id}: {e:?}")),
                        }
                    }
                    pins.push(format!("{id}:{kind}:{}", ranges(&pages)));
                }
                Err(e) => out.oracle_fail(format!("pinned-tree-unreadable|after {after}: {kind} pinned at transaction {id}: {e:?}")),
            }
        };
        for r in &self.readers {
            pin_check("r", r.id, r.root, Some(r.fp), self.db.as_ref().unwrap(), out);
        }
        for s in &self.sps {
            pin_check("s", s.id, s.root, Some(s.fp), self.db.as_ref().unwrap(), out);
        }
        for p in self.psp.values() {
            pin_check("s", p.pin_id, p.root, Some(p.fp), self.db.as_ref().unwrap(), out);
        }
        // every reader and savepoint the harness holds is counted by the tracker on its transaction
        // id (the tracker may count more: pending non-durable commits pin their durable ancestor)
        {
            let mut need: BTreeMap<u64, u64> = BTreeMap::new();
            for r in &self.readers {
                *need.entry(r.id).or_insert(0) += 1;
            }
            for s in &self.sps {
                *need.entry(s.id).or_insert(0) += 1;
            }
            for p in self.psp.values() {
                *need.entry(p.pin_id).or_insert(0) += 1;
            }
            let have: BTreeMap<u64, u64> = snap.tracker.live_read_transactions.iter().map(|(k, v)| (*k as u64, *v as u64)).collect();
            for (id, n) in need {
                let h = have.get(&id).copied().unwrap_or(0);
                if h < n {
                    out.oracle_fail(format!("pin-count|after {after}: {n} readers / savepoints are held on transaction {id} but the tracker counts {h}"));
                }
            }
        }
        let dur_id = snap.mem.durable_transaction_id;
        let prev_dfp = self.durable_fp.filter(|x| x.0 == dur_id);
        pin_check("d", dur_id, snap.mem.durable_data_root, prev_dfp.map(|x| x.1), self.db.as_ref().unwrap(), out);
        let sys_fp = self.db().verif_tree_fingerprint(snap.mem.durable_system_root).unwrap_or(0);
        if let Some((_, _, prev_sys)) = prev_dfp {
            if prev_sys != sys_fp {
                out.oracle_fail(format!("pinned-page-rewritten|after {after}: the bytes of the durable system tree (transaction {dur_id}) changed"));
            }
        }
        let data_fp = self.db().verif_tree_fingerprint(snap.mem.durable_data_root).unwrap_or(0);
        self.durable_fp = Some((dur_id, data_fp, sys_fp));
        let dsys = match self.db().verif_tree_pages(snap.mem.durable_system_root) {
            Ok(p) => expand_pages(&p, rmp),
            Err(e) => {
                out.oracle_fail(format!("pinned-tree-unreadable|after {after}: durable system tree: {e:?}"));
                vec![]
            }
        };
        let missing: Vec<u64> = dsys.iter().filter(|p| !alloc_set.contains(p)).copied().collect();
        if !missing.is_empty() {
            out.oracle_fail(format!("pinned-page-free|after {after}: durable system tree reaches free pages {}", ranges(&missing[..missing.len().min(40)])));
        }
        // C20: the file is never shorter than a page that is still in use
        let file_len = self.backend.data.lock().unwrap().len() as u64;
        if let Some(maxp) = owner.keys().next_back() {
            let end = (maxp + 2) * u64::from(snap.mem.page_size);
            if end > file_len {
                out.oracle_fail(format!("page-beyond-eof|after {after}: page {maxp} is in use and ends at byte {end}, but the storage is only {file_len} bytes long"));
            }
        }
        if snap.mem.layout_len != file_len {
            out.oracle_fail(format!("layout-length|after {after}: in-memory layout length {} differs from the storage length {file_len}", snap.mem.layout_len));
        }
        // C14: a region that contains a suitable free block is never reported full by the tracker
        for (r, bytes) in snap.mem.region_allocators.iter().enumerate() {
            let free = free_orders_from_bytes(bytes);
            if let Some(hfo) = free.iter().rposition(|x| *x) {
                for o in 0..=hfo {
                    if tracker_bit(&snap.mem.region_tracker, o, r) == Some(true) {
                        out.oracle_fail(format!("tracker-hides-space|after {after}: region {r} has a free block of order {hfo} but the region tracker reports it full for order {o}"));
                        break;
                    }
                }
            }
        }
        // ... and never offers a region that does not exist (an allocation would be directed
        // beyond the last region instead of growing the file)
        {
            let regions = snap.mem.region_allocators.len();
            let mut r = regions;
            'outer: while let Some(_) = tracker_bit(&snap.mem.region_tracker, 0, r) {
                let mut o = 0;
                while let Some(full) = tracker_bit(&snap.mem.region_tracker, o, r) {
                    if !full {
                        out.oracle_fail(format!("tracker-offers-missing-region|after {after}: the region tracker reports free space of order {o} in region {r}, but the database has {regions} region(s)"));
                        break 'outer;
                    }
                    o += 1;
                }
                r += 1;
            }
        }
        out.count("tracker_checks");
        // C14, region level: the serialized tracker and every region allocator, for the Lean model
        // of region.rs (`Redb.Region.TrackerSound`, evaluated by the driver on the decoded state).
        // Every state of the first 6000 of a run (the whole quick tier), then every 16th: a line
        // is 8-27 kB and takes the driver about 6 ms (the thorough tier has about 83000 states).
        let nth = out.counters.get("tracker_checks").copied().unwrap_or(0);
        if self.focus == "c14" && (nth <= 6000 || nth % 16 == 0) {
            let mut l = format!("rg state {} {}", snap.mem.region_allocators.len(), crate::out::hex(&snap.mem.region_tracker));
            for bytes in &snap.mem.region_allocators {
                l.push(' ');
                l.push_str(&crate::out::hex(bytes));
            }
            out.line(&l);
            out.count("rg_states");
        }
        let rec =|m: &BTreeMap<u64, Vec<u64>>| -> String {
            if m.is_empty() {
                "-".into()
            } else {
                m.iter().map(|(t, v)| format!("{t}:{}", ranges(v))).collect::<Vec<_>>().join(";")
            }
        };
        let live = if snap.tracker.live_read_transactions.is_empty() {
            "-".to_string()
        } else {
            snap.tracker.live_read_transactions.iter().map(|(k, v)| format!("{k}*{v}")).collect::<Vec<_>>().join(",")
        };
        // additional fields for the algorithmic model (`Redb.Life2`): everything the bookkeeping
        // algorithm keeps, as far as the read-only hooks show it
        let expand_map = |m: &BTreeMap<u64, Vec<u64>>| -> BTreeMap<u64, Vec<u64>> {
            m.iter().filter(|(_, v)| !v.is_empty()).map(|(t, v)| (*t, expand_pages(v, rmp))).collect()
        };
        let list = |v: Vec<String>| if v.is_empty() { "-".to_string() } else { v.join(",") };
        let mut spp: Vec<String> = vec![];
        for s in &self.sps {
            let (sid, id, root, _) = s.sp.verif_info();
            if let Ok(pages) = self.db().verif_tree_pages(root) {
                spp.push(format!("{sid}:{id}:{}", ranges(&expand_pages(&pages, rmp))));
            }
        }
        for (sid, p) in &self.psp {
            if let Ok(pages) = self.db().verif_tree_pages(p.root) {
                spp.push(format!("{sid}:{}:{}", p.pin_id, ranges(&expand_pages(&pages, rmp))));
            }
        }
        let extra = format!(
            " next={} nsp={} udfreed={} dalloc={} ualloc={} unp={} pca={} vsp={} pend={} unproc={} spp={}",
            snap.tracker.next_transaction_id,
            snap.tracker.next_savepoint_id,
            rec(&expand_map(&snap.mem.unpersisted_data_freed)),
            rec(&ps.dalloc),
            rec(&expand_map(&snap.mem.unpersisted_allocations)),
            ranges(&expand_pages(&snap.mem.unpersisted_pages, rmp)),
            ranges(&expand_pages(&snap.mem.post_commit_allocations, rmp)),
            list(snap.tracker.valid_savepoints.iter().map(|(k, v)| format!("{k}:{v}:{}", if snap.tracker.persistent_savepoints.contains(k) { "p" } else { "e" })).collect()),
            list(snap.tracker.pending_non_durable_commits.iter().map(|(k, v)| format!("{k}:{v}")).collect()),
            list(snap.tracker.unprocessed_freed_non_durable_commits.iter().map(|k| k.to_string()).collect()),
            if spp.is_empty() { "-".to_string() } else { spp.join(";") },
        );
        out.line(&format!(
            "hist state id={} dur={} alloc={} data={} sys={} dfreed={} sfreed={} dsys={} pins={} live={}{extra}",
            snap.mem.latest_transaction_id,
            snap.mem.durable_transaction_id,
            ranges(&ps.alloc),
            ranges(&ps.data),
            ranges(&ps.sys),
            rec(&ps.dfreed),
            rec(&ps.sfreed),
            ranges(&dsys),
            if pins.is_empty() { "-".to_string() } else { pins.join(";") },
            live
        ));
        out.count("states");
    }

    /// S for C02: every live reader and savepoint still shows the contents captured at its start
    pub(crate) fn check_pinned_contents(&mut self, out: &mut Out, after: &str) {
        for r in self.readers.iter_mut() {
            match &mut r.h {
                Handle::Txn(rt) => match read_all(rt) {
                    Ok(m) => {
                        if m != r.expect {
                            out.oracle_fail(format!("reader-snapshot-changed|after {after}: reader begun at transaction {} now shows {} instead of {}", r.id, m.digest(), r.expect.digest()));
                        }
                    }
                    Err(e) => out.oracle_fail(format!("reader-snapshot-unreadable|after {after}: reader begun at transaction {}: {e}", r.id)),
                },
                Handle::Owned { it, rest, guard } => {
                    // the owned iterator goes on where it stopped and yields what the snapshot held
                    for _ in 0..3 {
                        let want = rest.pop_front();
                        let got = match it.next() {
                            None => None,
                            Some(Ok((k, v))) => Some((k.value(), v.value().to_vec())),
                            Some(Err(e)) => {
                                out.oracle_fail(format!("owned-iterator-unreadable|after {after}: owned range of the reader begun at transaction {}: {e:?}", r.id));
                                break;
                            }
                        };
                        if got != want {
                            out.oracle_fail(format!(
                                "owned-iterator-changed|after {after}: the owned range of the reader begun at transaction {} yields {:?}, its snapshot holds {:?} next",
                                r.id,
                                got.as_ref().map(|x| (x.0, x.1.len())),
                                want.as_ref().map(|x| (x.0, x.1.len()))
                            ));
                            break;
                        }
                        if want.is_none() {
                            break;
                        }
                    }
                    if let Some((g, want)) = guard {
                        if g.value() != want.as_slice() {
                            out.oracle_fail(format!("owned-guard-changed|after {after}: the owned value guard of the reader begun at transaction {} changed", r.id));
                        }
                    }
                    out.count("owned_reader_rechecks");
                }
            }
            out.count("reader_rechecks");
        }
    }

    pub(crate) fn check_committed_contents(&mut self, out: &mut Out, after: &str) {
        match self.db().begin_read().map_err(|e| format!("{e:?}")).and_then(|rt| read_all(&rt)) {
            Ok(m) => {
                if m != self.committed {
                    out.oracle_fail(format!("contents|after {after}: database shows {} but the last commit point is {}", m.digest(), self.committed.digest()));
                }
            }
            Err(e) => out.oracle_fail(format!("contents-unreadable|after {after}: {e}")),
        }
    }

    // ------------------------------------------------------------------ steps

    /// a write transaction described by `spec`; returns the result tag
    pub(crate) fn step_txn(&mut self, spec: &TxnSpec, out: &mut Out) -> String {
        let mut work = self.committed.clone();
        let mut new_sps: Vec<Sp> = vec![];
        let mut created_psp: Vec<(u64, Psp)> = vec![];
        let mut deleted_psp: Vec<u64> = vec![];
        let mut invalidated_after: Option<u64> = None; // savepoint ids > this are invalid after commit
        let mut result = "ok".to_string();
        // executed savepoint operations, for the algorithmic model: e<sid> p<sid> d<sid> r<sid>
        let mut spx: Vec<String> = vec![];
        let db = self.db.as_ref().unwrap();
        let mut txn = match db.begin_write() {
            Ok(t) => t,
            Err(e) => return format!("err:begin:{}", crate::table::err_tag(e)),
        };
        if txn.set_durability(spec.durability).is_err() {
            result = "err:set_durability".into();
        }
        txn.set_two_phase_commit(spec.two_phase);
        txn.set_quick_repair(spec.quick_repair);
        let snap_before = db.verif_snapshot();
        // savepoint operations come first: they require a clean (not dirty) transaction
        for op in &spec.sp_ops {
            match op {
                SpOp::Ephemeral => match txn.ephemeral_savepoint() {
                    Ok(sp) => {
                        let (sid, id, root, _) = sp.verif_info();
                        spx.push(format!("e{sid}"));
                        let fp = db.verif_tree_fingerprint(root).unwrap_or(0);
                        new_sps.push(Sp { sp, expect: self.committed.clone(), id, root, persistent_id: None, fp });
                    }
                    Err(e) => out.oracle_fail(format!("savepoint-create|ephemeral_savepoint() on a clean transaction failed: {e:?}")),
                },
                SpOp::Persistent => {
                    if spec.immediate() {
                        match txn.persistent_savepoint() {
                            Ok(id) => {
                                spx.push(format!("p{id}"));
                                created_psp.push((id, Psp { expect: self.committed.clone(), root: snap_before.mem.latest_data_root, pin_id: snap_before.mem.latest_transaction_id, fp: db.verif_tree_fingerprint(snap_before.mem.latest_data_root).unwrap_or(0) }))
                            }
                            Err(e) => out.oracle_fail(format!("savepoint-create|persistent_savepoint() failed: {e:?}")),
                        }
                    }
                }
                SpOp::DeleteCreated => {
                    if let Some((id, _)) = created_psp.pop() {
                        match txn.delete_persistent_savepoint(id) {
                            Ok(true) => spx.push(format!("d{id}")),
                            Ok(false) => out.oracle_fail(format!("savepoint-delete|persistent savepoint {id} created in this transaction reported missing")),
                            Err(e) => out.oracle_fail(format!("savepoint-delete|{e:?}")),
                        }
                    }
                }
                SpOp::DeletePersistent(k) => {
                    if spec.immediate() && !self.psp.is_empty() {
                        let id = *self.psp.keys().nth(*k % self.psp.len()).unwrap();
                        if deleted_psp.contains(&id) {
                            continue;
                        }
                        match txn.delete_persistent_savepoint(id) {
                            Ok(true) => {
                                spx.push(format!("d{id}"));
                                deleted_psp.push(id)
                            }
                            Ok(false) => out.oracle_fail(format!("savepoint-delete|persistent savepoint {id} reported missing")),
                            Err(e) => out.oracle_fail(format!("savepoint-delete|{e:?}")),
                        }
                    }
                }
                SpOp::RestoreEphemeral(k) => {
                    if self.sps.is_empty() {
                        continue;
                    }
                    let s = &self.sps[*k % self.sps.len()];
                    let (sid, _, _, _) = s.sp.verif_info();
                    // restoring below a later persistent savepoint needs Immediate durability
                    let blocked = !spec.immediate() && self.psp.keys().any(|p| *p > sid);
                    match txn.restore_savepoint(&s.sp) {
                        Ok(()) => {
                            if blocked {
                                out.oracle_fail("savepoint-restore|restore accepted although a later persistent savepoint exists and durability is None".into());
                            }
                            spx.push(format!("r{sid}"));
                            work = s.expect.clone();
                            invalidated_after = Some(sid);
                            created_psp.retain(|(p, _)| *p <= sid);
                            for p in self.psp.keys().filter(|p| **p > sid) {
                                if !deleted_psp.contains(p) {
                                    deleted_psp.push(*p);
                                }
                            }
                        }
                        Err(e) => {
                            if !blocked {
                                out.oracle_fail(format!("savepoint-restore|restore of a valid ephemeral savepoint failed: {e:?}"));
                            }
                        }
                    }
                }
                SpOp::RestorePersistent(k) => {
                    if self.psp.is_empty() {
                        continue;
                    }
                    let id = *self.psp.keys().nth(*k % self.psp.len()).unwrap();
                    if deleted_psp.contains(&id) {
                        continue;
                    }
                    let blocked = !spec.immediate() && self.psp.keys().any(|p| *p > id);
                    match txn.get_persistent_savepoint(id) {
                        Ok(sp) => match txn.restore_savepoint(&sp) {
                            Ok(()) => {
                                if blocked {
                                    out.oracle_fail("savepoint-restore|restore accepted although a later persistent savepoint exists and durability is None".into());
                                }
                                spx.push(format!("r{id}"));
                                work = self.psp[&id].expect.clone();
                                invalidated_after = Some(id);
                                created_psp.retain(|(p, _)| *p <= id);
                                for p in self.psp.keys().filter(|p| **p > id) {
                                    if !deleted_psp.contains(p) {
                                        deleted_psp.push(*p);
                                    }
                                }
                            }
                            Err(e) => {
                                if !blocked {
                                    out.oracle_fail(format!("savepoint-restore|restore of persistent savepoint {id} failed: {e:?}"));
                                }
                            }
                        },
                        Err(e) => out.oracle_fail(format!("savepoint-get|persistent savepoint {id}: {e:?}")),
                    }
                }
            }
        }
        // table operations
        let body = catch_unwind(AssertUnwindSafe(|| -> Result<(), String> {
            for op in &spec.ops {
                match op {
                    Op::Insert(t, k, len, seed) => {
                        let v = value_of(*len, *seed);
                        let mut tb = txn.open_table(tdef(*t)).map_err(|e| format!("{e:?}"))?;
                        let old = tb.insert(*k, v.as_slice()).map_err(|e| format!("{e:?}"))?.map(|g| g.value().to_vec());
                        let want = work.t[*t].insert(*k, v);
                        if old != want {
                            return Err(format!("insert returned {:?} expected {:?}", old.map(|x| x.len()), want.map(|x| x.len())));
                        }
                    }
                    Op::Remove(t, k) => {
                        let mut tb = txn.open_table(tdef(*t)).map_err(|e| format!("{e:?}"))?;
                        let old = tb.remove(*k).map_err(|e| format!("{e:?}"))?.map(|g| g.value().to_vec());
                        let want = work.t[*t].remove(k);
                        if old != want {
                            return Err("remove returned a different value".into());
                        }
                    }
                    Op::Bulk(t, start, count, len) => {
                        let mut tb = txn.open_table(tdef(*t)).map_err(|e| format!("{e:?}"))?;
                        for k in *start..*start + *count {
                            let v = value_of(*len, k);
                            tb.insert(k, v.as_slice()).map_err(|e| format!("{e:?}"))?;
                            work.t[*t].insert(k, v);
                        }
                    }
                    Op::BulkRemove(t, start, count) => {
                        let mut tb = txn.open_table(tdef(*t)).map_err(|e| format!("{e:?}"))?;
                        for k in *start..*start + *count {
                            tb.remove(k).map_err(|e| format!("{e:?}"))?;
                            work.t[*t].remove(&k);
                        }
                    }
                    Op::Retain(t, m, r) => {
                        let mut tb = txn.open_table(tdef(*t)).map_err(|e| format!("{e:?}"))?;
                        tb.retain(|k, _| k % m < *r).map_err(|e| format!("{e:?}"))?;
                        work.t[*t].retain(|k, _| k % m < *r);
                    }
                    Op::DeleteTable(t) => {
                        txn.delete_table(tdef(*t)).map_err(|e| format!("{e:?}"))?;
                        work.t[*t].clear();
                    }
                    Op::MmInsert(k, start, count) => {
                        let mut tb = txn.open_multimap_table(M0).map_err(|e| format!("{e:?}"))?;
                        for v in *start..*start + *count {
                            tb.insert(*k, v).map_err(|e| format!("{e:?}"))?;
                            work.m.entry(*k).or_default().insert(v);
                        }
                    }
                    Op::MmRemove(k, start, count) => {
                        let mut tb = txn.open_multimap_table(M0).map_err(|e| format!("{e:?}"))?;
                        for v in *start..*start + *count {
                            tb.remove(*k, v).map_err(|e| format!("{e:?}"))?;
                            if let Some(s) = work.m.get_mut(k) {
                                s.remove(&v);
                                if s.is_empty() {
                                    work.m.remove(k);
                                }
                            }
                        }
                    }
                    Op::MmRemoveAll(k) => {
                        let mut tb = txn.open_multimap_table(M0).map_err(|e| format!("{e:?}"))?;
                        let n = tb.remove_all(*k).map_err(|e| format!("{e:?}"))?.count();
                        let want = work.m.remove(k).map_or(0, |s| s.len());
                        if n != want {
                            return Err(format!("remove_all yielded {n} values, expected {want}"));
                        }
                    }
                    Op::BigMmInsert(k, len, seed) => {
                        let mut tb = txn.open_multimap_table(M1).map_err(|e| format!("{e:?}"))?;
                        let v = value_of(*len, *seed);
                        let existed = tb.insert(*k, v.as_slice()).map_err(|e| format!("{e:?}"))?;
                        let had = !work.mb.entry(*k).or_default().insert(v);
                        if existed != had {
                            return Err(format!("multimap insert of a {len}-byte value reported existed={existed}, expected {had}"));
                        }
                    }
                    Op::BigMmRemove(k, len, seed) => {
                        let mut tb = txn.open_multimap_table(M1).map_err(|e| format!("{e:?}"))?;
                        let v = value_of(*len, *seed);
                        let removed = tb.remove(*k, v.as_slice()).map_err(|e| format!("{e:?}"))?;
                        let had = work.mb.get_mut(k).is_some_and(|s| s.remove(&v));
                        if work.mb.get(k).is_some_and(|s| s.is_empty()) {
                            work.mb.remove(k);
                        }
                        if removed != had {
                            return Err(format!("multimap remove of a {len}-byte value reported removed={removed}, expected {had}"));
                        }
                    }
                    Op::PanicInExtractIf(t, backward) => {
                        // a panicking predicate must poison the transaction whichever end drives the iterator (C05)
                        let r = catch_unwind(AssertUnwindSafe(|| {
                            let mut tb = txn.open_table(tdef(*t)).unwrap();
                            let mut n = 0;
                            let mut it = tb
                                .extract_if(|_, _| {
                                    n += 1;
                                    if n == 2 {
                                        panic!("injected predicate panic");
                                    }
                                    true
                                })
                                .unwrap();
                            for _ in 0..2 {
                                let _ = if *backward { it.next_back() } else { it.next() };
                            }
                        }));
                        if r.is_err() {
                            return Err("poisoned-by-panic".into());
                        }
                        // fewer than two entries: the predicate never panicked; what it was asked about was extracted
                        work.t[*t].clear();
                    }
                    Op::PanicInRetain(t) => {
                        // a panicking predicate must poison the transaction (C05)
                        let r = catch_unwind(AssertUnwindSafe(|| {
                            let mut tb = txn.open_table(tdef(*t)).unwrap();
                            let mut n = 0;
                            let _ = tb.retain(|_, _| {
                                n += 1;
                                if n == 2 {
                                    panic!("injected predicate panic");
                                }
                                false
                            });
                        }));
                        if r.is_err() {
                            return Err("poisoned-by-panic".into());
                        }
                        // fewer than two entries: the predicate never panicked and removed them all
                        work.t[*t].clear();
                    }
                }
            }
            Ok(())
        }));
        let mut poisoned = false;
        match body {
            Ok(Ok(())) => {}
            Ok(Err(e)) if e == "poisoned-by-panic" => poisoned = true,
            Ok(Err(e)) => {
                out.oracle_fail(format!("txn-op|{e}"));
                result = "err:op".into();
            }
            Err(_) => {
                out.oracle_fail("txn-panic|panic inside a table operation".into());
                result = "err:panic".into();
            }
        }
        // end of the transaction
        let committed = match spec.end {
            End::Commit => match txn.commit() {
                Ok(()) => {
                    if poisoned {
                        out.oracle_fail("poisoned-commit|commit() succeeded after a predicate panicked inside retain".into());
                    }
                    true
                }
                Err(e) => {
                    if !poisoned {
                        out.oracle_fail(format!("commit-failed|{e:?}"));
                    }
                    result = format!("err:commit:{}", crate::table::err_tag(e));
                    false
                }
            },
            End::Abort => {
                if let Err(e) = txn.abort() {
                    out.oracle_fail(format!("abort-failed|{e:?}"));
                }
                false
            }
            End::Drop => {
                drop(txn);
                false
            }
            End::PanicDrop => {
                let r = catch_unwind(AssertUnwindSafe(move || {
                    let _live = txn;
                    panic!("injected panic with a live write transaction");
                }));
                debug_assert!(r.is_err());
                self.leaky = true;
                false
            }
        };
        self.step_extra = format!("spx={}", if spx.is_empty() { "-".to_string() } else { spx.join(",") });
        if committed {
            self.committed = work;
            self.sps.append(&mut new_sps);
            for (id, m) in created_psp {
                self.psp.insert(id, m);
            }
            for id in deleted_psp {
                self.psp.remove(&id);
            }
            if let Some(limit) = invalidated_after {
                // ephemeral savepoints created after the restored one are unusable now
                let mut keep = vec![];
                for s in self.sps.drain(..) {
                    let (sid, _, _, _) = s.sp.verif_info();
                    if sid <= limit {
                        keep.push(s);
                    } else {
                        // kept until the probe that follows this step: using it must be refused
                        self.dead_sps.push(s);
                    }
                }
                self.sps = keep;
                self.probe_due = true;
            }
        } else {
            // C05/C07: nothing of the abandoned transaction may remain
            drop(new_sps);
            // ... in the tracker either: the registered savepoints and the counted readers are
            // those from before the transaction began
            if !self.leaky {
                let now = self.db().verif_snapshot().tracker;
                let was = &snap_before.tracker;
                if now.valid_savepoints != was.valid_savepoints || now.persistent_savepoints != was.persistent_savepoints || now.live_read_transactions != was.live_read_transactions {
                    out.oracle_fail(format!(
                        "abandoned-txn-left-registrations|after an abandoned transaction ({:?}, savepoint ops {}) the tracker holds savepoints {:?} / persistent {:?} / read references {:?}, before it began {:?} / {:?} / {:?}",
                        spec.end, if spx.is_empty() { "-".to_string() } else { spx.join(",") },
                        now.valid_savepoints, now.persistent_savepoints, now.live_read_transactions, was.valid_savepoints, was.persistent_savepoints, was.live_read_transactions
                    ));
                }
            }
        }
        result
    }

    pub(crate) fn step_begin_read(&mut self, out: &mut Out) -> String {
        match self.db().begin_read() {
            Ok(rt) => {
                let snap = self.db().verif_snapshot();
                // C03 (sequential part): a reader begun now sees the last completed commit
                match read_all(&rt) {
                    Ok(m) => {
                        if m != self.committed {
                            out.oracle_fail(format!("reader-stale|new reader shows {} but the last completed commit is {}", m.digest(), self.committed.digest()));
                        }
                    }
                    Err(e) => out.oracle_fail(format!("reader-unreadable|{e}")),
                }
                let fp = self.db().verif_tree_fingerprint(snap.mem.latest_data_root).unwrap_or(0);
                // every third reader lives on only through owned objects: the table handle and the
                // transaction handle are dropped at once
                let t = self.step_no % 2;
                let mut h = None;
                if self.step_no % 3 == 0 {
                    if let Ok(tb) = rt.open_table(tdef(t)) {
                        let rest: std::collections::VecDeque<(u64, Vec<u8>)> = self.committed.t[t].iter().map(|(k, v)| (*k, v.clone())).collect();
                        let guard = rest.back().and_then(|(k, v)| tb.get_owned(*k).ok().flatten().map(|g| (g, v.clone())));
                        if let Ok(it) = tb.range_owned::<u64>(..) {
                            h = Some(Handle::Owned { it, rest, guard });
                            out.count("owned_readers");
                        }
                    }
                }
                let h = match h {
                    Some(h) => {
                        drop(rt);
                        h
                    }
                    None => Handle::Txn(rt),
                };
                self.readers.push(Reader { h, expect: self.committed.clone(), root: snap.mem.latest_data_root, id: snap.mem.latest_transaction_id, fp });
                "ok".into()
            }
            Err(e) => format!("err:{}", crate::table::err_tag(e)),
        }
    }

    pub(crate) fn step_list_psp(&mut self, out: &mut Out) {
        let db = self.db.as_ref().unwrap();
        if !self.readers.is_empty() || !self.sps.is_empty() {
            // keeps histories comparable; listing needs a write transaction
        }
        if let Ok(txn) = db.begin_write() {
            match txn.list_persistent_savepoints() {
                Ok(it) => {
                    let got: BTreeSet<u64> = it.collect();
                    let want: BTreeSet<u64> = self.psp.keys().copied().collect();
                    if got != want {
                        out.oracle_fail(format!("persistent-savepoint-list|listed {got:?}, expected {want:?}"));
                    }
                }
                Err(e) => out.oracle_fail(format!("persistent-savepoint-list|{e:?}")),
            }
            let _ = txn.abort();
        }
    }

    pub(crate) fn step_reopen(&mut self, out: &mut Out) -> String {
        self.readers.clear();
        self.sps.clear();
        self.dead_sps.clear();
        self.db = None;
        // the new instance continues the recording (if any) of the one that was just closed
        let old = self.backend.clone();
        self.backend = MemBackend::new(old.data.clone());
        self.backend.mon.record.store(old.mon.record.load(std::sync::atomic::Ordering::SeqCst), std::sync::atomic::Ordering::SeqCst);
        self.backend.mon.log.lock().unwrap().append(&mut old.mon.log.lock().unwrap());
        self.backend.mon.record_calls.store(old.mon.record_calls.load(std::sync::atomic::Ordering::SeqCst), std::sync::atomic::Ordering::SeqCst);
        for x in old.mon.contract_violations.lock().unwrap().iter() {
            out.oracle_fail(format!("backend-contract|{x}"));
        }
        if old.mon.closes.load(std::sync::atomic::Ordering::SeqCst) != 1 {
            out.oracle_fail(format!("backend-contract|close-count|close() called {} times for a dropped Database", old.mon.closes.load(std::sync::atomic::Ordering::SeqCst)));
        }
        match open_db(self.backend.clone(), &self.cfg) {
            Ok(db) => {
                self.db = Some(db);
                "ok".into()
            }
            Err(e) => {
                out.oracle_fail(format!("reopen-failed|{e:?}"));
                // cannot continue this history
                format!("err:{}", crate::table::err_tag(e))
            }
        }
    }

    /// reopen from the bytes as they are now without closing (all issued writes persisted):
    /// the open path has to repair (no clean-shutdown record)
    pub(crate) fn step_crash_reopen(&mut self, out: &mut Out) -> String {
        self.readers.clear();
        self.sps.clear();
        let image = self.backend.snapshot();
        // the old instance keeps its own storage; the new one opens a detached copy of the bytes
        let old = self.db.take();
        self.backend = MemBackend::new(std::sync::Arc::new(std::sync::Mutex::new(image)));
        drop(old);
        match open_db(self.backend.clone(), &self.cfg) {
            Ok(db) => {
                self.db = Some(db);
                let got = self.db().begin_read().map_err(|e| format!("{e:?}")).and_then(|rt| read_all(&rt));
                match got {
                    Ok(m) => match self.window.iter().rposition(|(w, _)| *w == m) {
                        Some(i) => {
                            let (m, psp) = self.window[i].clone();
                            self.committed = m;
                            self.psp = psp;
                            self.window.drain(..i);
                            self.window.truncate(1);
                            format!("ok:recovered-{}-of-{}", i, i)
                        }
                        None => {
                            out.oracle_fail(format!("crash-recovery-window|after a crash the database shows {} which is none of the {} commit points since the last durable commit", m.digest(), self.window.len()));
                            self.committed = m;
                            self.window = vec![(self.committed.clone(), self.psp.clone())];
                            "ok:outside-window".into()
                        }
                    },
                    Err(e) => {
                        out.oracle_fail(format!("crash-reopen-unreadable|{e}"));
                        "err:unreadable".into()
                    }
                }
            }
            Err(e) => {
                out.oracle_fail(format!("crash-reopen-failed|{e:?}"));
                format!("err:{}", crate::table::err_tag(e))
            }
        }
    }

    pub(crate) fn step_compact(&mut self, out: &mut Out) -> String {
        let len_before = self.backend.data.lock().unwrap().len();
        let snap = self.db().verif_snapshot();
        let user_pins = !self.readers.is_empty();
        let sp_pins = !self.sps.is_empty() || !self.psp.is_empty();
        let r = self.db.as_mut().unwrap().compact();
        let len_after = self.backend.data.lock().unwrap().len();
        let _ = snap;
        match r {
            Ok(b) => {
                if user_pins || sp_pins {
                    out.oracle_fail(format!("compact-not-refused|compact() returned Ok({b}) while {} readers and {} savepoints exist", self.readers.len(), self.sps.len() + self.psp.len()));
                }
                if len_after > len_before {
                    out.oracle_fail(format!("compact-grew|compact() returned Ok({b}) and the file grew from {len_before} to {len_after} bytes (page {} region {})", self.cfg.page, self.cfg.region));
                }
                format!("ok:{}", u8::from(b))
            }
            Err(e) => {
                if !(user_pins || sp_pins) {
                    out.oracle_fail(format!("compact-refused|compact() failed without readers or savepoints: {e:?}"));
                }
                if len_after != len_before {
                    out.oracle_fail(format!("compact-refused-resized|refused compact() changed the file length {len_before} -> {len_after}"));
                }
                format!("err:{}", crate::table::err_tag(e))
            }
        }
    }

    pub(crate) fn step_check_integrity(&mut self, out: &mut Out) -> String {
        if !self.readers.is_empty() || self.sps.iter().any(|s| s.persistent_id.is_none()) {
            return "skipped".into();
        }
        match self.db.as_mut().unwrap().check_integrity() {
            Ok(true) => "ok:1".into(),
            Ok(false) if self.leaky => {
                // the leak of a panic-dropped transaction is what was repaired; a second check is clean
                match self.db.as_mut().unwrap().check_integrity() {
                    Ok(true) => {}
                    other => out.oracle_fail(format!("check-integrity-unstable|after repairing the leak of a panic-dropped transaction a second check_integrity() returned {other:?}")),
                }
                "ok:0".into()
            }
            Ok(false) => {
                out.oracle_fail("check-integrity-dirty|check_integrity() returned Ok(false) on a healthy database".into());
                "ok:0".into()
            }
            Err(e) => {
                out.oracle_fail(format!("check-integrity-error|{e:?}"));
                format!("err:{}", crate::table::err_tag(e))
            }
        }
    }
}

// ---------------------------------------------------------------------------------- programs

#[derive(Clone, Debug)]
pub enum Op {
    Insert(usize, u64, usize, u64),
    Remove(usize, u64),
    Bulk(usize, u64, u64, usize),
    BulkRemove(usize, u64, u64),
    Retain(usize, u64, u64),
    DeleteTable(usize),
    MmInsert(u64, u64, u64),
    MmRemove(u64, u64, u64),
    MmRemoveAll(u64),
    /// m1: insert / remove one byte-string value (length, seed) under a key
    BigMmInsert(u64, usize, u64),
    BigMmRemove(u64, usize, u64),
    PanicInRetain(usize),
    /// extract_if whose predicate panics at its second call; driven from the front or from the back
    PanicInExtractIf(usize, bool),
}

#[derive(Clone, Debug)]
pub enum SpOp {
    Ephemeral,
    Persistent,
    /// delete the persistent savepoint created last in this same transaction
    DeleteCreated,
    DeletePersistent(usize),
    RestoreEphemeral(usize),
    RestorePersistent(usize),
}

#[derive(Clone, Copy, Debug, PartialEq)]
pub enum End {
    Commit,
    Abort,
    Drop,
    /// the transaction is dropped by a panic that unwinds through it and is caught: redb skips the
    /// abort while unwinding and leaks the transaction's pages until the next open (by design)
    PanicDrop,
}

#[derive(Clone, Debug)]
pub struct TxnSpec {
    pub durability: Durability,
    pub two_phase: bool,
    pub quick_repair: bool,
    pub sp_ops: Vec<SpOp>,
    pub ops: Vec<Op>,
    pub end: End,
}

impl TxnSpec {
    fn immediate(&self) -> bool {
        matches!(self.durability, Durability::Immediate)
    }
}

#[derive(Clone, Debug)]
pub enum Step {
    Txn(TxnSpec),
    BeginRead,
    DropReader(usize),
    DropSavepoint(usize),
    Reopen,
    CrashReopen,
    Compact,
    CheckIntegrity,
    ListPsp,
}

pub(crate) fn gen_ops(rng: &mut Rng, page: usize, n: usize) -> Vec<Op> {
    let mut v = vec![];
    for _ in 0..n {
        let t = rng.below(2) as usize;
        v.push(match rng.below(100) {
            0..=29 => Op::Insert(t, rng.below(60), *rng.pick(&[0usize, 5, 40, page / 3, page / 2 + 3, page + 20, 3 * page]), rng.below(250)),
            30..=44 => Op::Remove(t, rng.below(60)),
            45..=59 => Op::Bulk(t, rng.below(100), rng.range(5, 60), *rng.pick(&[8usize, 100, page / 2])),
            60..=69 => Op::BulkRemove(t, rng.below(100), rng.range(5, 80)),
            70..=73 => {
                let m = rng.range(2, 4);
                Op::Retain(t, m, rng.range(1, m))
            }
            74..=76 => Op::DeleteTable(t),
            77..=80 => {
                let i = rng.below(6);
                Op::BigMmInsert(rng.below(3), [page * 3 / 4, page * 3 / 8, page / 2 + 8, 40, page / 3, 0][i as usize], i)
            }
            81..=82 => {
                let i = rng.below(6);
                Op::BigMmRemove(rng.below(3), [page * 3 / 4, page * 3 / 8, page / 2 + 8, 40, page / 3, 0][i as usize], i)
            }
            83..=88 => Op::MmInsert(rng.below(5), rng.below(40), *rng.pick(&[1u64, 8, 200, 700])),
            89..=95 => Op::MmRemove(rng.below(5), rng.below(40), *rng.pick(&[1u64, 8, 150, 700])),
            _ => Op::MmRemoveAll(rng.below(5)),
        });
    }
    v
}

fn mk_empty() -> Step {
    Step::Txn(TxnSpec { durability: Durability::Immediate, two_phase: false, quick_repair: false, sp_ops: vec![], ops: vec![], end: End::Commit })
}

pub(crate) fn gen_history(rng: &mut Rng, focus: &str, thorough: bool, page: usize) -> Vec<Step> {
    let n = rng.range(8, if thorough { 60 } else { 30 }) as usize;
    let mut steps = vec![];
    // start with some data
    steps.push(Step::Txn(TxnSpec { durability: Durability::Immediate, two_phase: false, quick_repair: false, sp_ops: vec![], ops: gen_ops(rng, page, 6), end: End::Commit }));
    for _ in 0..n {
        let w = rng.below(100);
        let sp_weight = match focus {
            "c07" => 45,
            "c05" => 35,
            "c13" => 5,
            _ => 20,
        };
        let step = if w < 55 {
            let durability = if rng.chance(if focus == "c11" { 1 } else { 2 }, 5) { Durability::None } else { Durability::Immediate };
            let mut sp_ops = vec![];
            if rng.below(100) < sp_weight {
                for _ in 0..rng.range(1, if focus == "c05" { 4 } else { 2 }) {
                    sp_ops.push(match rng.below(10) {
                        0..=3 => SpOp::Ephemeral,
                        4..=5 => SpOp::Persistent,
                        6 => if focus == "c05" && rng.chance(1, 2) { SpOp::DeleteCreated } else { SpOp::DeletePersistent(rng.below(8) as usize) },
                        7..=8 => SpOp::RestoreEphemeral(rng.below(8) as usize),
                        _ => SpOp::RestorePersistent(rng.below(8) as usize),
                    });
                }
                // a savepoint created and removed again inside the transaction (explicitly, or by
                // restoring an older one) must leave nothing behind, whichever way it ends
                if focus == "c05" && rng.chance(1, 3) {
                    sp_ops = vec![SpOp::Persistent];
                    if rng.chance(1, 3) {
                        sp_ops.push(SpOp::Ephemeral);
                    }
                    sp_ops.push(match rng.below(3) {
                        0 => SpOp::RestoreEphemeral(rng.below(8) as usize),
                        1 => SpOp::RestorePersistent(rng.below(8) as usize),
                        _ => SpOp::DeleteCreated,
                    });
                }
                // creating a savepoint after a restore in the same transaction is refused (dirty)
                if let Some(pos) = sp_ops.iter().position(|o| matches!(o, SpOp::RestoreEphemeral(_) | SpOp::RestorePersistent(_))) {
                    sp_ops.truncate(pos + 1);
                }
            }
            let nops = rng.range(0, 8) as usize;
            let mut ops = gen_ops(rng, page, nops);
            let end = match rng.below(if focus == "c05" { 3 } else { 10 }) {
                0 => End::Abort,
                1 => End::Drop,
                _ => End::Commit,
            };
            if focus == "c05" && rng.chance(1, 6) {
                ops.push(Op::PanicInRetain(rng.below(2) as usize));
            }
            if focus == "c05" && rng.chance(1, 6) {
                ops.push(Op::PanicInExtractIf(rng.below(2) as usize, rng.chance(1, 2)));
            }
            let end = if (focus == "c05" || focus == "c11") && sp_ops.is_empty() && rng.chance(1, 14) { End::PanicDrop } else { end };
            Step::Txn(TxnSpec { durability, two_phase: rng.chance(1, 3), quick_repair: rng.chance(1, 4), sp_ops, ops, end })
        } else if w < 67 {
            Step::BeginRead
        } else if w < 77 {
            Step::DropReader(rng.below(8) as usize)
        } else if w < 83 {
            Step::DropSavepoint(rng.below(8) as usize)
        } else if w < 88 {
            Step::Reopen
        } else if w < 91 {
            if focus == "c11" || focus == "c06" { Step::CrashReopen } else { Step::Reopen }
        } else if w < 95 {
            if focus == "c13" || rng.chance(1, 3) { Step::Compact } else { Step::ListPsp }
        } else if w < 98 {
            Step::CheckIntegrity
        } else {
            Step::ListPsp
        };
        steps.push(step);
    }
    if (focus == "c02" || focus == "c06" || focus == "c05" || focus == "c10") && rng.chance(2, 3) {
        // life cycle of one multimap value set with large values: inline -> two leaves under a
        // branch -> back to one leaf / inline -> spilled again, one step per transaction, with a
        // reader begun in the middle (the pages a step lets go of are committed pages that older
        // snapshots still need)
        let k = 7 + rng.below(2);
        let sizes = [page * 3 / 4, page * 3 / 8, page / 2 + 8, page / 3, 40];
        let one = |rng: &mut Rng, op: Op| {
            let d = if rng.chance(1, 3) { Durability::None } else { Durability::Immediate };
            let end = if rng.chance(1, 8) { End::Abort } else { End::Commit };
            Step::Txn(TxnSpec { durability: d, two_phase: false, quick_repair: false, sp_ops: vec![], ops: vec![op], end })
        };
        let mut order: Vec<usize> = vec![0, 1, 2, 3, 4];
        for i in (1..order.len()).rev() {
            order.swap(i, rng.below(i as u64 + 1) as usize);
        }
        let mut block = vec![];
        for (n, i) in order.iter().take(3).enumerate() {
            block.push(one(rng, Op::BigMmInsert(k, sizes[*i], *i as u64)));
            if n == 1 {
                block.push(Step::BeginRead);
            }
        }
        for i in order.iter().take(3) {
            block.push(one(rng, Op::BigMmRemove(k, sizes[*i], *i as u64)));
            if rng.chance(1, 3) {
                block.push(one(rng, Op::BigMmInsert(k, sizes[order[3]], order[3] as u64)));
            }
        }
        let at = rng.below(steps.len() as u64 + 1) as usize;
        let tail = steps.split_off(at);
        steps.extend(block);
        steps.extend(tail);
    }
    if focus == "c06" || focus == "c07" || focus == "c02" {
        // savepoint families: siblings created in one transaction (they share one transaction id),
        // survivors after one of them is deleted / dropped, across reopen and crash, under churn
        let mk = |rng: &mut Rng, durability, sp_ops: Vec<SpOp>, end: End| {
            let n = rng.range(2, 7) as usize;
            Step::Txn(TxnSpec { durability, two_phase: rng.chance(1, 3), quick_repair: rng.chance(1, 4), sp_ops, ops: gen_ops(rng, page, n), end })
        };
        for _ in 0..rng.range(0, 2) {
            let kinds: Vec<SpOp> = match rng.below(4) {
                0 => vec![SpOp::Persistent, SpOp::Persistent],
                1 => vec![SpOp::Ephemeral, SpOp::Ephemeral],
                2 => vec![SpOp::Persistent, SpOp::Ephemeral],
                _ => vec![SpOp::Ephemeral, SpOp::Persistent],
            };
            let mut block = vec![mk(rng, Durability::Immediate, kinds, End::Commit)];
            if rng.chance(1, 2) {
                let d = if rng.chance(1, 2) { Durability::None } else { Durability::Immediate };
                block.push(mk(rng, d, vec![], End::Commit));
            }
            match rng.below(3) {
                0 => block.push(Step::Reopen),
                1 => block.push(if focus == "c02" { Step::Reopen } else { Step::CrashReopen }),
                _ => {}
            }
            // one sibling goes away
            if rng.chance(1, 2) {
                let which = rng.below(3) as usize;
                block.push(mk(rng, Durability::Immediate, vec![SpOp::DeletePersistent(which)], End::Commit));
            } else {
                block.push(Step::DropSavepoint(rng.below(3) as usize));
            }
            // churn that frees and reuses pages
            for _ in 0..rng.range(2, 5) {
                let d = if rng.chance(1, 3) { Durability::None } else { Durability::Immediate };
                block.push(mk(rng, d, vec![], End::Commit));
            }
            // the survivor is restored (committed or aborted)
            let restore = if rng.chance(1, 2) { SpOp::RestorePersistent(rng.below(3) as usize) } else { SpOp::RestoreEphemeral(rng.below(3) as usize) };
            let end = if rng.chance(1, 4) { End::Abort } else { End::Commit };
            block.push(mk(rng, Durability::Immediate, vec![restore], end));
            block.push(Step::CheckIntegrity);
            let at = rng.below(steps.len() as u64 + 1) as usize;
            let tail = steps.split_off(at);
            steps.extend(block);
            steps.extend(tail);
        }
    }
    if focus == "c14" {
        // grow over several regions, free most of it, shrink (compaction / close), grow again:
        // the region tracker has to follow the number of regions in both directions
        let big = |rng: &mut Rng, t: usize| Step::Txn(TxnSpec {
            durability: Durability::Immediate,
            two_phase: false,
            quick_repair: rng.chance(1, 4),
            sp_ops: vec![],
            ops: vec![Op::Bulk(t, rng.below(50), rng.range(120, 260), page / 2), Op::Bulk(1 - t, 300 + rng.below(50), rng.range(60, 160), page + 20)],
            end: End::Commit,
        });
        let clear = |rng: &mut Rng| Step::Txn(TxnSpec {
            durability: Durability::Immediate,
            two_phase: false,
            quick_repair: false,
            sp_ops: vec![],
            ops: vec![Op::DeleteTable(0), Op::BulkRemove(1, rng.below(300), 400)],
            end: End::Commit,
        });
        for _ in 0..2 {
            steps.push(big(rng, 0));
            steps.push(big(rng, 1));
            steps.push(clear(rng));
            steps.push(mk_empty());
            steps.push(mk_empty());
            steps.push(if rng.chance(1, 2) { Step::Compact } else { Step::Reopen });
            steps.push(big(rng, 0));
        }
    }
    if focus == "c11" {
        // a healthy database passes check_integrity() with Ok(true): in particular right after a
        // transaction that had grown the file was rolled back (the stored layout then lags the file
        // length), whatever kind of commit the served one was
        for _ in 0..rng.range(1, 2) {
            let strong = rng.below(3);
            let mut block = vec![Step::Txn(TxnSpec {
                durability: Durability::Immediate,
                two_phase: strong == 1,
                quick_repair: strong == 2,
                sp_ops: vec![],
                ops: if rng.chance(1, 2) { vec![] } else { gen_ops(rng, page, 2) },
                end: End::Commit,
            })];
            block.push(Step::Txn(TxnSpec {
                durability: Durability::Immediate,
                two_phase: false,
                quick_repair: false,
                sp_ops: vec![],
                ops: vec![Op::Bulk(0, 5000, rng.range(300, 700), page + 20), Op::Bulk(1, 6000, 200, page / 2)],
                end: if rng.chance(1, 2) { End::Abort } else { End::Drop },
            }));
            block.push(Step::CheckIntegrity);
            block.push(Step::CheckIntegrity);
            let at = rng.below(steps.len() as u64 + 1) as usize;
            let tail = steps.split_off(at);
            steps.extend(block);
            steps.extend(tail);
        }
        // a leak left by a caught panic must be reclaimed by the next open whatever happens in
        // between: other transactions rolled back or committed (also with quick repair, which saves
        // an allocator snapshot), clean close or crash
        for _ in 0..rng.range(0, 2) {
            let mk = |rng: &mut Rng, qr: bool, end: End| {
                let n = rng.range(1, 6) as usize;
                Step::Txn(TxnSpec { durability: Durability::Immediate, two_phase: qr, quick_repair: qr, sp_ops: vec![], ops: gen_ops(rng, page, n), end })
            };
            let mut block = vec![mk(rng, false, End::PanicDrop)];
            for _ in 0..rng.range(0, 3) {
                let end = match rng.below(3) {
                    0 => End::Abort,
                    1 => End::Drop,
                    _ => End::Commit,
                };
                let qr = rng.chance(1, 3);
                block.push(mk(rng, qr, end));
            }
            block.push(if rng.chance(1, 3) { Step::CrashReopen } else { Step::Reopen });
            block.push(Step::CheckIntegrity);
            let at = rng.below(steps.len() as u64 + 1) as usize;
            let tail = steps.split_off(at);
            steps.extend(block);
            steps.extend(tail);
        }
    }
    if focus == "c13" || focus == "c10" || focus == "c06" {
        // compaction attempts against each kind of pin, alone and on top of pending non-durable
        // commits (a pending non-durable commit pins its durable ancestor internally, which
        // must not be mistaken for - nor hide - a user's reader or savepoint on the same id)
        let mk = |rng: &mut Rng, durability, sp_ops: Vec<SpOp>| {
            let n = rng.range(1, 5) as usize;
            Step::Txn(TxnSpec { durability, two_phase: false, quick_repair: false, sp_ops, ops: gen_ops(rng, page, n), end: End::Commit })
        };
        for _ in 0..rng.range(1, 3) {
            match rng.below(5) {
                0 => {
                    // a reader on the last durable commit, then pending non-durable commits
                    steps.push(mk(rng, Durability::Immediate, vec![]));
                    steps.push(Step::BeginRead);
                    for _ in 0..rng.range(1, 3) {
                        steps.push(mk(rng, Durability::None, vec![]));
                    }
                    steps.push(Step::Compact);
                    steps.push(Step::DropReader(rng.below(8) as usize));
                }
                1 => {
                    // a reader on a non-durable snapshot
                    steps.push(mk(rng, Durability::None, vec![]));
                    steps.push(Step::BeginRead);
                    if rng.chance(1, 2) {
                        steps.push(mk(rng, Durability::None, vec![]));
                    }
                    steps.push(Step::Compact);
                }
                2 => {
                    // an ephemeral or persistent savepoint, then pending non-durable commits
                    let sp = if rng.chance(1, 2) { SpOp::Ephemeral } else { SpOp::Persistent };
                    steps.push(mk(rng, Durability::Immediate, vec![sp]));
                    for _ in 0..rng.range(0, 2) {
                        steps.push(mk(rng, Durability::None, vec![]));
                    }
                    steps.push(Step::Compact);
                }
                3 => {
                    // pending non-durable commits only: compaction must run
                    steps.push(mk(rng, Durability::Immediate, vec![]));
                    for _ in 0..rng.range(1, 3) {
                        steps.push(mk(rng, Durability::None, vec![]));
                    }
                    steps.push(Step::Compact);
                }
                _ => {
                    steps.push(Step::BeginRead);
                    steps.push(Step::Compact);
                    steps.push(Step::DropReader(0));
                    steps.push(Step::Compact);
                }
            }
        }
        // compaction of a quiescent, fragmented database
        steps.push(Step::Reopen);
        steps.push(Step::Compact);
    }
    steps
}

pub(crate) fn describe(step: &Step) -> String {
    match step {
        Step::Txn(t) => format!(
            "txn dur={} 2pc={} qr={} sp={} ops={} end={:?}",
            dur_name(t.durability),
            u8::from(t.two_phase),
            u8::from(t.quick_repair),
            t.sp_ops.iter().map(|o| format!("{o:?}")).collect::<Vec<_>>().join("+").replace(' ', ""),
            t.ops.iter().map(|o| format!("{o:?}")).collect::<Vec<_>>().join("+").replace(' ', ""),
            t.end
        ),
        other => format!("{other:?}").replace(' ', ""),
    }
}

impl World {
    pub(crate) fn run_step(&mut self, step: &Step, out: &mut Out) -> bool {
        crate::out::doing(&describe(step));
        if matches!(step, Step::Compact | Step::CheckIntegrity | Step::Reopen | Step::CrashReopen) {
            out.flush();
        }
        self.step_no += 1;
        self.step_extra.clear();
        let desc = describe(step);
        out.count(&format!("step_{}", desc.split(|c| c == ' ' || c == '(').next().unwrap()));
        let res = match step {
            Step::Txn(spec) => {
                let r = self.step_txn(spec, out);
                if spec.end == End::Commit && r == "ok" {
                    if spec.immediate() {
                        self.window.clear();
                    }
                    self.window.push((self.committed.clone(), self.psp.clone()));
                }
                r
            }
            Step::BeginRead => self.step_begin_read(out),
            Step::DropReader(k) => {
                if self.readers.is_empty() {
                    "none".into()
                } else {
                    let i = *k % self.readers.len();
                    self.step_extra = format!("rid={}", self.readers[i].id);
                    drop(self.readers.remove(i));
                    "ok".into()
                }
            }
            Step::DropSavepoint(k) => {
                if self.sps.is_empty() {
                    "none".into()
                } else {
                    let i = *k % self.sps.len();
                    self.step_extra = format!("sid={}", self.sps[i].sp.verif_info().0);
                    drop(self.sps.remove(i));
                    "ok".into()
                }
            }
            Step::Reopen => {
                let r = self.step_reopen(out);
                if r == "ok" {
                    self.window = vec![(self.committed.clone(), self.psp.clone())];
                }
                r
            }
            Step::CrashReopen => self.step_crash_reopen(out),
            Step::Compact => {
                let r = self.step_compact(out);
                if r.starts_with("ok") {
                    // compaction commits durably
                    self.window = vec![(self.committed.clone(), self.psp.clone())];
                }
                r
            }
            Step::CheckIntegrity => {
                let r = self.step_check_integrity(out);
                if r.starts_with("ok") {
                    // a pending non-durable commit is promoted by check_integrity
                    self.window = vec![(self.committed.clone(), self.psp.clone())];
                }
                r
            }
            Step::ListPsp => {
                self.step_list_psp(out);
                "ok".into()
            }
        };
        let extra = if self.step_extra.is_empty() { String::new() } else { format!(" {}", self.step_extra) };
        out.line(&format!("hist step {desc} => {res}{extra}"));
        if self.db.is_none() {
            return false;
        }
        self.check_committed_contents(out, &desc);
        self.check_pinned_contents(out, &desc);
        // C10: the image after compaction passes (pages relocated, catalog entries restaged), after
        // reopen and after some ordinary durable commits goes to the Lean format checker
        if self.focus == "c10" && !self.leaky {
            let durable_commit = matches!(step, Step::Txn(t) if t.immediate() && t.end == End::Commit && res == "ok");
            let take = match step {
                Step::Compact => res.starts_with("ok"),
                Step::Reopen | Step::CrashReopen => true,
                _ => durable_commit && self.step_no % 3 == 0,
            };
            if take && self.db().verif_snapshot().mem.latest_transaction_id == self.db().verif_snapshot().mem.durable_transaction_id {
                let path = crate::image::save("hist", &self.backend.snapshot());
                out.count("images");
                out.line(&format!("img check {path} {} commit {}", self.cfg.page, self.committed.tablespecs()));
            }
        }
        if self.probe_due && self.db.is_some() {
            // (before the state of this step is shown: the models see the commit, then the probe)
        }
        if self.leaky {
            if matches!(step, Step::Reopen | Step::CrashReopen) || (matches!(step, Step::CheckIntegrity) && res.starts_with("ok")) {
                // the allocator state has been rebuilt: exact accounting holds again; the Lean
                // monitors restart here (the states in between were not shown to them)
                self.leaky = false;
                out.line("hist relax");
                self.check_state(out, &desc);
            } else {
                self.check_leak_after_panic(out, &desc);
            }
        } else {
            self.check_state(out, &desc);
        }
        if self.probe_due {
            self.probe_due = false;
            self.probe_dead_savepoints(out);
        }
        true
    }

    /// C07: "makes savepoints created after it unusable". In an otherwise empty write transaction
    /// every savepoint that the restore just committed has invalidated is offered to
    /// restore_savepoint(), which must refuse it; the transaction is aborted and the handles dropped.
    fn probe_dead_savepoints(&mut self, out: &mut Out) {
        let dead = std::mem::take(&mut self.dead_sps);
        let mut res = "ok".to_string();
        match self.db().begin_write() {
            Ok(mut txn) => {
                for d in &dead {
                    let (sid, _, _, _) = d.sp.verif_info();
                    match txn.restore_savepoint(&d.sp) {
                        Err(redb::SavepointError::InvalidSavepoint) => {}
                        Ok(()) => {
                            out.oracle_fail(format!("savepoint-still-valid|savepoint {sid} was created after a savepoint that has been restored (and the restore committed), yet restore_savepoint() accepts it"));
                            res = "accepted".into();
                        }
                        Err(e) => out.oracle_fail(format!("savepoint-probe|restore_savepoint() of the invalidated savepoint {sid} failed with {e:?} instead of InvalidSavepoint")),
                    }
                }
                let _ = txn.abort();
            }
            Err(e) => res = format!("err:begin:{}", crate::table::err_tag(e)),
        }
        drop(dead);
        out.line(&format!("hist step ProbeDead => {res}"));
        out.count("dead_savepoint_probes");
        if !self.leaky {
            self.check_state(out, "ProbeDead");
        }
    }

    /// While the leak of a panic-dropped transaction is outstanding only this is evaluated: C05
    /// says that no storage space remains consumed by abandoned work
    fn check_leak_after_panic(&mut self, out: &mut Out, after: &str) {
        let snap = self.db().verif_snapshot();
        if snap.tracker.live_write_transaction.is_some() || !snap.mem.allocators_loaded {
            return;
        }
        if let Ok(ps) = self.page_state(&snap) {
            let mut owned: BTreeSet<u64> = ps.data.iter().chain(ps.sys.iter()).copied().collect();
            for v in ps.dfreed.values().chain(ps.sfreed.values()) {
                owned.extend(v.iter().copied());
            }
            let leaked = ps.alloc.iter().filter(|p| !owned.contains(p)).count();
            out.count("states_with_outstanding_panic_leak");
            if leaked > 0 && self.focus == "c05" && after.contains("end=PanicDrop") {
                out.oracle_fail(format!("page-leak-after-panic-drop|after {after}: {leaked} pages stay allocated without an owner after a write transaction was dropped by a caught panic (they are reclaimed when the database is next opened)"));
            }
        }
    }
}

pub fn run_history(steps: &[Step], cfg: Cfg, focus: &str, out: &mut Out) -> bool {
    let mut w = World::new(cfg, focus);
    out.line(&format!("hist cfg {} {} {}", w.cfg.page, w.cfg.region, w.cfg.cache));
    let mut ok = true;
    let mut i = 0;
    let r = catch_unwind(AssertUnwindSafe(|| {
        w.check_state(out, "create");
        for (n, s) in steps.iter().enumerate() {
            i = n;
            if !w.run_step(s, out) {
                return false;
            }
        }
        true
    }));
    match r {
        Ok(b) => ok &= b,
        Err(p) => {
            let msg = p.downcast_ref::<String>().cloned().or_else(|| p.downcast_ref::<&str>().map(|s| s.to_string())).unwrap_or_default();
            out.oracle_fail(format!("history-panic|panic at step {i} ({}): {}", steps.get(i).map(describe).unwrap_or_default(), msg.lines().next().unwrap_or("")));
            ok = false;
        }
    }
    // quiescence: no readers, no savepoints, two drain commits: every pending-free record is gone
    if ok && w.db.is_some() && !w.leaky {
        let r = catch_unwind(AssertUnwindSafe(|| {
            // every sub-step is reported with its own state line, so that the algorithmic model
            // (`Redb.Life2`) can follow the drain commit by commit
            w.readers.clear();
            w.sps.clear();
            out.line("hist step quiesce-drop => ok");
            w.check_state(out, "quiesce-drop");
            if !w.psp.is_empty() {
                let txn = w.db().begin_write().unwrap();
                let mut spx = vec![];
                for id in w.psp.keys() {
                    txn.delete_persistent_savepoint(*id).unwrap();
                    spx.push(format!("d{id}"));
                }
                txn.commit().unwrap();
                w.psp.clear();
                out.line(&format!("hist step txn dur=imm 2pc=0 qr=0 sp=DeleteAll ops= end=Commit => ok spx={}", spx.join(",")));
                w.check_state(out, "quiesce-delete");
            }
            for _ in 0..3 {
                let txn = w.db().begin_write().unwrap();
                txn.commit().unwrap();
                out.line("hist step txn dur=imm 2pc=0 qr=0 sp= ops= end=Commit => ok spx=-");
                w.check_state(out, "quiesce-commit");
            }
            let snap = w.db().verif_snapshot();
            if let Ok(ps) = w.page_state(&snap) {
                let pending: usize = ps.dfreed.values().chain(ps.sfreed.values()).map(Vec::len).sum();
                if pending != 0 {
                    out.oracle_fail(format!("not-returned-to-level|after dropping every reader and savepoint and three empty durable commits {pending} pages are still held by pending-free records"));
                }
                if ps.alloc.len() != ps.data.len() + ps.sys.len() {
                    out.oracle_fail(format!("not-returned-to-level|allocated {} pages but the trees need {}", ps.alloc.len(), ps.data.len() + ps.sys.len()));
                }
            }
            out.line("hist step quiesce => ok");
            w.check_committed_contents(out, "quiesce");
            w.check_state(out, "quiesce");
        }));
        if r.is_err() {
            out.oracle_fail("history-panic|panic while quiescing".into());
            ok = false;
        }
    }
    // closing the database is part of the history: a panic there is reported, not fatal
    let backend = w.backend.clone();
    if let Err(p) = catch_unwind(AssertUnwindSafe(move || drop(w))) {
        let msg = p.downcast_ref::<String>().cloned().or_else(|| p.downcast_ref::<&str>().map(|s| s.to_string())).unwrap_or_default();
        out.oracle_fail(format!("history-panic|panic while dropping readers, savepoints and the Database at the end of the history: {}", msg.lines().next().unwrap_or("")));
        ok = false;
    }
    for x in backend.mon.contract_violations.lock().unwrap().iter() {
        out.oracle_fail(format!("backend-contract|{x}"));
    }
    ok
}

pub fn run(args: &Args) {
    let mut out = Out::new(&args.out);
    let focus = args.extra.iter().position(|a| a == "--focus").and_then(|i| args.extra.get(i + 1)).cloned().unwrap_or_else(|| "c06".to_string());
    let mut rng = Rng::new(args.seed ^ fnv64(&[focus.as_bytes()]));
    out.comment(&format!("history focus={focus} seed={} thorough={}", args.seed, args.thorough));
    // C14's region-level stream is judged by the allocator / tracker oracles alone; C10's stream
    // is about the images
    out.mute_hist = focus == "c14" || focus == "c10";
    let n = if args.thorough { 600 } else { 120 };
    let only: Option<usize> = args.extra.iter().position(|a| a == "--only-case").and_then(|i| args.extra.get(i + 1)).and_then(|x| x.parse().ok());
    for case_index in 0..n {
        let mut r = rng.fork();
        if only.is_some_and(|o| o != case_index + 1) {
            continue;
        }
        // focus c14: many small regions, so that the file grows and shrinks across region boundaries
        let page = if focus == "c14" { *r.pick(&[512usize, 1024]) } else { *r.pick(&[512usize, 512, 1024, 4096]) };
        let region = if focus == "c14" { 65536u64 } else { *r.pick(&[65536u64, 65536, 1 << 20, 0]) };
        let region = if region != 0 { region.max(page as u64 * 64) } else { 0 };
        // focus c11 and c14: every seventh case uses regions of eight pages and grows well beyond 256 of
        // them (region numbers of more than one byte in the saved allocator state); such states
        // are too large for the list-based Lean monitors, the harness oracles judge them alone
        let many_regions = (focus == "c11" || focus == "c14") && case_index % 7 == 3;
        let (page, region) = if many_regions { (1024usize, 8192u64) } else { (page, region) };
        out.mute_hist = focus == "c14" || focus == "c10" || many_regions;
        let cfg = Cfg { page, region, cache: *r.pick(&[0usize, 65536, 1 << 30]) };
        let mut steps = gen_history(&mut r, &focus, args.thorough, page);
        if many_regions {
            // grow to several hundred regions with unequal allocation states, save a snapshot both
            // ways (quick-repair commit, clean close), reopen through it and keep writing
            let bulk = |t: usize, start: u64, count: u64, len: usize, qr: bool| Step::Txn(TxnSpec {
                durability: Durability::Immediate,
                two_phase: qr,
                quick_repair: qr,
                sp_ops: vec![],
                ops: vec![Op::Bulk(t, start, count, len)],
                end: End::Commit,
            });
            let mut block = vec![bulk(0, 10_000, 900, 1500, false), bulk(1, 20_000, 700, 2500, false)];
            block.push(Step::Txn(TxnSpec { durability: Durability::Immediate, two_phase: false, quick_repair: false, sp_ops: vec![], ops: vec![Op::BulkRemove(0, 10_000 + r.below(300), 250), Op::BulkRemove(1, 20_000 + r.below(300), 150)], end: End::Commit }));
            block.push(bulk(0, 30_000, 40, 700, true));
            block.push(if r.chance(1, 2) { Step::CrashReopen } else { Step::Reopen });
            block.push(Step::CheckIntegrity);
            block.push(bulk(1, 40_000, 300, 1200, false));
            block.push(Step::Reopen);
            block.push(Step::CheckIntegrity);
            block.push(bulk(0, 50_000, 100, 3000, false));
            let at = r.below(steps.len() as u64 / 2 + 1) as usize;
            let tail = steps.split_off(at);
            steps.extend(block);
            steps.extend(tail);
        }
        out.begin_case(&format!("history focus={focus} page={page} region={region} cache={} steps={}", cfg.cache, steps.len()));
        let ok = run_history(&steps, cfg, &focus, &mut out);
        out.end_case(ok);
        out.count("histories");
    }
    out.finish(&args.summary, &[("focus", crate::out::json_str(&focus))]);
}
