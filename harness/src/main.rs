mod alloc;
mod backend;
mod compat;
mod catalog;
mod contract;
mod corrupt;
mod crash;
mod fault;
mod history;
mod image;
mod mm;
mod mt;
mod out;
mod pure;
mod rng;
mod sched;
mod table;
mod xxh;

pub struct Args {
    pub cmd: String,
    pub seed: u64,
    pub thorough: bool,
    pub out: String,
    pub summary: String,
    pub replay: Option<String>,
    pub extra: Vec<String>,
}

fn parse_args() -> Args {
    let mut it = std::env::args().skip(1);
    let cmd = it.next().unwrap_or_else(|| {
        eprintln!("usage: vh <cmd> --seed N --tier quick|thorough --out ops --summary json [--replay f]");
        std::process::exit(2)
    });
    let mut a = Args { cmd, seed: 1, thorough: false, out: "ops.txt".into(), summary: "summary.json".into(), replay: None, extra: vec![] };
    while let Some(x) = it.next() {
        match x.as_str() {
            "--seed" => a.seed = it.next().unwrap().parse().unwrap(),
            "--tier" => a.thorough = it.next().unwrap() == "thorough",
            "--out" => a.out = it.next().unwrap(),
            "--summary" => a.summary = it.next().unwrap(),
            "--replay" => a.replay = Some(it.next().unwrap()),
            other => a.extra.push(other.to_string()),
        }
    }
    a
}

fn main() {
    let args = parse_args();
    let limit = std::env::var("VERIF_HANG_SECS").ok().and_then(|x| x.parse().ok()).unwrap_or(if args.thorough { 900 } else { 240 });
    out::start_watchdog(limit);
    match args.cmd.as_str() {
        "alloc" => alloc::run(&args),
        "pure" => pure::run(&args),
        "table" => table::run(&args),
        "xxh" => xxh::run(&args),
        "mm" => mm::run(&args),
        "history" => history::run(&args),
        "crash" => crash::run(&args),
        "fault" => fault::run(&args),
        "contract" => contract::run(&args),
        "catalog" => catalog::run(&args),
        "compat" => compat::run(&args),
        "corrupt" => corrupt::run(&args),
        "sched" => sched::run(&args),
        "mt" => mt::run(&args),
        other => {
            eprintln!("unknown command {other}");
            std::process::exit(2);
        }
    }
}
