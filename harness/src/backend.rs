//! In-memory storage backend shared by all database-level harnesses. The bytes survive the
//! backend instance (for reopen and crash images); every instance monitors the backend contract
//! of property C20 (bounds, close count, calls after close), can record the mutation stream
//! (C01) and can inject failures at the k-th call (C08).
use redb::StorageBackend;
use std::sync::atomic::{AtomicBool, AtomicU64, Ordering};
use std::sync::{Arc, Mutex};

#[derive(Clone, Debug)]
pub enum Ev {
    Write { off: u64, data: Vec<u8> },
    SetLen(u64),
    Sync,
    Close,
    Marker(String),
}

#[derive(Debug, Default)]
pub struct Monitor {
    pub calls: AtomicU64,
    pub reads: AtomicU64,
    pub writes: AtomicU64,
    pub syncs: AtomicU64,
    pub set_lens: AtomicU64,
    pub lens: AtomicU64,
    pub closes: AtomicU64,
    pub contract_violations: Mutex<Vec<String>>,
    /// fail the call with this 1-based index (0 = never)
    pub fail_at: AtomicU64,
    /// true: every call from `fail_at` on fails; false: only that one
    pub fail_permanent: AtomicBool,
    pub failed_calls: AtomicU64,
    /// close() itself reports an error (it is still a close: it must not be repeated)
    pub fail_close: AtomicBool,
    pub record: AtomicBool,
    pub log: Mutex<Vec<Ev>>,
    pub read_only: AtomicBool,
    /// when set, every call (also reads and len) is appended to `call_log` as a compact token
    pub record_calls: AtomicBool,
    pub call_log: Mutex<Vec<String>>,
}

#[derive(Debug, Clone)]
pub struct MemBackend {
    pub data: Arc<Mutex<Vec<u8>>>,
    pub mon: Arc<Monitor>,
}

impl MemBackend {
    pub fn new(data: Arc<Mutex<Vec<u8>>>) -> Self {
        MemBackend { data, mon: Arc::new(Monitor::default()) }
    }
    pub fn fresh() -> Self {
        Self::new(Arc::new(Mutex::new(vec![])))
    }
    pub fn snapshot(&self) -> Vec<u8> {
        self.data.lock().unwrap().clone()
    }
    fn violation(&self, s: String) {
        let mut v = self.mon.contract_violations.lock().unwrap();
        if v.len() < 20 {
            v.push(s);
        }
    }
    /// common entry: call counting, after-close detection, fault injection
    fn enter(&self, what: &str) -> Result<(), std::io::Error> {
        let n = self.mon.calls.fetch_add(1, Ordering::SeqCst) + 1;
        if self.mon.record_calls.load(Ordering::Relaxed) {
            self.mon.call_log.lock().unwrap().push(what.to_string());
        }
        if self.mon.closes.load(Ordering::SeqCst) > 0 {
            self.violation(format!("call-after-close|{what} (call #{n}) after close()"));
        }
        let k = self.mon.fail_at.load(Ordering::SeqCst);
        if k != 0 && (n == k || (n > k && self.mon.fail_permanent.load(Ordering::SeqCst))) {
            self.mon.failed_calls.fetch_add(1, Ordering::SeqCst);
            return Err(std::io::Error::other(format!("injected failure at backend call #{n} ({what})")));
        }
        Ok(())
    }
    pub fn mark(&self, s: &str) {
        if self.mon.record.load(Ordering::SeqCst) {
            self.mon.log.lock().unwrap().push(Ev::Marker(s.to_string()));
        }
    }
}

impl StorageBackend for MemBackend {
    fn len(&self) -> Result<u64, std::io::Error> {
        self.mon.lens.fetch_add(1, Ordering::Relaxed);
        self.enter("len")?;
        Ok(self.data.lock().unwrap().len() as u64)
    }

    fn read(&self, offset: u64, out: &mut [u8]) -> Result<(), std::io::Error> {
        self.mon.reads.fetch_add(1, Ordering::Relaxed);
        self.enter(&format!("read:{offset}:{}", out.len()))?;
        let d = self.data.lock().unwrap();
        let end = offset as usize + out.len();
        if end > d.len() {
            drop(d);
            self.violation(format!("out-of-bounds|read [{offset}, {end}) beyond length"));
            return Err(std::io::Error::new(std::io::ErrorKind::InvalidInput, "read out of range"));
        }
        out.copy_from_slice(&d[offset as usize..end]);
        Ok(())
    }

    fn set_len(&self, len: u64) -> Result<(), std::io::Error> {
        self.mon.set_lens.fetch_add(1, Ordering::Relaxed);
        if self.mon.read_only.load(Ordering::SeqCst) {
            self.violation(format!("readonly-mutation|set_len({len}) on a read-only database"));
        }
        self.enter(&format!("setlen:{len}"))?;
        let mut d = self.data.lock().unwrap();
        d.resize(len as usize, 0);
        if self.mon.record.load(Ordering::SeqCst) {
            self.mon.log.lock().unwrap().push(Ev::SetLen(len));
        }
        Ok(())
    }

    fn sync_data(&self) -> Result<(), std::io::Error> {
        self.mon.syncs.fetch_add(1, Ordering::Relaxed);
        if self.mon.read_only.load(Ordering::SeqCst) {
            self.violation("readonly-mutation|sync_data() on a read-only database".to_string());
        }
        self.enter("sync_data")?;
        if self.mon.record.load(Ordering::SeqCst) {
            self.mon.log.lock().unwrap().push(Ev::Sync);
        }
        Ok(())
    }

    fn write(&self, offset: u64, data: &[u8]) -> Result<(), std::io::Error> {
        self.mon.writes.fetch_add(1, Ordering::Relaxed);
        if self.mon.read_only.load(Ordering::SeqCst) {
            self.violation(format!("readonly-mutation|write({offset}, {} bytes) on a read-only database", data.len()));
        }
        self.enter(&format!("write:{offset}:{}", data.len()))?;
        let mut d = self.data.lock().unwrap();
        let end = offset as usize + data.len();
        if end > d.len() {
            drop(d);
            self.violation(format!("out-of-bounds|write [{offset}, {end}) beyond length"));
            return Err(std::io::Error::new(std::io::ErrorKind::InvalidInput, "write out of range"));
        }
        d[offset as usize..end].copy_from_slice(data);
        if self.mon.record.load(Ordering::SeqCst) {
            self.mon.log.lock().unwrap().push(Ev::Write { off: offset, data: data.to_vec() });
        }
        Ok(())
    }

    fn close(&self) -> Result<(), std::io::Error> {
        let c = self.mon.closes.fetch_add(1, Ordering::SeqCst) + 1;
        if self.mon.record_calls.load(Ordering::Relaxed) {
            self.mon.call_log.lock().unwrap().push("close".to_string());
        }
        if c > 1 {
            self.violation(format!("double-close|close() called {c} times on one backend"));
        }
        if self.mon.record.load(Ordering::SeqCst) {
            self.mon.log.lock().unwrap().push(Ev::Close);
        }
        if self.mon.fail_close.load(Ordering::SeqCst) {
            return Err(std::io::Error::other("injected failure of close()"));
        }
        Ok(())
    }
}
