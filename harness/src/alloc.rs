//! C14: drives the real `BuddyAllocator` (through the `redb::verif` hook) with generated
//! programs, records what it answered, and evaluates the property's own predicate
//! (disjointness, in-range, refusal only when no aligned free block exists, merge order,
//! record_alloc verdict) directly on the implementation, without the model.
use crate::out::{hex, Out};
use crate::rng::Rng;
use crate::Args;
use redb::verif::VerifBuddy;

pub struct Sim {
    real: Option<VerifBuddy>,
    cap: u32,
    /// order-0 pages held by the client
    held: Vec<bool>,
    live: Vec<(u32, u8)>,
    /// successful allocations so far (a case without any is trivial)
    allocs: u64,
}

fn block_pages(i: u32, o: u8) -> std::ops::Range<usize> {
    ((i as usize) << o)..(((i as usize) + 1) << o)
}

impl Sim {
    pub fn new() -> Self {
        Sim { real: None, cap: 0, held: vec![], live: vec![], allocs: 0 }
    }
    fn len(&self) -> u32 {
        self.real.as_ref().map_or(0, |r| r.len())
    }
    fn max_order(&self) -> u8 {
        self.real.as_ref().map_or(0, |r| r.max_order())
    }
    fn block_free(&self, i: u32, o: u8) -> bool {
        let r = block_pages(i, o);
        r.end <= self.len() as usize && self.held[r].iter().all(|h| !*h)
    }
    fn exists_free_block(&self, o: u8) -> Option<u32> {
        if o > self.max_order() {
            return None;
        }
        let n = self.len() >> o;
        (0..n).find(|i| self.block_free(*i, o))
    }
    /// the order of the largest aligned, in-range, wholly free block (≤ max order) containing (i, o)
    fn merged_order(&self, i: u32, o: u8) -> u8 {
        let mut best = o;
        let mut idx = i;
        let mut ord = o;
        while ord < self.max_order() {
            idx /= 2;
            ord += 1;
            if self.block_free(idx, ord) {
                best = ord;
            } else {
                break;
            }
        }
        best
    }

    /// Executes one request on the implementation and returns what it observed (the text after
    /// "=>"), or None for requests without an observed part. Oracle failures go to `out`.
    pub fn exec(&mut self, req: &[&str], out: &mut Out) -> Option<String> {
        match req {
            ["new", n, c] => {
                let n: u32 = n.parse().unwrap();
                let c: u32 = c.parse().unwrap();
                self.real = Some(VerifBuddy::new(n, c));
                self.cap = c;
                self.held = vec![false; c as usize];
                self.live.clear();
                None
            }
            ["alloc", o] | ["lowest", o] => {
                let o: u8 = o.parse().unwrap();
                let lowest = req[0] == "lowest";
                let expect_lowest = self.exists_free_block(o);
                let r = if lowest { self.real.as_mut().unwrap().alloc_lowest(o) } else { self.real.as_mut().unwrap().alloc(o) };
                match r {
                    Some(i) => {
                        if !self.block_free(i, o) {
                            out.oracle_fail(format!("{} {o} returned block {i} which is out of range or overlaps a live block (len {})", req[0], self.len()));
                        }
                        if lowest && expect_lowest != Some(i) {
                            out.oracle_fail(format!("lowest {o} returned {i}, lowest free aligned block is {expect_lowest:?}"));
                        }
                        for p in block_pages(i, o) {
                            if p < self.held.len() {
                                self.held[p] = true;
                            }
                        }
                        self.live.push((i, o));
                        self.allocs += 1;
                        Some(i.to_string())
                    }
                    None => {
                        if let Some(i) = expect_lowest {
                            out.oracle_fail(format!("{} {o} refused although aligned block {i} is entirely free", req[0]));
                        }
                        Some("none".into())
                    }
                }
            }
            ["free", p, o] => {
                let p: u32 = p.parse().unwrap();
                let o: u8 = o.parse().unwrap();
                let k = self.live.iter().position(|x| *x == (p, o)).expect("free of a block that is not live (generator bug)");
                self.live.swap_remove(k);
                for q in block_pages(p, o) {
                    self.held[q] = false;
                }
                let expect = self.merged_order(p, o);
                let got = self.real.as_mut().unwrap().free(p, o);
                if got != expect {
                    out.oracle_fail(format!("free {p} {o} merged to order {got}, neighbours allow {expect}"));
                }
                Some(got.to_string())
            }
            ["record", p, o] => {
                let p: u32 = p.parse().unwrap();
                let o: u8 = o.parse().unwrap();
                let ok_expected = o <= self.max_order() && self.block_free(p, o);
                let got = self.real.as_mut().unwrap().record_alloc(p, o);
                if got != ok_expected {
                    out.oracle_fail(format!("record_alloc {p} {o} returned {got}, expected {ok_expected}"));
                }
                if got {
                    for q in block_pages(p, o) {
                        if q < self.held.len() {
                            self.held[q] = true;
                        }
                    }
                    self.live.push((p, o));
                }
                Some(if got { "1" } else { "0" }.into())
            }
            ["resize", n] => {
                let n: u32 = n.parse().unwrap();
                self.real.as_mut().unwrap().resize(n);
                None
            }
            ["stat"] => {
                let r = self.real.as_ref().unwrap();
                let held = self.held[..r.len() as usize].iter().filter(|h| **h).count() as u32;
                if r.count_free_pages() != r.len() - held {
                    out.oracle_fail(format!("count_free_pages {} but {} of {} pages are held", r.count_free_pages(), held, r.len()));
                }
                let mut trailing = 0;
                for p in (0..r.len() as usize).rev() {
                    if self.held[p] {
                        break;
                    }
                    trailing += 1;
                }
                if r.trailing_free_pages() != trailing {
                    out.oracle_fail(format!("trailing_free_pages {} expected {}", r.trailing_free_pages(), trailing));
                }
                Some(format!(
                    "{} {} {} {}",
                    r.len(),
                    r.count_free_pages(),
                    r.trailing_free_pages(),
                    r.highest_free_order().map_or("none".to_string(), |x| x.to_string())
                ))
            }
            ["bytes"] => Some(hex(&self.real.as_ref().unwrap().to_vec())),
            ["reload"] => {
                let v = self.real.as_ref().unwrap().to_vec();
                self.real = Some(VerifBuddy::from_bytes(&v));
                None
            }
            _ => panic!("unknown alloc request {req:?}"),
        }
    }

    pub fn step(&mut self, req: String, out: &mut Out) {
        let toks: Vec<&str> = req.split(' ').collect();
        out.count(&format!("op_{}", toks[0]));
        let obs = self.exec(&toks, out);
        match obs {
            Some(o) => out.line(&format!("buddy {req} => {o}")),
            None => out.line(&format!("buddy {req}")),
        }
    }

    fn max_live_end(&self) -> u32 {
        self.live.iter().map(|(i, o)| (i + 1) << o).max().unwrap_or(0)
    }
}

/// one random request that respects the client contract of the allocator
fn random_request(s: &Sim, rng: &mut Rng) -> String {
    let mo = s.max_order() as u64;
    loop {
        match rng.below(100) {
            0..=34 => {
                let o = if rng.chance(3, 5) { 0 } else { rng.below(mo + 2) };
                return format!("alloc {o}");
            }
            35..=49 => {
                let o = if rng.chance(1, 2) { 0 } else { rng.below(mo + 2) };
                return format!("lowest {o}");
            }
            50..=79 => {
                if s.live.is_empty() {
                    continue;
                }
                let (p, o) = *rng.pick(&s.live);
                return format!("free {p} {o}");
            }
            80..=87 => {
                // record_alloc: valid and malformed (duplicate, overlap, out of range, oversized order)
                let o = rng.below(mo + 3);
                let n = (s.len() as u64 >> o.min(31)).max(1);
                let p = if rng.chance(1, 8) { n + rng.below(3) } else { rng.below(n) };
                return format!("record {p} {o}");
            }
            88..=93 => {
                // resize: never below a live block (the Rust code asserts that)
                let lo = s.max_live_end().max(1) as u64;
                let hi = s.cap as u64;
                let n = match rng.below(4) {
                    0 => lo,
                    1 => hi,
                    2 => (s.len() as u64 + rng.below(3)).clamp(lo, hi),
                    _ => rng.range(lo, hi),
                };
                return format!("resize {n}");
            }
            94..=96 => return "stat".into(),
            97 => return "bytes".into(),
            _ => return "reload".into(),
        }
    }
}

fn random_program(rng: &mut Rng, out: &mut Out, nops: usize, caps: &[u32]) {
    let cap = *rng.pick(caps);
    let n = match rng.below(4) {
        0 => cap,
        1 => 1.max(cap / 2),
        _ => rng.range(1, cap as u64) as u32,
    };
    let mut s = Sim::new();
    out.begin_case(&format!("random cap={cap} n={n} ops={nops}"));
    s.step(format!("new {n} {cap}"), out);
    out.count(&format!("cap_class_{}", if cap <= 9 { "1-9" } else if cap <= 70 { "10-70" } else if cap <= 129 { "127-129" } else { "large" }));
    for k in 0..nops {
        let r = random_request(&s, rng);
        s.step(r, out);
        if k % 16 == 15 {
            s.step("stat".into(), out);
        }
    }
    s.step("stat".into(), out);
    s.step("bytes".into(), out);
    out.end_case(s.allocs > 0);
    out.count("programs");
}

/// every op sequence of length `depth` over a small alphabet
fn exhaustive(out: &mut Out, max_cap: u32, depth: usize) {
    fn alphabet(s: &Sim) -> Vec<String> {
        let mut v = vec!["alloc 0".to_string(), "alloc 1".into(), "lowest 0".into(), "lowest 1".into()];
        for (p, o) in s.live.iter().take(3) {
            v.push(format!("free {p} {o}"));
        }
        if s.len() < s.cap {
            v.push(format!("resize {}", s.len() + 1));
        }
        if s.len() > 1 && s.max_live_end() < s.len() {
            v.push(format!("resize {}", s.len() - 1));
        }
        if let Some(p) = (0..s.len()).find(|p| !s.held[*p as usize]) {
            v.push(format!("record {p} 0"));
        }
        v.push("reload".into());
        v
    }
    fn rec(prefix: &mut Vec<String>, n: u32, cap: u32, depth: usize, out: &mut Out) {
        // replay the prefix to obtain the state (cheap: tiny allocators)
        let mut scratch = Out::new("/dev/null");
        let mut s = Sim::new();
        s.step(format!("new {n} {cap}"), &mut scratch);
        for r in prefix.iter() {
            s.step(r.clone(), &mut scratch);
        }
        if prefix.len() == depth {
            // emit the whole sequence once, with a state comparison at the end
            let mut s2 = Sim::new();
            out.begin_case(&format!("exhaustive cap={cap} n={n}"));
            s2.step(format!("new {n} {cap}"), out);
            for r in prefix.iter() {
                s2.step(r.clone(), out);
            }
            s2.step("stat".into(), out);
            s2.step("bytes".into(), out);
            out.end_case(s2.allocs > 0);
            out.count("exhaustive_sequences");
            return;
        }
        for a in alphabet(&s) {
            prefix.push(a);
            rec(prefix, n, cap, depth, out);
            prefix.pop();
        }
    }
    for cap in 1..=max_cap {
        for n in 1..=cap {
            rec(&mut vec![], n, cap, depth, out);
        }
    }
}

pub fn run(args: &Args) {
    let mut out = Out::new(&args.out);
    if let Some(path) = &args.replay {
        let text = std::fs::read_to_string(path).expect("read replay");
        let mut s = Sim::new();
        out.begin_case("replay");
        for line in text.lines() {
            let line = line.trim();
            if line.is_empty() || line.starts_with('#') {
                continue;
            }
            let req = line.split(" => ").next().unwrap();
            if let Some(r) = req.strip_prefix("buddy ") {
                s.step(r.to_string(), &mut out);
            }
        }
        out.end_case(true);
        out.finish(&args.summary, &[]);
        return;
    }
    let mut rng = Rng::new(args.seed);
    let (depth, max_cap, programs, nops) = if args.thorough { (5, 7, 3000, 1500) } else { (4, 6, 150, 400) };
    out.comment(&format!("C14 alloc seed={} thorough={}", args.seed, args.thorough));
    exhaustive(&mut out, max_cap, depth);
    let small: Vec<u32> = (1..=70).collect();
    let edge = [127u32, 128, 129, 191, 255, 256, 257, 1000, 4095, 4096];
    for k in 0..programs {
        match k % 4 {
            0 | 1 => random_program(&mut rng, &mut out, nops, &small),
            2 => random_program(&mut rng, &mut out, nops, &edge),
            _ => random_program(&mut rng, &mut out, nops / 2, &[1 << 14, (1 << 14) + 1, 20000]),
        }
    }
    out.finish(&args.summary, &[("exhaustive_depth", depth.to_string()), ("exhaustive_max_cap", max_cap.to_string())]);
}
