//! C04: a table behaves as an ordered map. Generated programs over three key families are run
//! against the real `Table` API (all mutators and readers of the property statement, several
//! transactions, abort, reopen, page/region/cache configurations). Every answer is written for
//! the Lean spec model; the same program is interpreted by a sorted-vector oracle ordered by the
//! implementation's own `Key::compare`, which is the implementation-only evaluation of the
//! property (S).
use crate::backend::MemBackend;
use crate::out::{hex, unhex, Out};
use crate::rng::Rng;
use crate::Args;
use redb::{Builder, Database, Key, ReadableDatabase, ReadableTable, ReadableTableMetadata, TableDefinition, Value};
use std::cmp::Ordering;
use std::ops::Bound;
use std::panic::{catch_unwind, AssertUnwindSafe};

pub fn fnv64(parts: &[&[u8]]) -> u64 {
    let mut h: u64 = 0xcbf2_9ce4_8422_2325;
    for p in parts {
        for b in *p {
            h ^= u64::from(*b);
            h = h.wrapping_mul(0x0000_0100_0000_01b3);
        }
    }
    h
}

/// canonical short text of a byte string: hex when short, length + hash otherwise
pub fn repr(b: &[u8]) -> String {
    if b.len() <= 24 {
        hex(b)
    } else {
        format!("L{}H{:016x}", b.len(), fnv64(&[b]))
    }
}

/// request token of a byte string: hex, or a pattern `p<len>x<seed>` (byte i = (i*31+seed) & 0xff)
pub fn expand(tok: &str) -> Vec<u8> {
    if let Some(rest) = tok.strip_prefix('p') {
        let (len, seed) = rest.split_once('x').unwrap();
        let len: usize = len.parse().unwrap();
        let seed: usize = seed.parse().unwrap();
        (0..len).map(|i| ((i * 31 + seed) & 0xff) as u8).collect()
    } else {
        unhex(tok)
    }
}

pub fn pred(k: &[u8], v: &[u8], m: u64, r: u64) -> bool {
    fnv64(&[k, v]) % m < r
}

pub trait Fam {
    type K: Key + 'static;
    const DESC: &'static str;
    fn key<'a>(enc: &'a [u8]) -> <Self::K as Value>::SelfType<'a>;
    fn gen_key(rng: &mut Rng, page: usize) -> Vec<u8>;
    /// the i-th of a family of long keys (about `len` bytes) that share a long common prefix, in
    /// key order; None for key types that cannot be long
    fn long_key(_i: u64, _len: usize) -> Option<Vec<u8>> {
        None
    }
}

pub struct FamU64;
impl Fam for FamU64 {
    type K = u64;
    const DESC: &'static str = "u64";
    fn key<'a>(enc: &'a [u8]) -> u64 {
        u64::from_le_bytes(enc.try_into().unwrap())
    }
    fn gen_key(rng: &mut Rng, _page: usize) -> Vec<u8> {
        let v: u64 = match rng.below(10) {
            0 => *rng.pick(&[0, u64::MAX, 1 << 32, 255, 256, 65536]),
            1 => rng.next(),
            _ => rng.below(48),
        };
        v.to_le_bytes().to_vec()
    }
}

pub struct FamBytes;
impl Fam for FamBytes {
    type K = &'static [u8];
    const DESC: &'static str = "bytes";
    fn key<'a>(enc: &'a [u8]) -> &'a [u8] {
        enc
    }
    fn long_key(i: u64, len: usize) -> Option<Vec<u8>> {
        let mut v = vec![0x61u8; len];
        v.extend_from_slice(&(i as u16).to_be_bytes());
        Some(v)
    }
    fn gen_key(rng: &mut Rng, page: usize) -> Vec<u8> {
        let mut v = vec![];
        match rng.below(12) {
            0 => {}
            1 => {
                // long key sharing a long prefix
                let n = *rng.pick(&[page / 3, page / 2, page - 40, page + 10, 2 * page]);
                v = vec![0x61; n];
                v.push(rng.below(4) as u8);
            }
            _ => {
                for _ in 0..rng.range(1, 4) {
                    v.extend_from_slice(*rng.pick::<&[u8]>(&[b"a", b"ab", b"b", b"\x00", b"\xff", b"key", b"key\x00", b"prefix/shared/", b"k"]));
                }
                if rng.chance(1, 3) {
                    v.push(rng.below(6) as u8);
                }
            }
        }
        v
    }
}

pub struct FamStr;
impl Fam for FamStr {
    type K = &'static str;
    const DESC: &'static str = "str";
    fn key<'a>(enc: &'a [u8]) -> &'a str {
        std::str::from_utf8(enc).unwrap()
    }
    fn long_key(i: u64, len: usize) -> Option<Vec<u8>> {
        let mut s = "\u{e9}".repeat(len / 2);
        s.push_str(&format!("{i:05}"));
        Some(s.into_bytes())
    }
    fn gen_key(rng: &mut Rng, page: usize) -> Vec<u8> {
        let mut s = String::new();
        match rng.below(12) {
            0 => {}
            1 => {
                let n = *rng.pick(&[page / 3, page / 2, page - 60]);
                s = "\u{e9}".repeat(n / 2);
                s.push_str(*rng.pick::<&str>(&["a", "\u{e8}", "\u{20ac}", ""]));
            }
            _ => {
                for _ in 0..rng.range(1, 4) {
                    s.push_str(*rng.pick::<&str>(&["a", "ab", "b", "\u{e9}", "\u{e8}", "\u{20ac}", "\u{1f600}", "shared-prefix-", "k", "\u{7ff}", "\u{800}"]));
                }
            }
        }
        s.into_bytes()
    }
}

fn gen_value_tok(rng: &mut Rng, page: usize) -> String {
    let len = match rng.below(20) {
        0 => 0,
        1 => 1,
        2..=9 => rng.range(2, 230) as usize,
        10 | 11 => page / 3 + rng.below(9) as usize - 4,
        12 | 13 => page / 2 + rng.below(9) as usize - 4,
        14 => page - rng.range(1, 64) as usize,
        15 => page,
        16 => 2 * page,
        17 => 5 * page + rng.below(100) as usize,
        _ => rng.range(2, 60) as usize,
    };
    if len <= 12 && rng.chance(1, 2) {
        hex(&rng.bytes(len))
    } else {
        format!("p{len}x{}", rng.below(251))
    }
}

// ---------------------------------------------------------------------------------- oracle

#[derive(Clone, Default)]
pub struct Shadow {
    pub cur: Vec<(Vec<u8>, Vec<u8>)>,
    pub committed: Vec<(Vec<u8>, Vec<u8>)>,
}

fn bound_tok(b: &Bound<Vec<u8>>) -> String {
    match b {
        Bound::Unbounded => "u".into(),
        Bound::Included(k) => format!("i{}", hex(k)),
        Bound::Excluded(k) => format!("e{}", hex(k)),
    }
}
fn parse_bound(t: &str) -> Bound<Vec<u8>> {
    match &t[..1] {
        "u" => Bound::Unbounded,
        "i" => Bound::Included(unhex(&t[1..])),
        _ => Bound::Excluded(unhex(&t[1..])),
    }
}

impl Shadow {
    fn pos<F: Fam>(&self, k: &[u8]) -> Result<usize, usize> {
        self.cur.binary_search_by(|e| F::K::compare(&e.0, k))
    }
    fn in_range<F: Fam>(lo: &Bound<Vec<u8>>, hi: &Bound<Vec<u8>>, k: &[u8]) -> bool {
        let a = match lo {
            Bound::Unbounded => true,
            Bound::Included(b) => F::K::compare(k, b) != Ordering::Less,
            Bound::Excluded(b) => F::K::compare(k, b) == Ordering::Greater,
        };
        let b = match hi {
            Bound::Unbounded => true,
            Bound::Included(b) => F::K::compare(k, b) != Ordering::Greater,
            Bound::Excluded(b) => F::K::compare(k, b) == Ordering::Less,
        };
        a && b
    }
    fn insert<F: Fam>(&mut self, k: &[u8], v: &[u8]) -> Option<Vec<u8>> {
        match self.pos::<F>(k) {
            Ok(i) => Some(std::mem::replace(&mut self.cur[i].1, v.to_vec())),
            Err(i) => {
                self.cur.insert(i, (k.to_vec(), v.to_vec()));
                None
            }
        }
    }
    fn remove<F: Fam>(&mut self, k: &[u8]) -> Option<Vec<u8>> {
        match self.pos::<F>(k) {
            Ok(i) => Some(self.cur.remove(i).1),
            Err(_) => None,
        }
    }
    fn get<F: Fam>(&self, k: &[u8]) -> Option<Vec<u8>> {
        self.pos::<F>(k).ok().map(|i| self.cur[i].1.clone())
    }
}

fn opt_repr(v: Option<Vec<u8>>) -> String {
    v.map_or("none".into(), |x| repr(&x))
}
fn pair_repr(p: Option<(Vec<u8>, Vec<u8>)>) -> String {
    p.map_or("none".into(), |(k, v)| format!("{}={}", repr(&k), repr(&v)))
}
fn list_repr(l: &[(Vec<u8>, Vec<u8>)]) -> String {
    if l.is_empty() {
        "-".into()
    } else {
        l.iter().map(|(k, v)| format!("{}={}", repr(k), repr(v))).collect::<Vec<_>>().join(",")
    }
}

/// take from a double-ended sequence according to the mode: fwd / rev / alt (front first)
fn consume<T>(mut next: impl FnMut(bool) -> Option<T>, mode: &str, limit: usize) -> Vec<T> {
    let mut outv = vec![];
    let mut front = mode != "rev";
    while outv.len() < limit {
        match next(front) {
            Some(x) => outv.push(x),
            None => break,
        }
        if mode == "alt" {
            front = !front;
        }
    }
    outv
}

impl Shadow {
    /// expected answer of a table request (None when the request has no answer)
    fn apply<F: Fam>(&mut self, req: &[&str]) -> Option<String> {
        match req {
            ["insert", k, v] | ["getmut", k, v] if req[0] == "insert" || self.get::<F>(&expand(k)).is_some() => {
                let old = self.insert::<F>(&expand(k), &expand(v));
                Some(if req[0] == "insert" { opt_repr(old) } else { "found".into() })
            }
            ["getmut", _, _] => Some("none".into()),
            ["reserve", k, len, seed] => {
                let v = expand(&format!("p{len}x{seed}"));
                self.insert::<F>(&expand(k), &v);
                Some("ok".into())
            }
            ["get", k] => Some(opt_repr(self.get::<F>(&expand(k)))),
            ["remove", k] => Some(opt_repr(self.remove::<F>(&expand(k)))),
            ["popfirst"] => Some(pair_repr(if self.cur.is_empty() { None } else { Some(self.cur.remove(0)) })),
            ["poplast"] => Some(pair_repr(self.cur.pop())),
            ["first"] => Some(pair_repr(self.cur.first().cloned())),
            ["last"] => Some(pair_repr(self.cur.last().cloned())),
            ["len"] => Some(self.cur.len().to_string()),
            ["range", lo, hi, mode, limit] => {
                let (lo, hi) = (parse_bound(lo), parse_bound(hi));
                let mut sel: std::collections::VecDeque<_> = self.cur.iter().filter(|e| Self::in_range::<F>(&lo, &hi, &e.0)).cloned().collect();
                let got = consume(|front| if front { sel.pop_front() } else { sel.pop_back() }, mode, limit.parse().unwrap());
                Some(list_repr(&got))
            }
            ["retain", lo, hi, m, r] => {
                let (lo, hi) = (parse_bound(lo), parse_bound(hi));
                let (m, r): (u64, u64) = (m.parse().unwrap(), r.parse().unwrap());
                self.cur.retain(|e| !Self::in_range::<F>(&lo, &hi, &e.0) || pred(&e.0, &e.1, m, r));
                Some("ok".into())
            }
            ["extract", lo, hi, m, r, mode, limit] => {
                let (lo, hi) = (parse_bound(lo), parse_bound(hi));
                let (m, r): (u64, u64) = (m.parse().unwrap(), r.parse().unwrap());
                let mut sel: std::collections::VecDeque<_> =
                    self.cur.iter().filter(|e| Self::in_range::<F>(&lo, &hi, &e.0) && pred(&e.0, &e.1, m, r)).cloned().collect();
                let got = consume(|front| if front { sel.pop_front() } else { sel.pop_back() }, mode, limit.parse().unwrap());
                for (k, _) in &got {
                    self.remove::<F>(k);
                }
                Some(list_repr(&got))
            }
            ["entry", k, "orinsert", v] => {
                let k = expand(k);
                if let Some(old) = self.get::<F>(&k) {
                    Some(repr(&old))
                } else {
                    let v = expand(v);
                    self.insert::<F>(&k, &v);
                    Some(repr(&v))
                }
            }
            ["entry", k, "modify", v] => {
                let k = expand(k);
                if self.get::<F>(&k).is_some() {
                    self.insert::<F>(&k, &expand(v));
                    Some("occupied".into())
                } else {
                    Some("vacant".into())
                }
            }
            ["entry", k, "remove"] => {
                let k = expand(k);
                Some(match self.remove::<F>(&k) {
                    Some(v) => repr(&v),
                    None => "vacant".into(),
                })
            }
            ["dump"] => Some(format!("{} {:016x}", self.cur.len(), dump_hash(&self.cur))),
            _ => panic!("shadow: unknown request {req:?}"),
        }
    }
}

pub fn dump_hash(l: &[(Vec<u8>, Vec<u8>)]) -> u64 {
    let mut h: u64 = 0;
    for (k, v) in l {
        h = h.rotate_left(5) ^ fnv64(&[k, b"=", v]);
    }
    h
}

// ---------------------------------------------------------------------------------- executor

pub fn to_bounds<'a, F: Fam>(lo: &'a Bound<Vec<u8>>, hi: &'a Bound<Vec<u8>>) -> (Bound<<F::K as Value>::SelfType<'a>>, Bound<<F::K as Value>::SelfType<'a>>) {
    let f = |b: &'a Bound<Vec<u8>>| match b {
        Bound::Unbounded => Bound::Unbounded,
        Bound::Included(k) => Bound::Included(F::key(k)),
        Bound::Excluded(k) => Bound::Excluded(F::key(k)),
    };
    (f(lo), f(hi))
}

fn kbytes<F: Fam>(k: <F::K as Value>::SelfType<'_>) -> Vec<u8> {
    let b = <F::K as Value>::as_bytes(&k);
    AsRef::<[u8]>::as_ref(&b).to_vec()
}

type Tbl<'t, F> = redb::Table<'t, <F as Fam>::K, &'static [u8]>;

pub fn err_tag<E: std::fmt::Debug>(e: E) -> String {
    let s = format!("{e:?}");
    format!("err:{}", s.split(|c: char| !c.is_alphanumeric()).next().unwrap_or("?"))
}

/// one table request on the real table
fn exec_op<F: Fam>(t: &mut Tbl<'_, F>, req: &[&str]) -> String {
    match req {
        ["insert", k, v] => {
            let (k, v) = (expand(k), expand(v));
            match t.insert(F::key(&k), v.as_slice()) {
                Ok(old) => opt_repr(old.map(|g| g.value().to_vec())),
                Err(e) => err_tag(e),
            }
        }
        ["getmut", k, v] => {
            let (k, v) = (expand(k), expand(v));
            match t.get_mut(F::key(&k)) {
                Ok(Some(mut g)) => match g.insert(v.as_slice()) {
                    Ok(()) => "found".into(),
                    Err(e) => err_tag(e),
                },
                Ok(None) => "none".into(),
                Err(e) => err_tag(e),
            }
        }
        ["reserve", k, len, seed] => {
            let k = expand(k);
            let v = expand(&format!("p{len}x{seed}"));
            match t.insert_reserve(F::key(&k), v.len()) {
                Ok(mut g) => {
                    g.as_mut().copy_from_slice(&v);
                    "ok".into()
                }
                Err(e) => err_tag(e),
            }
        }
        ["get", k] => {
            let k = expand(k);
            match t.get(F::key(&k)) {
                Ok(g) => opt_repr(g.map(|g| g.value().to_vec())),
                Err(e) => err_tag(e),
            }
        }
        ["remove", k] => {
            let k = expand(k);
            match t.remove(F::key(&k)) {
                Ok(g) => opt_repr(g.map(|g| g.value().to_vec())),
                Err(e) => err_tag(e),
            }
        }
        ["popfirst"] | ["poplast"] | ["first"] | ["last"] => {
            let r = match req[0] {
                "popfirst" => t.pop_first(),
                "poplast" => t.pop_last(),
                "first" => t.first(),
                _ => t.last(),
            };
            match r {
                Ok(p) => pair_repr(p.map(|(k, v)| (kbytes::<F>(k.value()), v.value().to_vec()))),
                Err(e) => err_tag(e),
            }
        }
        ["len"] => match t.len() {
            Ok(n) => n.to_string(),
            Err(e) => err_tag(e),
        },
        ["range", lo, hi, mode, limit] => {
            let (lo, hi) = (parse_bound(lo), parse_bound(hi));
            let bounds = to_bounds::<F>(&lo, &hi);
            match t.range::<<F::K as Value>::SelfType<'_>>(bounds) {
                Ok(mut it) => {
                    let mut failed = None;
                    let got = consume(
                        |front| {
                            let x = if front { it.next() } else { it.next_back() };
                            match x {
                                Some(Ok((k, v))) => Some((kbytes::<F>(k.value()), v.value().to_vec())),
                                Some(Err(e)) => {
                                    failed = Some(err_tag(e));
                                    None
                                }
                                None => None,
                            }
                        },
                        mode,
                        limit.parse().unwrap(),
                    );
                    failed.unwrap_or_else(|| list_repr(&got))
                }
                Err(e) => err_tag(e),
            }
        }
        ["retain", lo, hi, m, r] => {
            let (lo, hi) = (parse_bound(lo), parse_bound(hi));
            let (m, r): (u64, u64) = (m.parse().unwrap(), r.parse().unwrap());
            let p = |k: <F::K as Value>::SelfType<'_>, v: &[u8]| pred(&kbytes::<F>(k), v, m, r);
            let res = if matches!((&lo, &hi), (Bound::Unbounded, Bound::Unbounded)) {
                t.retain(p)
            } else {
                t.retain_in::<<F::K as Value>::SelfType<'_>, _>(to_bounds::<F>(&lo, &hi), p)
            };
            match res {
                Ok(()) => "ok".into(),
                Err(e) => err_tag(e),
            }
        }
        ["extract", lo, hi, m, r, mode, limit] => {
            let (lo, hi) = (parse_bound(lo), parse_bound(hi));
            let (m, r): (u64, u64) = (m.parse().unwrap(), r.parse().unwrap());
            let p = |k: <F::K as Value>::SelfType<'_>, v: &[u8]| pred(&kbytes::<F>(k), v, m, r);
            let limit: usize = limit.parse().unwrap();
            macro_rules! drain {
                ($it:expr) => {{
                    match $it {
                        Ok(mut it) => {
                            let mut failed = None;
                            let got = consume(
                                |front| {
                                    let x = if front { it.next() } else { it.next_back() };
                                    match x {
                                        Some(Ok((k, v))) => Some((kbytes::<F>(k.value()), v.value().to_vec())),
                                        Some(Err(e)) => {
                                            failed = Some(err_tag(e));
                                            None
                                        }
                                        None => None,
                                    }
                                },
                                mode,
                                limit,
                            );
                            failed.unwrap_or_else(|| list_repr(&got))
                        }
                        Err(e) => err_tag(e),
                    }
                }};
            }
            if matches!((&lo, &hi), (Bound::Unbounded, Bound::Unbounded)) {
                drain!(t.extract_if(p))
            } else {
                drain!(t.extract_from_if::<<F::K as Value>::SelfType<'_>, _>(to_bounds::<F>(&lo, &hi), p))
            }
        }
        ["entry", k, "orinsert", v] => {
            let (k, v) = (expand(k), expand(v));
            match t.entry(F::key(&k)) {
                Ok(e) => match e.or_insert(v.as_slice()) {
                    Ok(g) => repr(g.value()),
                    Err(e) => err_tag(e),
                },
                Err(e) => err_tag(e),
            }
        }
        ["entry", k, "modify", v] => {
            let (k, v) = (expand(k), expand(v));
            match t.entry(F::key(&k)) {
                Ok(redb::Entry::Occupied(mut o)) => match o.insert(v.as_slice()) {
                    Ok(_) => "occupied".into(),
                    Err(e) => err_tag(e),
                },
                Ok(redb::Entry::Vacant(_)) => "vacant".into(),
                Err(e) => err_tag(e),
            }
        }
        ["entry", k, "remove"] => {
            let k = expand(k);
            match t.entry(F::key(&k)) {
                Ok(redb::Entry::Occupied(o)) => match o.remove() {
                    Ok(g) => repr(g.value()),
                    Err(e) => err_tag(e),
                },
                Ok(redb::Entry::Vacant(_)) => "vacant".into(),
                Err(e) => err_tag(e),
            }
        }
        _ => panic!("exec: unknown table request {req:?}"),
    }
}

/// emit an image after every commit (used for the tall-tree programs)
pub static ALL_IMAGES: std::sync::atomic::AtomicBool = std::sync::atomic::AtomicBool::new(false);

pub struct Cfg {
    pub page: usize,
    pub region: u64,
    pub cache: usize,
}

pub fn open_db(backend: MemBackend, cfg: &Cfg) -> Result<Database, redb::DatabaseError> {
    let mut b = Builder::new();
    b.verif_set_page_size(cfg.page);
    if cfg.region != 0 {
        b.verif_set_region_size(cfg.region);
    }
    b.set_cache_size(cfg.cache);
    b.create_with_backend(backend)
}

/// snapshot of the storage after a durable commit / clean close, for the Lean format decoder
fn emit_image<F: Fam>(out: &mut Out, backend: &MemBackend, cfg: &Cfg, shadow: &Shadow, when: &str) {
    if !crate::image::ENABLED.load(std::sync::atomic::Ordering::Relaxed) {
        return;
    }
    let path = crate::image::save("tbl", &backend.snapshot());
    out.count("images");
    out.line(&format!(
        "img check {path} {} {when} t:normal:{}:bytes:{}:{:016x}",
        cfg.page,
        F::DESC,
        shadow.committed.len(),
        dump_hash(&shadow.committed)
    ));
}

/// Runs a whole program (list of requests) on the real database and on the oracle.
/// Returns false if the case could not be completed (panic caught).
pub fn run_program<F: Fam>(prog: &[String], out: &mut Out) -> bool {
    let def: TableDefinition<F::K, &'static [u8]> = TableDefinition::new("t");
    let mut shadow = Shadow::default();
    let mut cfg = Cfg { page: 4096, region: 0, cache: 1 << 20 };
    let mut backend = MemBackend::fresh();
    let mut db: Option<Database> = None;
    let mut i = 0;
    let res = catch_unwind(AssertUnwindSafe(|| {
        while i < prog.len() {
            let toks: Vec<&str> = prog[i].split(' ').collect();
            match toks.as_slice() {
                ["cfg", kt, page, region, cache] => {
                    assert_eq!(*kt, F::DESC);
                    cfg = Cfg { page: page.parse().unwrap(), region: region.parse().unwrap(), cache: cache.parse().unwrap() };
                    db = None;
                    backend = MemBackend::fresh();
                    db = Some(open_db(backend.clone(), &cfg).expect("create database"));
                    shadow = Shadow::default();
                    out.line(&format!("tbl {}", prog[i]));
                    i += 1;
                }
                ["reopen"] => {
                    db = None;
                    backend = MemBackend::new(backend.data.clone());
                    db = Some(open_db(backend.clone(), &cfg).expect("reopen database"));
                    out.line("tbl reopen");
                    i += 1;
                }
                ["begin"] => {
                    out.line("tbl begin");
                    i += 1;
                    let txn = db.as_ref().unwrap().begin_write().expect("begin_write");
                    {
                        let mut t = txn.open_table(def).expect("open_table");
                        while i < prog.len() && prog[i] != "commit" && prog[i] != "abort" {
                            // now and then the handle is dropped and the table opened again inside
                            // the transaction: nothing observable may depend on which handle is used
                            if fnv64(&[prog[i].as_bytes(), &i.to_le_bytes(), b"handle"]) % 6 == 0 {
                                drop(t);
                                t = txn.open_table(def).expect("open_table again");
                                out.count("handle_reopened_in_txn");
                            }
                            let toks: Vec<&str> = prog[i].split(' ').collect();
                            out.count(&format!("op_{}", toks[0]));
                            let got = exec_op::<F>(&mut t, &toks);
                            let want = shadow.apply::<F>(&toks).unwrap();
                            if got != want {
                                out.oracle_fail(format!("table-op|{} {}: implementation answered {got}, sorted-map oracle {want}", F::DESC, prog[i]));
                            }
                            out.line(&format!("tbl {} => {got}", prog[i]));
                            i += 1;
                        }
                    }
                    if i < prog.len() && prog[i] == "commit" {
                        txn.commit().expect("commit");
                        shadow.committed = shadow.cur.clone();
                        out.line("tbl commit");
                        if ALL_IMAGES.load(std::sync::atomic::Ordering::Relaxed) || fnv64(&[prog[i - 1].as_bytes(), &i.to_le_bytes()]) % 3 == 0 {
                            emit_image::<F>(out, &backend, &cfg, &shadow, "commit");
                        }
                    } else {
                        txn.abort().expect("abort");
                        shadow.cur = shadow.committed.clone();
                        out.line("tbl abort");
                    }
                    i += 1;
                }
                ["dump"] => {
                    // full contents through a read transaction
                    let rt = db.as_ref().unwrap().begin_read().expect("begin_read");
                    let got = match rt.open_table(def) {
                        Ok(t) => {
                            let all: Vec<(Vec<u8>, Vec<u8>)> = t.iter().unwrap().map(|e| { let (k, v) = e.unwrap(); (kbytes::<F>(k.value()), v.value().to_vec()) }).collect();
                            let n = t.len().unwrap();
                            if n as usize != all.len() {
                                out.oracle_fail(format!("table-len|{}: len() = {n} but iteration yields {} entries", F::DESC, all.len()));
                            }
                            for w in all.windows(2) {
                                if F::K::compare(&w[0].0, &w[1].0) != Ordering::Less {
                                    out.oracle_fail(format!("table-order|{}: iteration not strictly increasing at {}", F::DESC, repr(&w[1].0)));
                                }
                            }
                            format!("{} {:016x}", all.len(), dump_hash(&all))
                        }
                        Err(redb::TableError::TableDoesNotExist(_)) => format!("0 {:016x}", 0),
                        Err(e) => err_tag(e),
                    };
                    let want = shadow.apply::<F>(&["dump"]).unwrap();
                    if got != want {
                        out.oracle_fail(format!("table-dump|{}: committed contents {got} differ from the sorted-map oracle {want}", F::DESC));
                    }
                    out.line(&format!("tbl dump => {got}"));
                    i += 1;
                }
                other => panic!("unknown program line {other:?}"),
            }
        }
    }));
    drop(db);
    if res.is_ok() && prog.len() > 1 {
        emit_image::<F>(out, &backend, &cfg, &shadow, "close");
    }
    if let Err(p) = res {
        let msg = p.downcast_ref::<String>().cloned().or_else(|| p.downcast_ref::<&str>().map(|s| s.to_string())).unwrap_or_default();
        out.oracle_fail(format!("table-panic|{}: panic at program line {i} ({}): {}", F::DESC, prog.get(i).cloned().unwrap_or_default(), msg.lines().next().unwrap_or("")));
        return false;
    }
    let v = backend.mon.contract_violations.lock().unwrap();
    for x in v.iter() {
        out.oracle_fail(format!("backend-contract|{x}"));
    }
    true
}

// ---------------------------------------------------------------------------------- generator

fn gen_bound<F: Fam>(rng: &mut Rng, sh: &Shadow, page: usize) -> Bound<Vec<u8>> {
    let k = if !sh.cur.is_empty() && rng.chance(2, 3) { rng.pick(&sh.cur).0.clone() } else { F::gen_key(rng, page) };
    match rng.below(5) {
        0 => Bound::Unbounded,
        1 | 2 => Bound::Included(k),
        _ => Bound::Excluded(k),
    }
}

fn gen_range<F: Fam>(rng: &mut Rng, sh: &Shadow, page: usize) -> (String, String) {
    let mut lo = gen_bound::<F>(rng, sh, page);
    let mut hi = gen_bound::<F>(rng, sh, page);
    // keep lo <= hi (an inverted range is a caller error in std; not part of the property)
    let keys = match (&lo, &hi) {
        (Bound::Included(a) | Bound::Excluded(a), Bound::Included(b) | Bound::Excluded(b)) => Some((a.clone(), b.clone())),
        _ => None,
    };
    if let Some((a, b)) = keys {
        match F::K::compare(&a, &b) {
            Ordering::Greater => std::mem::swap(&mut lo, &mut hi),
            Ordering::Equal => {
                // (x, x) with an excluded end is empty but legal only as [x, x); make both inclusive
                lo = Bound::Included(a.clone());
                hi = Bound::Included(a);
            }
            Ordering::Less => {}
        }
    }
    (bound_tok(&lo), bound_tok(&hi))
}

pub fn gen_program<F: Fam>(rng: &mut Rng, thorough: bool) -> Vec<String> {
    let page = *rng.pick(&[512usize, 512, 512, 1024, 4096, 16384]);
    let region: u64 = match rng.below(4) {
        0 => 0,
        1 => 1 << 20,
        _ => (page as u64 * 128).max(65536),
    };
    let cache = *rng.pick(&[0usize, 16384, 1 << 30]);
    let mut prog = vec![format!("cfg {} {page} {region} {cache}", F::DESC)];
    let mut sh = Shadow::default();
    let txns = rng.range(1, if thorough { 8 } else { 5 });
    for _ in 0..txns {
        prog.push("begin".into());
        let nops = rng.range(3, if thorough { 120 } else { 50 });
        // a transaction is biased towards growth, shrinkage or mixed
        let bias = rng.below(3);
        for _ in 0..nops {
            let existing = |rng: &mut Rng, sh: &Shadow| -> Vec<u8> {
                if !sh.cur.is_empty() && rng.chance(3, 4) { rng.pick(&sh.cur).0.clone() } else { F::gen_key(rng, page) }
            };
            let w = rng.below(100);
            let line = match (bias, w) {
                (0, 0..=59) | (1, 0..=19) | (2, 0..=39) => {
                    let k = if rng.chance(1, 4) { existing(rng, &sh) } else { F::gen_key(rng, page) };
                    format!("insert {} {}", hex(&k), gen_value_tok(rng, page))
                }
                (0, 60..=64) | (1, 20..=49) | (2, 40..=54) => format!("remove {}", hex(&existing(rng, &sh))),
                (_, 55..=59) | (1, 50..=54) => (if rng.chance(1, 2) { "popfirst" } else { "poplast" }).to_string(),
                (_, 65..=69) => format!("get {}", hex(&existing(rng, &sh))),
                (_, 70..=72) => format!("getmut {} {}", hex(&existing(rng, &sh)), gen_value_tok(rng, page)),
                (_, 73..=75) => {
                    let len = *rng.pick(&[0usize, 1, 17, page / 2, page + 3]);
                    format!("reserve {} {len} {}", hex(&existing(rng, &sh)), rng.below(251))
                }
                (_, 76..=80) => {
                    let (lo, hi) = gen_range::<F>(rng, &sh, page);
                    format!("range {lo} {hi} {} {}", rng.pick(&["fwd", "rev", "alt"]), rng.pick(&[1usize, 3, 1000]))
                }
                (_, 81..=83) => {
                    let (lo, hi) = if rng.chance(1, 2) { ("u".to_string(), "u".to_string()) } else { gen_range::<F>(rng, &sh, page) };
                    let m = rng.range(2, 5);
                    format!("retain {lo} {hi} {m} {}", rng.range(1, m))
                }
                (_, 84..=87) => {
                    let (lo, hi) = if rng.chance(1, 2) { ("u".to_string(), "u".to_string()) } else { gen_range::<F>(rng, &sh, page) };
                    let m = rng.range(2, 5);
                    format!("extract {lo} {hi} {m} {} {} {}", rng.range(1, m), rng.pick(&["fwd", "rev", "alt"]), rng.pick(&[0usize, 1, 2, 5, 1000]))
                }
                (_, 88..=90) => format!("entry {} orinsert {}", hex(&existing(rng, &sh)), gen_value_tok(rng, page)),
                (_, 91..=92) => format!("entry {} modify {}", hex(&existing(rng, &sh)), gen_value_tok(rng, page)),
                (_, 93..=94) => format!("entry {} remove", hex(&existing(rng, &sh))),
                (_, 95) => "first".into(),
                (_, 96) => "last".into(),
                _ => "len".into(),
            };
            let toks: Vec<&str> = line.split(' ').collect();
            sh.apply::<F>(&toks);
            prog.push(line);
        }
        if rng.chance(1, 7) {
            prog.push("abort".into());
            sh.cur = sh.committed.clone();
        } else {
            prog.push("commit".into());
            sh.committed = sh.cur.clone();
        }
        if rng.chance(1, 3) {
            prog.push("reopen".into());
        }
        prog.push("dump".into());
    }
    prog
}

/// tall trees of long keys: branches with very few children, so that the rarely taken
/// branch-collapse paths (a branch left with one child, merged into a sibling) are reached;
/// removals touch one end, the other end, single leaves, and leave sibling leaves untouched
pub fn gen_deep_program<F: Fam>(rng: &mut Rng) -> Option<Vec<String>> {
    let page = *rng.pick(&[512usize, 512, 1024]);
    let klen = *rng.pick(&[page / 3 - 8, page / 3 + 6, page / 4, page / 2 - 20]);
    F::long_key(0, klen)?;
    let region = (page as u64 * 128).max(65536);
    let mut prog = vec![format!("cfg {} {page} {region} {}", F::DESC, rng.pick(&[0usize, 1 << 30]))];
    let n = rng.range(5, 40);
    let mut live: Vec<u64> = vec![];
    prog.push("begin".into());
    let mut order: Vec<u64> = (0..n).collect();
    match rng.below(3) {
        0 => {}
        1 => order.reverse(),
        _ => {
            for i in (1..order.len()).rev() {
                order.swap(i, rng.below(i as u64 + 1) as usize);
            }
        }
    }
    for i in &order {
        prog.push(format!("insert {} p{}x{}", hex(&F::long_key(*i, klen).unwrap()), rng.pick(&[0usize, 3, 30]), i % 200));
        live.push(*i);
    }
    live.sort_unstable();
    prog.push("commit".into());
    prog.push("dump".into());
    for _ in 0..rng.range(1, 6) {
        prog.push("begin".into());
        let mut removed = vec![];
        match rng.below(7) {
            0 => {
                for _ in 0..rng.range(1, 4).min(live.len() as u64) {
                    prog.push("popfirst".into());
                    removed.push(0usize);
                }
            }
            1 => {
                for _ in 0..rng.range(1, 4).min(live.len() as u64) {
                    prog.push("poplast".into());
                    removed.push(usize::MAX);
                }
            }
            2 | 3 => {
                // a run of adjacent keys starting at a random position
                if !live.is_empty() {
                    let start = rng.below(live.len() as u64) as usize;
                    let cnt = rng.range(1, 4) as usize;
                    for k in live.iter().skip(start).take(cnt) {
                        prog.push(format!("remove {}", hex(&F::long_key(*k, klen).unwrap())));
                    }
                    for _ in 0..cnt.min(live.len() - start) {
                        removed.push(start);
                    }
                }
            }
            4 => {
                let m = rng.range(2, 4);
                prog.push(format!("retain u u {m} {}", rng.range(1, m)));
            }
            5 => {
                for i in 0..rng.range(1, 3) {
                    let k = n + 100 + rng.below(50) + i;
                    prog.push(format!("insert {} p5x1", hex(&F::long_key(k, klen).unwrap())));
                }
            }
            _ => {
                if !live.is_empty() {
                    let k = *rng.pick(&live);
                    prog.push(format!("remove {}", hex(&F::long_key(k, klen).unwrap())));
                    removed.push(live.iter().position(|x| *x == k).unwrap());
                }
            }
        }
        for pos in removed {
            if live.is_empty() {
                break;
            }
            let p = if pos == usize::MAX { live.len() - 1 } else { pos.min(live.len() - 1) };
            live.remove(p);
        }
        // point lookups into what is left (routing through the rebuilt branches)
        for k in live.iter().take(3).chain(live.iter().rev().take(3)) {
            prog.push(format!("get {}", hex(&F::long_key(*k, klen).unwrap())));
        }
        if let Some(k) = live.get(live.len() / 2) {
            prog.push(format!("range i{} u fwd 3", hex(&F::long_key(*k, klen).unwrap())));
        }
        prog.push("len".into());
        prog.push("commit".into());
        if rng.chance(1, 3) {
            prog.push("reopen".into());
        }
        prog.push("dump".into());
    }
    Some(prog)
}

/// systematic part: page 512, all insert/remove sequences over keys whose sizes sit on split/merge thresholds
fn systematic(out: &mut Out, depth: usize) {
    // six keys, three value sizes chosen so that 2-3 entries fill a 512-byte page
    let keys: Vec<Vec<u8>> = (0u8..6).map(|i| vec![b'k', i]).collect();
    let sizes = [150usize, 236, 60];
    let mut alphabet: Vec<String> = vec![];
    for (i, k) in keys.iter().enumerate() {
        alphabet.push(format!("insert {} p{}x{}", hex(k), sizes[i % 3], i));
        alphabet.push(format!("remove {}", hex(k)));
    }
    let mut idx = vec![0usize; depth];
    loop {
        let mut prog = vec!["cfg bytes 512 65536 0".to_string(), "begin".into()];
        for (n, j) in idx.iter().enumerate() {
            prog.push(alphabet[*j].clone());
            if n + 1 == depth / 2 {
                prog.push("commit".into());
                prog.push("begin".into());
            }
        }
        prog.push("len".into());
        prog.push("range u u fwd 1000".into());
        prog.push("commit".into());
        prog.push("dump".into());
        out.begin_case("systematic bytes 512");
        let sel = idx.iter().fold(7usize, |a, b| a.wrapping_mul(31).wrapping_add(*b)) % 24 == 0;
        crate::image::ENABLED.store(sel, std::sync::atomic::Ordering::Relaxed);
        let ok = run_program::<FamBytes>(&prog, out);
        crate::image::ENABLED.store(true, std::sync::atomic::Ordering::Relaxed);
        out.end_case(ok);
        out.count("systematic_programs");
        // next index vector
        let mut p = depth;
        loop {
            if p == 0 {
                return;
            }
            p -= 1;
            idx[p] += 1;
            if idx[p] < alphabet.len() {
                break;
            }
            idx[p] = 0;
        }
    }
}

pub fn run(args: &Args) {
    let mut out = Out::new(&args.out);
    if let Some(path) = &args.replay {
        let text = std::fs::read_to_string(path).expect("read replay");
        let prog: Vec<String> = text.lines().map(str::trim).filter(|l| l.starts_with("tbl ")).map(|l| l[4..].split(" => ").next().unwrap().to_string()).collect();
        let fam = prog.first().and_then(|l| l.split(' ').nth(1)).unwrap_or("bytes").to_string();
        out.begin_case(&format!("replay {fam}"));
        let ok = match fam.as_str() {
            "u64" => run_program::<FamU64>(&prog, &mut out),
            "str" => run_program::<FamStr>(&prog, &mut out),
            _ => run_program::<FamBytes>(&prog, &mut out),
        };
        out.end_case(ok);
        out.finish(&args.summary, &[]);
        return;
    }
    let mut rng = Rng::new(args.seed);
    out.comment(&format!("C04 table seed={} thorough={}", args.seed, args.thorough));
    systematic(&mut out, if args.thorough { 4 } else { 3 });
    // tall trees of long keys
    let deep = if args.thorough { 1200 } else { 120 };
    ALL_IMAGES.store(true, std::sync::atomic::Ordering::Relaxed);
    for n in 0..deep {
        let mut r = rng.fork();
        if n % 2 == 0 {
            if let Some(p) = gen_deep_program::<FamBytes>(&mut r) {
                out.begin_case("deep bytes");
                let ok = run_program::<FamBytes>(&p, &mut out);
                out.end_case(ok);
            }
        } else if let Some(p) = gen_deep_program::<FamStr>(&mut r) {
            out.begin_case("deep str");
            let ok = run_program::<FamStr>(&p, &mut out);
            out.end_case(ok);
        }
        out.count("deep_programs");
    }
    ALL_IMAGES.store(false, std::sync::atomic::Ordering::Relaxed);
    let programs = if args.thorough { 2400 } else { 150 };
    for n in 0..programs {
        let mut r = rng.fork();
        match n % 3 {
            0 => {
                let p = gen_program::<FamU64>(&mut r, args.thorough);
                out.begin_case("random u64");
                let ok = run_program::<FamU64>(&p, &mut out);
                out.end_case(ok);
            }
            1 => {
                let p = gen_program::<FamBytes>(&mut r, args.thorough);
                out.begin_case("random bytes");
                let ok = run_program::<FamBytes>(&p, &mut out);
                out.end_case(ok);
            }
            _ => {
                let p = gen_program::<FamStr>(&mut r, args.thorough);
                out.begin_case("random str");
                let ok = run_program::<FamStr>(&p, &mut out);
                out.end_case(ok);
            }
        }
        out.count("random_programs");
    }
    out.finish(&args.summary, &[]);
}
