//! C01 (and the crash halves of C07/C11/C13): every storage operation of a history is recorded;
//! crash images are built from the recorded stream according to the crash model of the property
//! (any instant; any subset of the writes issued since the last completed sync_data, each
//! possibly torn at byte granularity; each pending set_len persisted or not), reopened with the
//! REAL recovery code, read back completely and compared with the commit points the property
//! allows (not older than the last acknowledged durable commit / clean close, not newer than the
//! last requested commit, never a mixture). Surviving images are crashed again during their own
//! recovery run (second generation).
use crate::backend::{Ev, MemBackend};
use crate::history::{describe, gen_history, read_all, Model, Step, World};
use crate::out::Out;
use crate::rng::Rng;
use crate::table::{fnv64, open_db, Cfg};
use crate::Args;
use redb::ReadableDatabase;
use std::collections::BTreeSet;
use std::panic::{catch_unwind, AssertUnwindSafe};
use std::sync::atomic::Ordering;
use std::sync::{Arc, Mutex};

/// what a crash at some point may legally recover to
#[derive(Clone)]
struct Allowed {
    /// (contents, persistent savepoint ids)
    points: Vec<(Model, BTreeSet<u64>)>,
}

#[derive(Clone)]
struct StepRecord {
    desc: String,
    /// log index range of this step
    from: usize,
    to: usize,
    allowed: Allowed,
}

/// durable image after applying `log[..upto]` completely
pub(crate) fn apply_all(image: &mut Vec<u8>, ev: &Ev) {
    match ev {
        Ev::Write { off, data } => {
            let end = *off as usize + data.len();
            if end <= image.len() {
                image[*off as usize..end].copy_from_slice(data);
            }
        }
        Ev::SetLen(n) => image.resize(*n as usize, 0),
        _ => {}
    }
}

#[derive(Clone, Debug)]
pub(crate) enum Choice {
    Skip,
    Full,
    /// only bytes [a, b) of the write reach the disk
    Torn(usize, usize),
}

/// builds the crash image: `durable` + the chosen outcomes of the pending events
pub(crate) fn build_image(durable: &[u8], pending: &[&Ev], choice: &[Choice]) -> Vec<u8> {
    let mut img = durable.to_vec();
    for (ev, c) in pending.iter().zip(choice) {
        match (ev, c) {
            (_, Choice::Skip) => {}
            (Ev::SetLen(n), _) => img.resize(*n as usize, 0),
            (Ev::Write { off, data }, Choice::Full) => {
                let end = *off as usize + data.len();
                if end <= img.len() {
                    img[*off as usize..end].copy_from_slice(data);
                } else if (*off as usize) < img.len() {
                    // the part beyond the surviving length is lost
                    let n = img.len() - *off as usize;
                    img[*off as usize..].copy_from_slice(&data[..n]);
                }
            }
            (Ev::Write { off, data }, Choice::Torn(a, b)) => {
                let (a, b) = (*a.min(&data.len()), *b.min(&data.len()));
                let start = *off as usize + a;
                let end = *off as usize + b;
                if end <= img.len() && a < b {
                    img[start..end].copy_from_slice(&data[a..b]);
                }
            }
            _ => {}
        }
    }
    img
}

struct Verdict {
    ok: bool,
    what: String,
    /// index into allowed.points that was recovered
    recovered: Option<usize>,
}

/// reopens the image with the real code and checks it against the allowed commit points
fn check_image(img: Vec<u8>, cfg: &Cfg, allowed: &Allowed, record: bool) -> (Verdict, Option<(Vec<u8>, Vec<Ev>)>) {
    let start_image = if record { Some(img.clone()) } else { None };
    let backend = MemBackend::new(Arc::new(Mutex::new(img)));
    backend.mon.record.store(record, Ordering::SeqCst);
    let r = catch_unwind(AssertUnwindSafe(|| -> Result<(Model, BTreeSet<u64>), String> {
        let mut db = open_db(backend.clone(), cfg).map_err(|e| format!("open failed: {e:?}"))?;
        let m = db.begin_read().map_err(|e| format!("begin_read: {e:?}")).and_then(|rt| read_all(&rt))?;
        let psp: BTreeSet<u64> = {
            let txn = db.begin_write().map_err(|e| format!("begin_write after recovery: {e:?}"))?;
            let s = txn.list_persistent_savepoints().map_err(|e| format!("list_persistent_savepoints: {e:?}"))?.collect();
            txn.abort().map_err(|e| format!("abort: {e:?}"))?;
            s
        };
        // a recovered database is healthy: check_integrity agrees and leaves the contents alone
        match db.check_integrity() {
            Ok(_) => {}
            Err(e) => return Err(format!("check_integrity after recovery: {e:?}")),
        }
        let m2 = db.begin_read().map_err(|e| format!("begin_read: {e:?}")).and_then(|rt| read_all(&rt))?;
        if m2 != m {
            return Err(format!("check_integrity changed the contents {} -> {}", m.digest(), m2.digest()));
        }
        Ok((m, psp))
    }));
    let log = if record { start_image.map(|i| (i, std::mem::take(&mut *backend.mon.log.lock().unwrap()))) } else { None };
    let v = match r {
        Err(p) => {
            let msg = p.downcast_ref::<String>().cloned().or_else(|| p.downcast_ref::<&str>().map(|s| s.to_string())).unwrap_or_default();
            Verdict { ok: false, what: format!("panic during recovery: {}", msg.lines().next().unwrap_or("")), recovered: None }
        }
        Ok(Err(e)) => Verdict { ok: false, what: e, recovered: None },
        Ok(Ok((m, psp))) => match allowed.points.iter().rposition(|(w, p)| *w == m && *p == psp) {
            Some(i) => Verdict { ok: true, what: String::new(), recovered: Some(i) },
            None => {
                let contents_only = allowed.points.iter().any(|(w, _)| *w == m);
                Verdict {
                    ok: false,
                    what: if contents_only {
                        format!("recovered contents {} match a commit point but the persistent savepoints {:?} do not", m.digest(), psp)
                    } else {
                        format!("recovered contents {} equal none of the {} allowed commit points ({})", m.digest(), allowed.points.len(), allowed.points.iter().map(|(w, _)| w.digest()).collect::<Vec<_>>().join(", "))
                    },
                    recovered: None,
                }
            }
        },
    };
    for x in backend.mon.contract_violations.lock().unwrap().iter() {
        if !v.ok {
            break;
        }
        return (Verdict { ok: false, what: format!("backend contract violated during recovery: {x}"), recovered: None }, log);
    }
    (v, log)
}

/// the variants of pending-write outcomes tried at one cut point
pub(crate) fn choices(pending: &[&Ev], rng: &mut Rng, thorough: bool) -> Vec<(String, Vec<Choice>)> {
    let n = pending.len();
    let mut v: Vec<(String, Vec<Choice>)> = vec![];
    if n == 0 {
        return vec![("clean".into(), vec![])];
    }
    v.push(("none".into(), vec![Choice::Skip; n]));
    v.push(("all".into(), vec![Choice::Full; n]));
    let is_header = |e: &Ev| matches!(e, Ev::Write { off: 0, .. });
    if pending.iter().any(|e| is_header(e)) {
        v.push(("header-only".into(), pending.iter().map(|e| if is_header(e) { Choice::Full } else { Choice::Skip }).collect()));
        v.push(("all-but-header".into(), pending.iter().map(|e| if is_header(e) { Choice::Skip } else { Choice::Full }).collect()));
        // torn header writes: god byte only, first slot only, second slot only, layout fields only
        for (name, a, b) in [("god-byte-only", 9usize, 10usize), ("slot0-only", 64, 192), ("slot1-only", 192, 320), ("layout-only", 12, 32), ("god+slot0-half", 0, 128), ("slot1-half", 192, 256)] {
            v.push((
                format!("torn-header-{name}"),
                pending.iter().map(|e| if is_header(e) { Choice::Torn(a, b) } else { Choice::Full }).collect(),
            ));
            v.push((
                format!("torn-header-{name}-no-data"),
                pending.iter().map(|e| if is_header(e) { Choice::Torn(a, b) } else { Choice::Skip }).collect(),
            ));
        }
    }
    if pending.iter().any(|e| matches!(e, Ev::SetLen(_))) {
        v.push(("set_len-lost".into(), pending.iter().map(|e| if matches!(e, Ev::SetLen(_)) { Choice::Skip } else { Choice::Full }).collect()));
        v.push(("set_len-only".into(), pending.iter().map(|e| if matches!(e, Ev::SetLen(_)) { Choice::Full } else { Choice::Skip }).collect()));
    }
    let singles = if thorough { n.min(24) } else { n.min(6) };
    for k in 0..singles {
        let i = if n <= singles { k } else { rng.below(n as u64) as usize };
        let mut only = vec![Choice::Skip; n];
        only[i] = Choice::Full;
        v.push((format!("only-{i}"), only));
        let mut but = vec![Choice::Full; n];
        but[i] = Choice::Skip;
        v.push((format!("all-but-{i}"), but));
        if let Ev::Write { data, .. } = pending[i] {
            let cut = rng.range(1, data.len().max(2) as u64 - 1) as usize;
            let mut torn = vec![Choice::Full; n];
            torn[i] = Choice::Torn(0, cut);
            v.push((format!("torn-{i}-prefix{cut}"), torn));
            let mut torn = vec![Choice::Full; n];
            torn[i] = Choice::Torn(cut, data.len());
            v.push((format!("torn-{i}-suffix{cut}"), torn));
        }
    }
    for r in 0..(if thorough { 12 } else { 3 }) {
        v.push((format!("random-{r}"), (0..n).map(|_| if rng.chance(1, 2) { Choice::Full } else { Choice::Skip }).collect()));
    }
    if thorough && n <= 7 {
        for mask in 0..(1u32 << n) {
            v.push((format!("mask-{mask:b}"), (0..n).map(|i| if mask & (1 << i) != 0 { Choice::Full } else { Choice::Skip }).collect()));
        }
    }
    v
}

struct CrashCase {
    desc: String,
    image: Vec<u8>,
    allowed: Allowed,
}

/// cut points and variants for one recorded log
/// `sink` receives the cases in chunks, so that only a few images exist at any time
fn enumerate(initial: &[u8], log: &[Ev], steps: &[StepRecord], rng: &mut Rng, thorough: bool, budget: usize, sink: &mut dyn FnMut(Vec<CrashCase>)) -> usize {
    // positions of sync events
    let mut cases = vec![];
    let mut emitted = 0usize;
    let mut durable = initial.to_vec();
    let mut last_sync = 0usize; // log index after the last sync
    // choose cut points: all boundaries inside commit-bearing steps when small, sampled otherwise
    let total = log.len();
    let stride = (total / budget.max(1)).max(1);
    let mut next_cut = 0usize;
    for k in 0..=total {
        // durable state before event k is maintained incrementally
        if k > 0 {
            if let Ev::Sync = &log[k - 1] {
                for e in &log[last_sync..k] {
                    apply_all(&mut durable, e);
                }
                last_sync = k;
            }
        }
        // always cut around syncs and around every change of the file length (a truncation or
        // extension that becomes durable before / without the writes around it)
        let near_setlen = (k > 0 && matches!(log[k - 1], Ev::SetLen(_))) || (k < total && matches!(log[k], Ev::SetLen(_))) || (k > 1 && matches!(log[k - 2], Ev::SetLen(_)));
        let take = k >= next_cut || near_setlen || (k > 0 && matches!(log[k - 1], Ev::Sync)) || (k < total && matches!(log[k], Ev::Sync));
        if !take {
            continue;
        }
        next_cut = k + 1 + rng.below(stride as u64 * 2) as usize;
        let step = match steps.iter().find(|s| s.from <= k && k <= s.to) {
            Some(s) => s,
            None => continue,
        };
        let pending: Vec<&Ev> = log[last_sync..k].iter().filter(|e| matches!(e, Ev::Write { .. } | Ev::SetLen(_))).collect();
        for (name, ch) in choices(&pending, rng, thorough) {
            let image = build_image(&durable, &pending, &ch);
            cases.push(CrashCase { desc: format!("cut={k}/{total} step=[{}] pending={} variant={name}", step.desc, pending.len()), image, allowed: step.allowed.clone() });
            if cases.len() >= 64 {
                emitted += cases.len();
                sink(std::mem::take(&mut cases));
            }
        }
    }
    emitted += cases.len();
    if !cases.is_empty() {
        sink(cases);
    }
    emitted
}

fn run_cases(cases: Vec<CrashCase>, cfg: &Cfg, out: &mut Out, generation: u32, second: &mut Vec<(Vec<u8>, Vec<Ev>, Allowed, String)>, keep_logs: usize) {
    let threads = 16usize;
    let cases = Arc::new(cases);
    let results: Arc<Mutex<Vec<(usize, Verdict, Option<(Vec<u8>, Vec<Ev>)>)>>> = Arc::new(Mutex::new(vec![]));
    let next = Arc::new(std::sync::atomic::AtomicUsize::new(0));
    std::thread::scope(|s| {
        for _ in 0..threads {
            let cases = cases.clone();
            let results = results.clone();
            let next = next.clone();
            let cfg = Cfg { page: cfg.page, region: cfg.region, cache: cfg.cache };
            s.spawn(move || loop {
                let i = next.fetch_add(1, Ordering::SeqCst);
                if i >= cases.len() {
                    break;
                }
                let record = generation == 1 && i % 7 == 0;
                let (v, log) = check_image(cases[i].image.clone(), &cfg, &cases[i].allowed, record);
                results.lock().unwrap().push((i, v, log));
            });
        }
    });
    let mut results = std::mem::take(&mut *results.lock().unwrap());
    results.sort_by_key(|r| r.0);
    for (i, v, log) in results {
        out.count(&format!("images_gen{generation}"));
        out.count("evaluations");
        if let Some(r) = v.recovered {
            out.count(if r + 1 == cases[i].allowed.points.len() { "recovered_newest_allowed" } else { "recovered_older_allowed" });
        }
        if v.ok && generation == 1 && (i * 2654435761) % 97 < 1 {
            // function correspondence of the recovery model: the Lean `recover` on the same image
            // must choose a slot whose decoded contents are what the real recovery served
            if let Some(r) = v.recovered {
                let path = crate::image::save("crash", &cases[i].image);
                out.line(&format!("img recover {path} {} {}", cfg.page, cases[i].allowed.points[r].0.tablespecs()));
                out.count("recover_images");
            }
        }
        if !v.ok {
            out.oracle_fail(format!("crash-recovery|generation {generation}: {} -> {}", cases[i].desc, v.what));
        } else if let Some((img, l)) = log {
            if second.len() < keep_logs && l.iter().any(|e| matches!(e, Ev::Write { .. })) {
                second.push((img, l, cases[i].allowed.clone(), cases[i].desc.clone()));
            }
        }
    }
}

pub fn run(args: &Args) {
    let mut out = Out::new(&args.out);
    let mut rng = Rng::new(args.seed ^ 0xC01);
    out.comment(&format!("C01 crash seed={} thorough={}", args.seed, args.thorough));
    let focus_c13 = args.extra.iter().any(|a| a == "c13");
    let histories = if args.thorough { 24 } else if focus_c13 { 1 } else { 4 };
    let only: Option<usize> = args.extra.iter().position(|a| a == "--only-case").and_then(|i| args.extra.get(i + 1)).and_then(|x| x.parse().ok());
    for case_index in 0..histories {
        let mut r = rng.fork();
        if only.is_some_and(|o| o != case_index + 1) {
            continue;
        }
        let page = *r.pick(&[512usize, 512, 1024]);
        let cfg = Cfg { page, region: *r.pick(&[65536u64, 65536, 1 << 20]).max(&(page as u64 * 64)), cache: *r.pick(&[0usize, 65536, 1 << 30]) };
        // `--focus c13`: histories that end in compaction attempts (refused ones and real ones), so
        // that crash points fall inside compaction's relocating and draining commits
        let focus = args.extra.iter().position(|a| a == "--focus").and_then(|i| args.extra.get(i + 1)).cloned().unwrap_or_else(|| "c01".to_string());
        let mut steps = gen_history(&mut r, &focus, false, page);
        steps.retain(|s| !matches!(s, Step::CrashReopen));
        if focus == "c13" {
            // keep the tail (the structured compaction attempts are appended at the end)
            let keep = if args.thorough { 40 } else { 18 };
            if steps.len() > keep {
                let cut = steps.len() - keep;
                steps.drain(1..=cut.min(steps.len() - 2));
            }
        } else {
            steps.truncate(if args.thorough { 30 } else { 14 });
        }
        // a tail in which the file shrinks: bulk data committed with two-phase / quick-repair
        // commits, most of it removed, then a clean close (whose final commit trims the file) -
        // the crash points inside a shrinking commit and inside the close are what growth-only
        // histories never reach
        if focus != "c13" && (case_index % 2 == 1 || args.thorough) {
            use crate::history::{End, Op, TxnSpec};
            let mk = |r: &mut Rng, ops: Vec<Op>, strong: bool| Step::Txn(TxnSpec {
                durability: redb::Durability::Immediate,
                two_phase: strong,
                quick_repair: strong && r.chance(1, 2),
                sp_ops: vec![],
                ops,
                end: End::Commit,
            });
            let n = r.range(100, 220);
            let ops = vec![Op::Bulk(0, 1000, n, page / 2)];
            steps.push(mk(&mut r, ops, true));
            let strong = r.chance(2, 3);
            steps.push(mk(&mut r, vec![Op::BulkRemove(0, 1000, 400)], strong));
            let strong = r.chance(2, 3);
            steps.push(mk(&mut r, vec![], strong));
            steps.push(Step::Reopen);
        }
        out.begin_case(&format!("crash history page={page} region={} cache={} steps={}", cfg.region, cfg.cache, steps.len()));
        // run the history with recording on (after creation: the property quantifies over
        // histories that follow a completed Database creation)
        let mut scratch = Out::new("/dev/null");
        let mut w = World::new(Cfg { page: cfg.page, region: cfg.region, cache: cfg.cache }, "c01");
        let initial = w.backend.snapshot();
        w.backend.mon.record.store(true, Ordering::SeqCst);
        let mut records: Vec<StepRecord> = vec![];
        let mut full_log: Vec<Ev> = vec![];
        let mut ok = true;
        let res = catch_unwind(AssertUnwindSafe(|| {
            for s in &steps {
                let before: Vec<(Model, BTreeSet<u64>)> = w.window.iter().map(|(m, p)| (m.clone(), p.keys().copied().collect())).collect();
                let from = full_log.len();
                let cont = w.run_step(s, &mut scratch);
                // a reopen replaces the backend instance: collect its log before moving on
                let mut l = std::mem::take(&mut *w.backend.mon.log.lock().unwrap());
                if matches!(s, Step::Reopen) {
                    // the closing instance logged into the previous monitor
                    w.backend.mon.record.store(true, Ordering::SeqCst);
                }
                full_log.append(&mut l);
                let mut points = before;
                let after = (w.committed.clone(), w.psp.keys().copied().collect::<BTreeSet<u64>>());
                if points.last() != Some(&after) {
                    points.push(after);
                }
                records.push(StepRecord { desc: describe(s).chars().take(120).collect(), from, to: full_log.len(), allowed: Allowed { points } });
                if !cont {
                    break;
                }
            }
        }));
        if res.is_err() || !scratch.oracle_failures.is_empty() {
            for f in &scratch.oracle_failures {
                out.oracle_fail(format!("crash-base-history|{f}"));
            }
            if res.is_err() {
                out.oracle_fail("crash-base-history|panic while running the base history".into());
            }
            ok = false;
        }
        drop(w);
        out.add("log_events", full_log.len() as u64);
        out.add("log_syncs", full_log.iter().filter(|e| matches!(e, Ev::Sync)).count() as u64);
        if ok && case_index < (if args.thorough { 8 } else { 2 }) {
            // the recorded storage stream for the Lean protocol monitor
            out.line(&format!("st begin {} {}", cfg.page, crate::out::hex(&initial[..320.min(initial.len())])));
            out.line(&format!("st image {}", crate::image::save("st", &initial)));
            for e in &full_log {
                match e {
                    Ev::Write { off: 0, data } => out.line(&format!("st h {}", crate::out::hex(data))),
                    Ev::Write { off, data } => out.line(&format!("st w {off} {}", crate::out::hex(data))),
                    Ev::SetLen(n) => out.line(&format!("st setlen {n}")),
                    Ev::Sync => out.line("st sync"),
                    Ev::Close => out.line("st close"),
                    Ev::Marker(m) => out.line(&format!("st mark {m}")),
                }
            }
            out.line("st end");
            out.count("storage_streams");
        }
        if ok {
            let budget = if args.thorough { 300 } else { 90 };
            let mut second: Vec<(Vec<u8>, Vec<Ev>, Allowed, String)> = vec![];
            let keep = if args.thorough { 40 } else if focus_c13 { 3 } else { 8 };
            let n1 = {
                let mut sink = |chunk: Vec<CrashCase>| run_cases(chunk, &cfg, &mut out, 1, &mut second, keep);
                enumerate(&initial, &full_log, &records, &mut r, args.thorough, budget, &mut sink)
            };
            out.line(&format!("crash history events={} cut-cases={n1}", full_log.len()));
            // second generation: crash during the recovery run of a surviving image
            let mut n2 = 0;
            for (img, log, allowed, desc) in second {
                let rec = vec![StepRecord { desc: format!("recovery of <{}>", desc.chars().take(80).collect::<String>()), from: 0, to: log.len(), allowed }];
                let mut none = vec![];
                let mut sink = |chunk: Vec<CrashCase>| run_cases(chunk, &cfg, &mut out, 2, &mut none, 0);
                n2 += enumerate(&img, &log, &rec, &mut r, false, 25, &mut sink);
            }
            out.line(&format!("crash second-generation cases={n2}"));
        }
        out.end_case(ok);
        out.count("histories");
    }
    let _ = fnv64;
    out.finish(&args.summary, &[]);
}
