//! C19: files stay readable across releases that share the file format. The same generated
//! programs are run with this code and with redb 3.0.0 (from the offline registry); every file
//! written by one is opened by the other: check_integrity() must pass and the contents must be
//! identical; clean-closed and crash-recovered files; variable-width keys with long shared
//! prefixes (shortened routing keys), multimaps with subtrees, persistent savepoints. Every image
//! also goes through the Lean format checker (`img check`).
use crate::out::Out;
use crate::rng::Rng;
use crate::table::fnv64;
use crate::Args;
use std::collections::{BTreeMap, BTreeSet};
use std::panic::{catch_unwind, AssertUnwindSafe};
use std::sync::{Arc, Mutex};

#[derive(Clone, Debug)]
enum Op {
    PutA(u64, usize),
    DelA(u64),
    PutS(String, usize),
    DelS(String),
    MmAdd(u64, u64, u64),
    MmDel(u64, u64, u64),
    Savepoint,
    /// create and drop this many ephemeral savepoints at the start of the transaction (they
    /// share the id counter with the persistent ones)
    EphemeralSavepoints(u64),
    /// delete the n-th (modulo their number) persistent savepoint that existed before the transaction
    DeleteSavepoint(u64),
}

#[derive(Clone, PartialEq, Eq, Default, Debug)]
struct Contents {
    a: BTreeMap<u64, Vec<u8>>,
    s: BTreeMap<String, Vec<u8>>,
    mm: BTreeMap<u64, BTreeSet<u64>>,
    savepoints: BTreeSet<u64>,
}

impl Contents {
    fn digest(&self) -> String {
        let mut h = 0u64;
        for (k, v) in &self.a {
            h = h.rotate_left(5) ^ fnv64(&[&k.to_le_bytes(), v]);
        }
        for (k, v) in &self.s {
            h = h.rotate_left(5) ^ fnv64(&[k.as_bytes(), v]);
        }
        for (k, s) in &self.mm {
            for v in s {
                h = h.rotate_left(7) ^ fnv64(&[&k.to_le_bytes(), &v.to_le_bytes()]);
            }
        }
        format!("{}+{}+{}+sp{:?}:{h:016x}", self.a.len(), self.s.len(), self.mm.values().map(|s| s.len()).sum::<usize>(), self.savepoints)
    }
    fn tablespecs(&self) -> String {
        let a: Vec<(Vec<u8>, Vec<u8>)> = self.a.iter().map(|(k, v)| (k.to_le_bytes().to_vec(), v.clone())).collect();
        // str keys order byte-wise, as BTreeMap<String> does
        let s: Vec<(Vec<u8>, Vec<u8>)> = self.s.iter().map(|(k, v)| (k.as_bytes().to_vec(), v.clone())).collect();
        let m: Vec<(Vec<u8>, Vec<Vec<u8>>)> = self.mm.iter().map(|(k, s)| (k.to_le_bytes().to_vec(), s.iter().map(|x| x.to_le_bytes().to_vec()).collect())).collect();
        let total: usize = m.iter().map(|e| e.1.len()).sum();
        format!(
            "a:normal:u64:bytes:{}:{:016x} s:normal:str:bytes:{}:{:016x} mm:multimap:u64:u64:{}:{}:{:016x}",
            a.len(),
            crate::table::dump_hash(&a),
            s.len(),
            crate::table::dump_hash(&s),
            m.len(),
            total,
            crate::mm::dump_hash(&m)
        )
    }
}

fn val(len: usize, seed: u64) -> Vec<u8> {
    (0..len).map(|i| ((i as u64 * 31 + seed) & 0xff) as u8).collect()
}

/// a backend over shared bytes, implemented for both crate versions
#[derive(Debug, Clone)]
struct Shared(Arc<Mutex<Vec<u8>>>, Option<Arc<Mutex<Vec<crate::backend::Ev>>>>);

macro_rules! impl_backend {
    ($krate:ident) => {
        impl $krate::StorageBackend for Shared {
            fn len(&self) -> Result<u64, std::io::Error> {
                Ok(self.0.lock().unwrap().len() as u64)
            }
            fn read(&self, offset: u64, out: &mut [u8]) -> Result<(), std::io::Error> {
                let d = self.0.lock().unwrap();
                let end = offset as usize + out.len();
                if end > d.len() {
                    return Err(std::io::Error::new(std::io::ErrorKind::InvalidInput, "read out of range"));
                }
                out.copy_from_slice(&d[offset as usize..end]);
                Ok(())
            }
            fn set_len(&self, len: u64) -> Result<(), std::io::Error> {
                self.0.lock().unwrap().resize(len as usize, 0);
                if let Some(l) = &self.1 {
                    l.lock().unwrap().push(crate::backend::Ev::SetLen(len));
                }
                Ok(())
            }
            fn sync_data(&self) -> Result<(), std::io::Error> {
                if let Some(l) = &self.1 {
                    l.lock().unwrap().push(crate::backend::Ev::Sync);
                }
                Ok(())
            }
            fn write(&self, offset: u64, data: &[u8]) -> Result<(), std::io::Error> {
                let mut d = self.0.lock().unwrap();
                let end = offset as usize + data.len();
                if end > d.len() {
                    return Err(std::io::Error::new(std::io::ErrorKind::InvalidInput, "write out of range"));
                }
                d[offset as usize..end].copy_from_slice(data);
                if let Some(l) = &self.1 {
                    l.lock().unwrap().push(crate::backend::Ev::Write { off: offset, data: data.to_vec() });
                }
                Ok(())
            }
        }
    };
}
impl_backend!(redb);
impl_backend!(redb3_0);

macro_rules! version {
    ($modname:ident, $krate:ident) => {
        mod $modname {
            use super::*;
            use $krate::{MultimapTableDefinition, ReadableDatabase, ReadableMultimapTable, ReadableTable, ReadableTableMetadata, TableDefinition};
            const A: TableDefinition<u64, &[u8]> = TableDefinition::new("a");
            const S: TableDefinition<&str, &[u8]> = TableDefinition::new("s");
            const MM: MultimapTableDefinition<u64, u64> = MultimapTableDefinition::new("mm");

            pub fn open(bytes: &Arc<Mutex<Vec<u8>>>) -> Result<$krate::Database, String> {
                $krate::Builder::new().create_with_backend(Shared(bytes.clone(), None)).map_err(|e| format!("{e:?}"))
            }

            /// as `open`, recording every write / set_len / sync_data into `log`
            pub fn open_recorded(bytes: &Arc<Mutex<Vec<u8>>>, log: &Arc<Mutex<Vec<crate::backend::Ev>>>) -> Result<$krate::Database, String> {
                $krate::Builder::new().create_with_backend(Shared(bytes.clone(), Some(log.clone()))).map_err(|e| format!("{e:?}"))
            }

            /// runs the transactions; returns the committed contents after each transaction
            pub fn run(db: &$krate::Database, txns: &[Vec<Op>], start: &Contents) -> Result<Vec<Contents>, String> {
                let mut cur = start.clone();
                let mut points = vec![];
                for ops in txns {
                    let txn = db.begin_write().map_err(|e| format!("{e:?}"))?;
                    for op in ops {
                        if let Op::EphemeralSavepoints(n) = op {
                            for _ in 0..*n {
                                drop(txn.ephemeral_savepoint().map_err(|e| format!("{e:?}"))?);
                            }
                        }
                    }
                    let existing: Vec<u64> = cur.savepoints.iter().copied().collect();
                    if ops.iter().any(|o| matches!(o, Op::Savepoint)) {
                        let id = txn.persistent_savepoint().map_err(|e| format!("{e:?}"))?;
                        cur.savepoints.insert(id);
                    }
                    for op in ops {
                        if let Op::DeleteSavepoint(n) = op {
                            if !existing.is_empty() {
                                let id = existing[(*n % existing.len() as u64) as usize];
                                let was = txn.delete_persistent_savepoint(id).map_err(|e| format!("{e:?}"))?;
                                if was != cur.savepoints.remove(&id) {
                                    return Err(format!("delete_persistent_savepoint({id}) returned {was}"));
                                }
                            }
                        }
                    }
                    {
                        let mut a = txn.open_table(A).map_err(|e| format!("{e:?}"))?;
                        let mut s = txn.open_table(S).map_err(|e| format!("{e:?}"))?;
                        let mut mm = txn.open_multimap_table(MM).map_err(|e| format!("{e:?}"))?;
                        for op in ops {
                            match op {
                                Op::PutA(k, len) => {
                                    let v = val(*len, *k);
                                    a.insert(*k, v.as_slice()).map_err(|e| format!("{e:?}"))?;
                                    cur.a.insert(*k, v);
                                }
                                Op::DelA(k) => {
                                    a.remove(*k).map_err(|e| format!("{e:?}"))?;
                                    cur.a.remove(k);
                                }
                                Op::PutS(k, len) => {
                                    let v = val(*len, k.len() as u64);
                                    s.insert(k.as_str(), v.as_slice()).map_err(|e| format!("{e:?}"))?;
                                    cur.s.insert(k.clone(), v);
                                }
                                Op::DelS(k) => {
                                    s.remove(k.as_str()).map_err(|e| format!("{e:?}"))?;
                                    cur.s.remove(k);
                                }
                                Op::MmAdd(k, start, n) => {
                                    for v in *start..*start + *n {
                                        mm.insert(*k, v).map_err(|e| format!("{e:?}"))?;
                                        cur.mm.entry(*k).or_default().insert(v);
                                    }
                                }
                                Op::MmDel(k, start, n) => {
                                    for v in *start..*start + *n {
                                        mm.remove(*k, v).map_err(|e| format!("{e:?}"))?;
                                        if let Some(set) = cur.mm.get_mut(k) {
                                            set.remove(&v);
                                            if set.is_empty() {
                                                cur.mm.remove(k);
                                            }
                                        }
                                    }
                                }
                                Op::Savepoint | Op::EphemeralSavepoints(_) | Op::DeleteSavepoint(_) => {}
                            }
                        }
                    }
                    txn.commit().map_err(|e| format!("{e:?}"))?;
                    points.push(cur.clone());
                }
                Ok(points)
            }

            pub fn read(db: &$krate::Database) -> Result<Contents, String> {
                let mut c = Contents::default();
                let rt = db.begin_read().map_err(|e| format!("{e:?}"))?;
                match rt.open_table(A) {
                    Ok(t) => {
                        for e in t.iter().map_err(|e| format!("{e:?}"))? {
                            let (k, v) = e.map_err(|e| format!("{e:?}"))?;
                            c.a.insert(k.value(), v.value().to_vec());
                        }
                        if t.len().map_err(|e| format!("{e:?}"))? as usize != c.a.len() {
                            return Err("len mismatch in table a".into());
                        }
                    }
                    Err($krate::TableError::TableDoesNotExist(_)) => {}
                    Err(e) => return Err(format!("{e:?}")),
                }
                match rt.open_table(S) {
                    Ok(t) => {
                        for e in t.iter().map_err(|e| format!("{e:?}"))? {
                            let (k, v) = e.map_err(|e| format!("{e:?}"))?;
                            c.s.insert(k.value().to_string(), v.value().to_vec());
                        }
                        // point lookups route through the (possibly shortened) separators
                        for (k, v) in &c.s {
                            match t.get(k.as_str()).map_err(|e| format!("{e:?}"))? {
                                Some(g) if g.value() == v.as_slice() => {}
                                _ => return Err(format!("lookup of key of length {} does not find its entry", k.len())),
                            }
                        }
                    }
                    Err($krate::TableError::TableDoesNotExist(_)) => {}
                    Err(e) => return Err(format!("{e:?}")),
                }
                match rt.open_multimap_table(MM) {
                    Ok(t) => {
                        for e in t.iter().map_err(|e| format!("{e:?}"))? {
                            let (k, vals) = e.map_err(|e| format!("{e:?}"))?;
                            let mut set = BTreeSet::new();
                            for v in vals {
                                set.insert(v.map_err(|e| format!("{e:?}"))?.value());
                            }
                            c.mm.insert(k.value(), set);
                        }
                    }
                    Err($krate::TableError::TableDoesNotExist(_)) => {}
                    Err(e) => return Err(format!("{e:?}")),
                }
                drop(rt);
                let txn = db.begin_write().map_err(|e| format!("{e:?}"))?;
                c.savepoints = txn.list_persistent_savepoints().map_err(|e| format!("{e:?}"))?.collect();
                txn.abort().map_err(|e| format!("{e:?}"))?;
                Ok(c)
            }

            pub fn check_integrity(db: &mut $krate::Database) -> Result<bool, String> {
                db.check_integrity().map_err(|e| format!("{e:?}"))
            }
        }
    };
}
version!(cur, redb);
version!(old, redb3_0);

fn gen_txns(rng: &mut Rng, thorough: bool) -> Vec<Vec<Op>> {
    let n = rng.range(2, if thorough { 7 } else { 4 });
    let prefixes = ["shared/prefix/of/considerable/length/", "shared/prefix/of/considerable/length/\u{e9}\u{e9}\u{e9}", "k", ""];
    (0..n)
        .map(|i| {
            let mut ops = vec![];
            if i > 0 && rng.chance(1, 4) {
                ops.push(Op::Savepoint);
            }
            for _ in 0..rng.range(5, if thorough { 80 } else { 40 }) {
                ops.push(match rng.below(10) {
                    0..=2 => Op::PutA(rng.below(500), *rng.pick(&[0usize, 10, 200, 1500, 4090, 9000])),
                    3 => Op::DelA(rng.below(500)),
                    4..=6 => {
                        let mut k = rng.pick(&prefixes).to_string();
                        if rng.chance(1, 2) {
                            // keys of different lengths next to each other: the right neighbour may be
                            // just the shared prefix plus one character while the left one is longer
                            for _ in 0..rng.below(4) {
                                k.push(*rng.pick(&['a', 'b', 'c', '\u{e9}']));
                            }
                            Op::PutS(k, *rng.pick(&[100usize, 700, 700, 1500]))
                        } else {
                            k.push_str(&"x".repeat(rng.below(60) as usize));
                            k.push_str(&format!("{:04}", rng.below(300)));
                            Op::PutS(k, *rng.pick(&[0usize, 8, 100, 700, 3000]))
                        }
                    }
                    7 => {
                        let mut k = rng.pick(&prefixes).to_string();
                        k.push_str(&format!("{:04}", rng.below(300)));
                        Op::DelS(k)
                    }
                    8 => Op::MmAdd(rng.below(6), rng.below(100), *rng.pick(&[1u64, 5, 400, 2500])),
                    _ => Op::MmDel(rng.below(6), rng.below(100), *rng.pick(&[1u64, 5, 300])),
                });
            }
            ops
        })
        .collect::<Vec<_>>()
        .into_iter()
        .enumerate()
        .map(|(i, mut ops)| {
            // savepoint traffic, drawn after the data operations (the data part of a program is
            // the same as it was before these were added)
            if rng.chance(1, 4) {
                ops.push(Op::EphemeralSavepoints(*rng.pick(&[1u64, 4, 40, 300])));
            }
            if i > 0 && rng.chance(1, 6) {
                ops.push(Op::DeleteSavepoint(rng.below(4)));
            }
            ops
        })
        .collect()
}

/// a long savepoint history: persistent savepoints created early and late, with hundreds of
/// ephemeral ones in between (ids of more than one byte), some deleted again
fn savepoint_program(variant: u64) -> Vec<Vec<Op>> {
    let data = |base: u64| -> Vec<Op> { (0..12).map(|k| Op::PutA(base + k, 300)).chain((0..6).map(|k| Op::PutS(format!("sp/{base}/{k:03}"), 120))).collect() };
    let with = |mut ops: Vec<Op>, extra: Vec<Op>| -> Vec<Op> {
        ops.extend(extra);
        ops
    };
    // persistent savepoints spread over the id range: a few dozen, a few hundred, beyond 512
    let gaps = [3 + variant, 37, 150 - variant * 3, 70 + variant * 5, 45, 250 + variant * 7];
    let mut txns = vec![data(0)];
    for (i, g) in gaps.iter().enumerate() {
        txns.push(with(data(100 * (i as u64 + 1)), vec![Op::EphemeralSavepoints(*g), Op::Savepoint]));
    }
    txns.push(with(data(800), vec![Op::DeleteSavepoint(variant), Op::MmAdd(1, 0, 30)]));
    txns
}

/// a program in which the file grows by several MiB, the data is deleted again and later commits
/// reclaim and give back the space: ordinary commits that shrink the file
fn shrink_program(variant: u64) -> Vec<Vec<Op>> {
    let n = 30 + variant * 10;
    vec![
        (0..20).map(|k| Op::PutS(format!("k{k:04}"), 100)).collect(),
        (0..n).map(|k| Op::PutA(1000 + k, 150_000 + (k as usize % 3) * 20_000)).collect(),
        (0..n).map(|k| Op::DelA(1000 + k)).collect(),
        vec![Op::PutS("after1".into(), 8)],
        vec![Op::PutS("after2".into(), 8)],
        vec![Op::PutS("after3".into(), 8)],
    ]
}

/// Crash images of a history written by one version, opened by the other: every image built from
/// the recorded storage stream at the cut points around each sync and each change of the file
/// length (pending writes lost / applied / torn as in the C01 crash model) must open, show the
/// contents of the commit before or the commit in flight, and survive check_integrity().
fn crash_images_cross_version(out: &mut Out, txns: &[Vec<Op>], new_writes: bool, rng: &mut Rng, thorough: bool) -> Result<(), String> {
    use crate::backend::Ev;
    let bytes = Arc::new(Mutex::new(vec![]));
    let log: Arc<Mutex<Vec<Ev>>> = Arc::new(Mutex::new(vec![]));
    // creation is not part of the stream (the properties quantify over histories after creation)
    let mut points: Vec<Contents> = vec![Contents::default()];
    let mut bounds: Vec<usize> = vec![];
    let initial;
    if new_writes {
        let db = cur::open_recorded(&bytes, &log)?;
        initial = bytes.lock().unwrap().clone();
        log.lock().unwrap().clear();
        for t in txns {
            let p = cur::run(&db, std::slice::from_ref(t), points.last().unwrap())?.pop().unwrap();
            points.push(p);
            bounds.push(log.lock().unwrap().len());
        }
        let snapshot: Vec<Ev> = std::mem::take(&mut *log.lock().unwrap());
        drop(db);
        *log.lock().unwrap() = snapshot;
    } else {
        let db = old::open_recorded(&bytes, &log)?;
        initial = bytes.lock().unwrap().clone();
        log.lock().unwrap().clear();
        for t in txns {
            let p = old::run(&db, std::slice::from_ref(t), points.last().unwrap())?.pop().unwrap();
            points.push(p);
            bounds.push(log.lock().unwrap().len());
        }
        let snapshot: Vec<Ev> = std::mem::take(&mut *log.lock().unwrap());
        drop(db);
        *log.lock().unwrap() = snapshot;
    }
    let log = log.lock().unwrap().clone();
    let total = log.len();
    let mut durable = initial.clone();
    let mut last_sync = 0usize;
    let reader = if new_writes { "redb 3.0.0" } else { "this code" };
    let mut images = 0u64;
    for k in 0..=total {
        if k > 0 {
            if let Ev::Sync = &log[k - 1] {
                for e in &log[last_sync..k] {
                    crate::crash::apply_all(&mut durable, e);
                }
                last_sync = k;
            }
        }
        let near = |i: usize| i < total && matches!(log[i], Ev::Sync | Ev::SetLen(_));
        let take = near(k) || (k > 0 && near(k - 1)) || (k > 1 && matches!(log[k - 2], Ev::SetLen(_)));
        if !take {
            continue;
        }
        // the transaction in flight at this cut
        let i = bounds.iter().position(|b| k <= *b).unwrap_or(bounds.len() - 1);
        let allowed = [&points[i], &points[i + 1]];
        let pending: Vec<&Ev> = log[last_sync..k].iter().filter(|e| matches!(e, Ev::Write { .. } | Ev::SetLen(_))).collect();
        let mut variants = crate::crash::choices(&pending, rng, false);
        if !thorough {
            variants.retain(|(name, _)| matches!(name.as_str(), "clean" | "none" | "all" | "header-only" | "all-but-header" | "set_len-lost" | "set_len-only"));
        }
        for (name, ch) in variants {
            let img = crate::crash::build_image(&durable, &pending, &ch);
            if !new_writes {
                // redb 3.0.0 is not crash-safe under this crash model in every window (e.g. its grow()
                // writes the header with the new layout before the longer file is durable): an image
                // that 3.0.0 itself cannot recover is not a "crash-recovered file" of that release
                let own = Arc::new(Mutex::new(img.clone()));
                let ok = catch_unwind(AssertUnwindSafe(|| -> Result<Contents, String> {
                    let db = old::open(&own)?;
                    old::read(&db)
                }));
                if !matches!(&ok, Ok(Ok(got)) if allowed.iter().any(|a| *a == got)) {
                    out.count("images_the_old_release_cannot_recover_itself");
                    continue;
                }
            }
            let b2 = Arc::new(Mutex::new(img));
            let res = catch_unwind(AssertUnwindSafe(|| -> Result<Contents, String> {
                if new_writes {
                    let mut db = old::open(&b2)?;
                    let got = old::read(&db)?;
                    old::check_integrity(&mut db)?;
                    Ok(got)
                } else {
                    let mut db = cur::open(&b2)?;
                    let got = cur::read(&db)?;
                    cur::check_integrity(&mut db)?;
                    Ok(got)
                }
            }));
            images += 1;
            out.count("cross_version_crash_images");
            let what = match res {
                Ok(Ok(got)) if allowed.iter().any(|a| **a == got) => continue,
                Ok(Ok(got)) => format!("shows {} which is neither the commit before ({}) nor the commit in flight ({})", got.digest(), allowed[0].digest(), allowed[1].digest()),
                Ok(Err(e)) => format!("fails: {e}"),
                Err(p) => format!("panics: {}", p.downcast_ref::<String>().cloned().or_else(|| p.downcast_ref::<&str>().map(|s| s.to_string())).unwrap_or_default().lines().next().unwrap_or("")),
            };
            let shape: Vec<String> = pending.iter().map(|e| match e { Ev::Write { off, data } => format!("w{off}+{}", data.len()), Ev::SetLen(n) => format!("setlen{n}"), _ => String::new() }).collect();
            return Err(format!("crash image (cut {k}/{total} in transaction {}, variant {name}; durable length {}, pending {}) of a file written by {}: {reader} {what}", i + 1, durable.len(), shape.join(","), if new_writes { "this code" } else { "redb 3.0.0" }));
        }
    }
    out.add("evaluations", images);
    Ok(())
}

pub fn run(args: &Args) {
    let mut out = Out::new(&args.out);
    let mut rng = Rng::new(args.seed ^ 0xC19);
    out.comment(&format!("C19 compat seed={} thorough={}", args.seed, args.thorough));
    let n = if args.thorough { 400 } else { 24 };
    let debug_case: Option<usize> = std::env::var("VERIF_C19_DEBUG_CASE").ok().and_then(|x| x.parse().ok());
    // corpus first: the situation of the known finding F5 (a cleanly closed file written by this
    // code without a single free page, which redb 3.0.0 has to grow while opening it). Candidate
    // programs come from a fixed generator sequence - independent of --seed - and the first one
    // that produces the situation is run as case 1, so that the finding is re-examined on every run
    let mut plan: Vec<(Vec<Vec<Op>>, bool, bool)> = vec![];
    for i in 0..60u64 {
        let mut rg = Rng::new(0xF5F5 ^ (i * 7919));
        let txns = gen_txns(&mut rg, false);
        let full = catch_unwind(AssertUnwindSafe(|| -> bool {
            let bytes = Arc::new(Mutex::new(vec![]));
            let Ok(db) = cur::open(&bytes) else { return false };
            if cur::run(&db, &txns, &Contents::default()).is_err() {
                return false;
            }
            drop(db);
            let len = bytes.lock().unwrap().len();
            let Ok(db) = old::open(&bytes) else { return false };
            let grew = bytes.lock().unwrap().len() > len;
            drop(db);
            grew
        }))
        .unwrap_or(false);
        if full {
            plan.push((txns, true, false));
            break;
        }
    }
    // long savepoint histories, in both directions, clean-closed and crashed
    for v in 0..4u64 {
        plan.push((savepoint_program(args.seed.wrapping_add(v) % 5), v % 2 == 0, v >= 2));
    }
    for case in 0..n {
        let mut r = rng.fork();
        let txns = gen_txns(&mut r, args.thorough);
        plan.push((txns, case % 2 == 0, case % 3 == 2));
    }
    for (case, (txns, new_writes_first, crash)) in plan.into_iter().enumerate() {
        if debug_case == Some(case + 1) {
            // diagnosis of an integrity verdict: every writer / checker combination on the same program
            eprintln!("DEBUG txns: {:?}", txns.iter().map(|t| (t.len(), t.iter().filter(|o| matches!(o, Op::Savepoint)).count())).collect::<Vec<_>>());
            for writer_new in [true, false] {
                let bytes = Arc::new(Mutex::new(vec![]));
                if writer_new {
                    let db = cur::open(&bytes).unwrap();
                    cur::run(&db, &txns, &Contents::default()).unwrap();
                    drop(db);
                } else {
                    let db = old::open(&bytes).unwrap();
                    old::run(&db, &txns, &Contents::default()).unwrap();
                    drop(db);
                }
                let image = bytes.lock().unwrap().clone();
                for checker_new in [true, false] {
                    let b2 = Arc::new(Mutex::new(image.clone()));
                    let verdict = if checker_new {
                        let mut db = cur::open(&b2).unwrap();
                        cur::check_integrity(&mut db)
                    } else {
                        let mut db = old::open(&b2).unwrap();
                        old::check_integrity(&mut db)
                    };
                    eprintln!("DEBUG case {} writer={} checker={} len={} verdict={verdict:?} len-after={}", case + 1, if writer_new { "this" } else { "3.0.0" }, if checker_new { "this" } else { "3.0.0" }, image.len(), b2.lock().unwrap().len());
                }
            }
        }
        out.begin_case(&format!("compat writer={} crash={} txns={}", if new_writes_first { "this" } else { "3.0.0" }, crash, txns.len()));
        let res = catch_unwind(AssertUnwindSafe(|| -> Result<(), String> {
            let bytes = Arc::new(Mutex::new(vec![]));
            let points;
            // phase 1: the writer
            let image = if new_writes_first {
                let db = cur::open(&bytes)?;
                points = cur::run(&db, &txns, &Contents::default())?;
                if crash {
                    let img = bytes.lock().unwrap().clone();
                    drop(db);
                    img
                } else {
                    drop(db);
                    bytes.lock().unwrap().clone()
                }
            } else {
                let db = old::open(&bytes)?;
                points = old::run(&db, &txns, &Contents::default())?;
                if crash {
                    let img = bytes.lock().unwrap().clone();
                    drop(db);
                    img
                } else {
                    drop(db);
                    bytes.lock().unwrap().clone()
                }
            };
            let expect = points.last().cloned().unwrap_or_default();
            if !crash {
                let path = crate::image::save("compat", &image);
                out.line(&format!("img check {path} 4096 close {}", expect.tablespecs()));
            }
            // phase 2: the other version opens the file
            let bytes2 = Arc::new(Mutex::new(image));
            let image_len = bytes2.lock().unwrap().len();
            let mut old_open_grew_file = false;
            let mut old_second_check = true;
            let (got, integrity) = if new_writes_first {
                let mut db = old::open(&bytes2).map_err(|e| format!("redb 3.0.0 cannot open a file written by this code: {e}"))?;
                // redb 3.0.0 allocates while opening; on a file that this version's closing trim
                // left without a single free page it has to grow the file to do so
                old_open_grew_file = bytes2.lock().unwrap().len() > image_len;
                let i = old::check_integrity(&mut db)?;
                if !i {
                    old_second_check = old::check_integrity(&mut db)?;
                }
                (old::read(&db)?, i)
            } else {
                let mut db = cur::open(&bytes2).map_err(|e| format!("this code cannot open a file written by redb 3.0.0: {e}"))?;
                let i = cur::check_integrity(&mut db)?;
                (cur::read(&db)?, i)
            };
            let reader = if new_writes_first { "redb 3.0.0" } else { "this code" };
            if crash {
                // all commits were durable (default durability), so the recovered state is the last commit
                if got != expect {
                    return Err(format!("crash-recovered file: {reader} shows {} instead of {}", got.digest(), expect.digest()));
                }
            } else {
                if got != expect {
                    return Err(format!("{reader} shows {} but the writer committed {}", got.digest(), expect.digest()));
                }
                if !integrity && old_open_grew_file && old_second_check {
                    // a specific, diagnosed situation (known_findings.json): contents identical, the
                    // old version's own open grew a completely full file, its stored layout then lags
                    // the file and its check reports a repair (the defect fixed here in 85429cb)
                    out.oracle_fail(format!("compat-3.0.0-repairs-full-file|redb 3.0.0: check_integrity() returned Ok(false) on a cleanly closed file of {image_len} bytes written by this code that has no free page (3.0.0's open grew it); contents identical, second check Ok(true)"));
                } else if !integrity {
                    return Err(format!("{reader}: check_integrity() returned Ok(false) on a cleanly closed file of the other version"));
                }
            }
            // phase 3: the reader continues writing, the original version reads it back
            let more = vec![txns[0].clone()];
            let final_expect;
            if new_writes_first {
                let db = old::open(&bytes2)?;
                final_expect = old::run(&db, &more, &expect)?.pop().unwrap();
                drop(db);
                let db = cur::open(&bytes2).map_err(|e| format!("this code cannot reopen after redb 3.0.0 wrote: {e}"))?;
                let back = cur::read(&db)?;
                if back != final_expect {
                    return Err(format!("after redb 3.0.0 continued writing, this code shows {} instead of {}", back.digest(), final_expect.digest()));
                }
            } else {
                let db = cur::open(&bytes2)?;
                final_expect = cur::run(&db, &more, &expect)?.pop().unwrap();
                drop(db);
                let db = old::open(&bytes2).map_err(|e| format!("redb 3.0.0 cannot reopen after this code wrote: {e}"))?;
                let back = old::read(&db)?;
                if back != final_expect {
                    return Err(format!("after this code continued writing, redb 3.0.0 shows {} instead of {}", back.digest(), final_expect.digest()));
                }
            }
            let path = crate::image::save("compat", &bytes2.lock().unwrap());
            out.line(&format!("img check {path} 4096 close {}", final_expect.tablespecs()));
            Ok(())
        }));
        match res {
            Ok(Ok(())) => out.end_case(true),
            Ok(Err(e)) => {
                out.oracle_fail(if e.starts_with("compat-") { e } else { format!("compat|{e}") });
                out.end_case(false);
            }
            Err(p) => {
                let msg = p.downcast_ref::<String>().cloned().or_else(|| p.downcast_ref::<&str>().map(|s| s.to_string())).unwrap_or_default();
                out.oracle_fail(format!("compat-panic|{}", msg.lines().next().unwrap_or("")));
                out.end_case(false);
            }
        }
        out.count("programs");
    }
    // crash-recovered files across versions: shrinking programs (both directions) and, in the
    // thorough tier, random programs as well
    let mut progs: Vec<(Vec<Vec<Op>>, bool)> = vec![(shrink_program(args.seed % 3), true), (shrink_program((args.seed + 1) % 3), false), (savepoint_program(args.seed % 5), args.seed % 2 == 0)];
    for i in 0..(if args.thorough { 12 } else { 2 }) {
        let mut r = rng.fork();
        progs.push((gen_txns(&mut r, args.thorough), i % 2 == 0));
    }
    for (txns, new_writes) in progs {
        out.begin_case(&format!("compat crash-images writer={} txns={}", if new_writes { "this" } else { "3.0.0" }, txns.len()));
        let mut r = rng.fork();
        let res = catch_unwind(AssertUnwindSafe(|| crash_images_cross_version(&mut out, &txns, new_writes, &mut r, args.thorough)));
        match res {
            Ok(Ok(())) => out.end_case(true),
            Ok(Err(e)) => {
                out.oracle_fail(format!("compat-crash|{e}"));
                out.end_case(false);
            }
            Err(_) => {
                out.oracle_fail("compat-panic|panic while building crash images".into());
                out.end_case(false);
            }
        }
        out.count("programs");
    }
    out.finish(&args.summary, &[]);
}
