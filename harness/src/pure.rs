//! C15: built-in key types. For a registry of concrete Rust key types, generated values are
//! encoded with the real `Value::as_bytes`, compared with the real `Key::compare`, separated with
//! the real `Key::separator` / `branch_separator`, and every answer is written for the Lean
//! driver. The property's own predicate is evaluated here on the implementation alone:
//! compare == native `Ord`, decode(encode(v)) == v, a <= s < b, len(s) <= len(a), s decodes.
use crate::out::{hex, Out};
use crate::rng::Rng;
use crate::Args;
use redb::{Key, Value};
use std::cmp::Ordering;
use std::panic::{catch_unwind, AssertUnwindSafe};

fn ord_str(o: Ordering) -> &'static str {
    match o {
        Ordering::Less => "lt",
        Ordering::Equal => "eq",
        Ordering::Greater => "gt",
    }
}

/// One registered key type: how to generate native values, encode them, and the real functions.
pub struct KeyCase<V> {
    desc: &'static str,
    generate: Box<dyn Fn(&mut Rng) -> V>,
    enc: Box<dyn Fn(&V) -> Vec<u8>>,
    /// canonical text of the native value for the value-level lines (`key enc`, `key vcmp`), see `VText`
    text: Box<dyn Fn(&V) -> String>,
    /// decode(bytes) == v, using the real from_bytes
    roundtrip: Box<dyn Fn(&V, &[u8]) -> bool>,
    /// from_bytes on arbitrary bytes must not panic for a valid encoding
    decodes: Box<dyn Fn(&[u8]) -> bool>,
    cmp: fn(&[u8], &[u8]) -> Ordering,
    sep: fn(&[u8], &[u8]) -> Vec<u8>,
    bsep: fn(&[u8], &[u8]) -> Vec<u8>,
    min: fn() -> Option<Vec<u8>>,
    fw: fn() -> Option<usize>,
}

fn sep_of<K: Key>(l: &[u8], r: &[u8]) -> Vec<u8> {
    K::separator(l, r).into_owned()
}
fn bsep_of<K: Key>(l: &[u8], r: &[u8]) -> Vec<u8> {
    redb::verif::verif_branch_separator::<K>(l, r)
}
fn min_of<K: Key>() -> Option<Vec<u8>> {
    K::min_encoded_key().map(|c| c.into_owned())
}

/// Canonical text of a native value, parsed by the Lean driver (Driver/KeyVal.lean) into the
/// model's `Val`: `n:` unit, `b:0|1`, `c:<hex scalar>`, `u:<dec>`, `i:<dec>`, `s:[<hex scalar>,..]`
/// (a string as its chars, NOT its UTF-8 bytes, so that the model's UTF-8 encoder is what gets
/// compared with `as_bytes`), `y:<hex>` bytes, `o:-` / `o:(V)`, `a:[V;..]`, `t:(V;..)`.
pub trait VText {
    fn vtext(&self) -> String;
}
macro_rules! vtext_int {
    ($tag:literal, $($t:ty),+) => { $(impl VText for $t { fn vtext(&self) -> String { format!("{}:{}", $tag, self) } })+ };
}
vtext_int!("u", u8, u16, u32, u64, u128);
vtext_int!("i", i8, i16, i32, i64, i128);
impl VText for () {
    fn vtext(&self) -> String {
        "n:".into()
    }
}
impl VText for bool {
    fn vtext(&self) -> String {
        format!("b:{}", u8::from(*self))
    }
}
impl VText for char {
    fn vtext(&self) -> String {
        format!("c:{:x}", *self as u32)
    }
}
impl VText for String {
    fn vtext(&self) -> String {
        format!("s:[{}]", self.chars().map(|c| format!("{:x}", c as u32)).collect::<Vec<_>>().join(","))
    }
}
impl VText for Vec<u8> {
    fn vtext(&self) -> String {
        format!("y:{}", hex(self))
    }
}
impl VText for uuid::Uuid {
    fn vtext(&self) -> String {
        format!("y:{}", hex(self.as_bytes()))
    }
}
impl<T: VText> VText for Option<T> {
    fn vtext(&self) -> String {
        match self {
            None => "o:-".into(),
            Some(x) => format!("o:({})", x.vtext()),
        }
    }
}
/// `[T; N]` as a key is redb's array type; `&[u8; N]` (descriptor `fb<N>`) overrides this with `with_text`
impl<T: VText, const N: usize> VText for [T; N] {
    fn vtext(&self) -> String {
        format!("a:[{}]", self.iter().map(|x| x.vtext()).collect::<Vec<_>>().join(";"))
    }
}
macro_rules! vtext_tuple {
    ($($t:ident $i:tt),+) => {
        impl<$($t: VText),+> VText for ($($t,)+) {
            fn vtext(&self) -> String {
                format!("t:({})", [$(self.$i.vtext()),+].join(";"))
            }
        }
    };
}
vtext_tuple!(A 0);
vtext_tuple!(A 0, B 1);
vtext_tuple!(A 0, B 1, C 2);
vtext_tuple!(A 0, B 1, C 2, D 3);

impl<V: Ord + Clone + std::fmt::Debug + 'static> KeyCase<V> {
    /// replaces the value text derived from `VText` (for native types whose Rust type does not determine the key type)
    fn with_text(mut self, f: impl Fn(&V) -> String + 'static) -> Self {
        self.text = Box::new(f);
        self
    }
    fn run(&self, rng: &mut Rng, out: &mut Out, rounds: usize) {
        out.begin_case(&format!("type {}", self.desc));
        let d = self.desc;
        out.line(&format!("key fw {d} => {}", (self.fw)().map_or("none".into(), |x| x.to_string())));
        out.line(&format!("key min {d} => {}", (self.min)().map_or("none".into(), |x| hex(&x))));
        let mut nontrivial = false;
        for _ in 0..rounds {
            // a triple: exercises reflexivity, antisymmetry and transitivity through the native order
            let mut vs: Vec<V> = (0..3).map(|_| (self.generate)(rng)).collect();
            vs.sort();
            let es: Vec<Vec<u8>> = vs.iter().map(|v| (self.enc)(v)).collect();
            let ts: Vec<String> = vs.iter().map(|v| (self.text)(v)).collect();
            for ((v, e), t) in vs.iter().zip(&es).zip(&ts) {
                out.count("encodings");
                out.line(&format!("key valid {d} {} => 1", hex(e)));
                // value level: the model's encoder/decoder against as_bytes of the native value
                out.count("value_encodings");
                out.line(&format!("key enc {d} {t} => {}", hex(e)));
                let ok = catch_unwind(AssertUnwindSafe(|| (self.roundtrip)(v, e))).unwrap_or(false);
                if !ok {
                    out.oracle_fail(format!("{d}: from_bytes(as_bytes(v)) != v for v={v:?} bytes={}", hex(e)));
                }
            }
            for i in 0..3 {
                for j in 0..3 {
                    let c = (self.cmp)(&es[i], &es[j]);
                    out.count("compares");
                    out.line(&format!("key cmp {d} {} {} => {}", hex(&es[i]), hex(&es[j]), ord_str(c)));
                    let native = vs[i].cmp(&vs[j]);
                    // value level: the model's value order against the native `Ord`
                    out.count("value_compares");
                    out.line(&format!("key vcmp {d} {} {} => {}", ts[i], ts[j], ord_str(native)));
                    if c != native {
                        out.oracle_fail(format!("{d}: compare({}, {}) = {c:?} but values order {native:?} ({:?} vs {:?})", hex(&es[i]), hex(&es[j]), vs[i], vs[j]));
                    }
                }
            }
            for (i, j) in [(0usize, 1usize), (1, 2), (0, 2)] {
                if vs[i] >= vs[j] {
                    continue;
                }
                nontrivial = true;
                let (a, b) = (&es[i], &es[j]);
                for (name, f) in [("sep", self.sep), ("bsep", self.bsep)] {
                    out.count(&format!("{name}s"));
                    let r = catch_unwind(AssertUnwindSafe(|| f(a, b)));
                    match r {
                        Ok(s) => {
                            out.line(&format!("key {name} {d} {} {} => {}", hex(a), hex(b), hex(&s)));
                            if s.len() < a.len() {
                                out.count(&format!("{name}_shortened"));
                            }
                            let pred = catch_unwind(AssertUnwindSafe(|| {
                                (self.decodes)(&s) && (self.cmp)(a, &s) != Ordering::Greater && (self.cmp)(&s, b) == Ordering::Less
                            }))
                            .unwrap_or(false);
                            if !pred || s.len() > a.len() {
                                out.oracle_fail(format!("{d}: {name}({}, {}) = {} violates a <= s < b, len(s) <= len(a), or s is not a valid encoding", hex(a), hex(b), hex(&s)));
                            }
                        }
                        Err(_) => {
                            out.line(&format!("key {name} {d} {} {} => panic", hex(a), hex(b)));
                            out.oracle_fail(format!("{d}: {name}({}, {}) panicked", hex(a), hex(b)));
                        }
                    }
                }
            }
        }
        out.end_case(nontrivial);
    }
}

// ---------------------------------------------------------------------------------- generators

const STR_PIECES: &[&str] = &["", "a", "b", "ab", "abc", "z", "\u{7f}", "\u{80}", "\u{e9}", "\u{7ff}", "\u{800}", "\u{20ac}", "\u{ffff}", "\u{10000}", "\u{1f600}", "\u{10ffff}", "a\u{20ac}", "\u{e9}\u{e8}"];

pub fn gen_string(rng: &mut Rng) -> String {
    let n = rng.below(5);
    let mut s = String::new();
    for _ in 0..n {
        s.push_str(*rng.pick::<&str>(STR_PIECES));
    }
    if rng.chance(1, 10) {
        for _ in 0..rng.below(40) {
            s.push(char::from_u32(rng.range(0x20, 0x7e) as u32).unwrap());
        }
    }
    s
}

pub fn gen_bytes(rng: &mut Rng) -> Vec<u8> {
    let n = rng.below(6);
    let mut v = vec![];
    for _ in 0..n {
        v.push(*rng.pick(&[0u8, 1, 0x7f, 0x80, 0xff, 0x41, 0x42]));
    }
    if rng.chance(1, 10) {
        let n = rng.below(300) as usize;
        v.extend(rng.bytes(n));
    }
    v
}

macro_rules! gen_int {
    ($name:ident, $t:ty) => {
        fn $name(rng: &mut Rng) -> $t {
            match rng.below(4) {
                0 => *rng.pick(&[0 as $t, 1, <$t>::MAX, <$t>::MIN, <$t>::MAX - 1, <$t>::MIN + 1, 127, (<$t>::MAX / 2), 100]),
                1 => (rng.next() as $t) >> (rng.below((<$t>::BITS) as u64) as u32),
                2 => ((rng.below(5) as i64 - 2) as $t),
                _ => {
                    let hi = rng.next() as u128;
                    let lo = rng.next() as u128;
                    ((hi << 64) | lo) as $t
                }
            }
        }
    };
}
gen_int!(gen_u8, u8);
gen_int!(gen_u16, u16);
gen_int!(gen_u32, u32);
gen_int!(gen_u64, u64);
gen_int!(gen_u128, u128);
gen_int!(gen_i8, i8);
gen_int!(gen_i16, i16);
gen_int!(gen_i32, i32);
gen_int!(gen_i64, i64);
gen_int!(gen_i128, i128);

fn gen_char(rng: &mut Rng) -> char {
    match rng.below(3) {
        0 => *rng.pick(&['\0', 'a', '\u{7f}', '\u{80}', '\u{d7ff}', '\u{e000}', '\u{ffff}', '\u{10000}', '\u{10ffff}']),
        _ => loop {
            if let Some(c) = char::from_u32(rng.below(0x110000) as u32) {
                return c;
            }
        },
    }
}

fn gen_opt<T>(rng: &mut Rng, f: impl Fn(&mut Rng) -> T) -> Option<T> {
    if rng.chance(1, 4) { None } else { Some(f(rng)) }
}

/// native → borrowed views used by redb's `SelfType`
macro_rules! case {
    // fixed-size native == SelfType (ints, bool, char, unit, tuples of those ...)
    (owned $desc:expr, $k:ty, $native:ty, $gen:expr) => {
        KeyCase::<$native> {
            desc: $desc,
            generate: Box::new($gen),
            enc: Box::new(|v: &$native| {
                let b = <$k as Value>::as_bytes(v);
                AsRef::<[u8]>::as_ref(&b).to_vec()
            }),
            text: Box::new(|v: &$native| VText::vtext(v)),
            roundtrip: Box::new(|v: &$native, e: &[u8]| <$k as Value>::from_bytes(e) == *v),
            decodes: Box::new(|e: &[u8]| {
                let _ = <$k as Value>::from_bytes(e);
                true
            }),
            cmp: <$k as Key>::compare,
            sep: sep_of::<$k>,
            bsep: bsep_of::<$k>,
            min: min_of::<$k>,
            fw: <$k as Value>::fixed_width,
        }
    };
    // native differs from SelfType: the first closure-like form turns &native into SelfType, the second turns a decoded SelfType into native
    (view $desc:expr, $k:ty, $native:ty, $gen:expr, |$v:ident : $vt:ty| -> $rt:ty $view:block, |$d:ident : $dt:ty| $back:expr) => {
        KeyCase::<$native> {
            desc: $desc,
            generate: Box::new($gen),
            enc: Box::new(|$v: $vt| {
                let view: $rt = $view;
                let b = <$k as Value>::as_bytes(&view);
                AsRef::<[u8]>::as_ref(&b).to_vec()
            }),
            text: Box::new(|v: &$native| VText::vtext(v)),
            roundtrip: Box::new(|v: &$native, e: &[u8]| {
                let $d: $dt = <$k as Value>::from_bytes(e);
                let back: $native = $back;
                back == *v
            }),
            decodes: Box::new(|e: &[u8]| {
                let _ = <$k as Value>::from_bytes(e);
                true
            }),
            cmp: <$k as Key>::compare,
            sep: sep_of::<$k>,
            bsep: bsep_of::<$k>,
            min: min_of::<$k>,
            fw: <$k as Value>::fixed_width,
        }
    };
}

pub fn run(args: &Args) {
    let mut out = Out::new(&args.out);
    let mut rng = Rng::new(args.seed);
    let rounds = if args.thorough { 6000 } else { 300 };
    out.comment(&format!("C15 pure seed={} thorough={}", args.seed, args.thorough));
    let r = &mut rng;
    let o = &mut out;

    case!(owned "u8", u8, u8, gen_u8).run(r, o, rounds);
    case!(owned "u16", u16, u16, gen_u16).run(r, o, rounds);
    case!(owned "u32", u32, u32, gen_u32).run(r, o, rounds);
    case!(owned "u64", u64, u64, gen_u64).run(r, o, rounds);
    case!(owned "u128", u128, u128, gen_u128).run(r, o, rounds);
    case!(owned "i8", i8, i8, gen_i8).run(r, o, rounds);
    case!(owned "i16", i16, i16, gen_i16).run(r, o, rounds);
    case!(owned "i32", i32, i32, gen_i32).run(r, o, rounds);
    case!(owned "i64", i64, i64, gen_i64).run(r, o, rounds);
    case!(owned "i128", i128, i128, gen_i128).run(r, o, rounds);
    case!(owned "bool", bool, bool, |r: &mut Rng| r.chance(1, 2)).run(r, o, rounds / 10 + 1);
    case!(owned "char", char, char, gen_char).run(r, o, rounds);
    case!(owned "unit", (), (), |_r: &mut Rng| ()).run(r, o, 2);
    case!(owned "uuid", uuid::Uuid, uuid::Uuid, |r: &mut Rng| {
        let b = gen_bytes(r);
        let mut x = [0u8; 16];
        for (i, v) in b.iter().take(16).enumerate() {
            x[i] = *v;
        }
        uuid::Uuid::from_bytes(x)
    })
    .run(r, o, rounds);
    case!(view "str", &str, String, gen_string, |v: &String| -> &str { v.as_str() }, |d: &str| d.to_string()).run(r, o, rounds * 3);
    case!(owned "str", String, String, gen_string).run(r, o, rounds);
    case!(view "bytes", &[u8], Vec<u8>, gen_bytes, |v: &Vec<u8>| -> &[u8] { v.as_slice() }, |d: &[u8]| d.to_vec()).run(r, o, rounds * 3);
    case!(view "fb4", &[u8; 4], [u8; 4], |r: &mut Rng| { let b = gen_bytes(r); let mut x = [0u8; 4]; for (i, v) in b.iter().take(4).enumerate() { x[i] = *v; } x },
        |v: &[u8; 4]| -> &[u8; 4] { v }, |d: &[u8; 4]| *d).with_text(|v: &[u8; 4]| format!("y:{}", hex(v))).run(r, o, rounds);
    case!(owned "opt(u32)", Option<u32>, Option<u32>, |r: &mut Rng| gen_opt(r, gen_u32)).run(r, o, rounds);
    case!(view "opt(str)", Option<&str>, Option<String>, |r: &mut Rng| gen_opt(r, gen_string),
        |v: &Option<String>| -> Option<&str> { v.as_deref() }, |d: Option<&str>| d.map(|x| x.to_string())).run(r, o, rounds * 2);
    case!(view "opt(bytes)", Option<&[u8]>, Option<Vec<u8>>, |r: &mut Rng| gen_opt(r, gen_bytes),
        |v: &Option<Vec<u8>>| -> Option<&[u8]> { v.as_deref() }, |d: Option<&[u8]>| d.map(|x| x.to_vec())).run(r, o, rounds * 2);
    case!(view "opt(opt(str))", Option<Option<&str>>, Option<Option<String>>, |r: &mut Rng| gen_opt(r, |r| gen_opt(r, gen_string)),
        |v: &Option<Option<String>>| -> Option<Option<&str>> { v.as_ref().map(|x| x.as_deref()) },
        |d: Option<Option<&str>>| d.map(|x| x.map(|y| y.to_string()))).run(r, o, rounds);
    case!(owned "arr3(u16)", [u16; 3], [u16; 3], |r: &mut Rng| [gen_u16(r) % 3, gen_u16(r) % 3, gen_u16(r)]).run(r, o, rounds);
    // fixed arrays of every element width and sign, one-byte elements included (a byte-wise shortcut
    // is right for u8 / bool and wrong for i8)
    case!(owned "arr2(i8)", [i8; 2], [i8; 2], |r: &mut Rng| [gen_i8(r), gen_i8(r)]).run(r, o, rounds);
    case!(owned "arr1(i8)", [i8; 1], [i8; 1], |r: &mut Rng| [gen_i8(r)]).run(r, o, rounds / 2 + 1);
    case!(owned "arr4(u8)", [u8; 4], [u8; 4], |r: &mut Rng| [gen_u8(r) % 2, gen_u8(r), gen_u8(r), gen_u8(r)]).run(r, o, rounds / 2 + 1);
    case!(owned "arr2(bool)", [bool; 2], [bool; 2], |r: &mut Rng| [r.chance(1, 2), r.chance(1, 2)]).run(r, o, rounds / 10 + 1);
    case!(owned "arr3(i16)", [i16; 3], [i16; 3], |r: &mut Rng| [gen_i16(r) % 2, gen_i16(r), gen_i16(r)]).run(r, o, rounds);
    case!(owned "arr2(i64)", [i64; 2], [i64; 2], |r: &mut Rng| [gen_i64(r) % 2, gen_i64(r)]).run(r, o, rounds / 2 + 1);
    case!(owned "opt(arr2(i8))", Option<[i8; 2]>, Option<[i8; 2]>, |r: &mut Rng| gen_opt(r, |r| [gen_i8(r), gen_i8(r)])).run(r, o, rounds / 2 + 1);
    case!(owned "tup(u8;arr2(i8))", (u8, [i8; 2]), (u8, [i8; 2]), |r: &mut Rng| (gen_u8(r) % 2, [gen_i8(r), gen_i8(r)])).run(r, o, rounds / 2 + 1);
    case!(view "arr2(str)", [&str; 2], [String; 2], |r: &mut Rng| [gen_string(r), gen_string(r)],
        |v: &[String; 2]| -> [&str; 2] { [v[0].as_str(), v[1].as_str()] }, |d: [&str; 2]| [d[0].to_string(), d[1].to_string()]).run(r, o, rounds * 3);
    case!(view "arr3(str)", [&str; 3], [String; 3], |r: &mut Rng| [gen_string(r), gen_string(r), gen_string(r)],
        |v: &[String; 3]| -> [&str; 3] { [v[0].as_str(), v[1].as_str(), v[2].as_str()] },
        |d: [&str; 3]| [d[0].to_string(), d[1].to_string(), d[2].to_string()]).run(r, o, rounds * 3);
    case!(view "arr2(bytes)", [&[u8]; 2], [Vec<u8>; 2], |r: &mut Rng| [gen_bytes(r), gen_bytes(r)],
        |v: &[Vec<u8>; 2]| -> [&[u8]; 2] { [v[0].as_slice(), v[1].as_slice()] }, |d: [&[u8]; 2]| [d[0].to_vec(), d[1].to_vec()]).run(r, o, rounds * 2);
    case!(view "arr2(opt(bytes))", [Option<&[u8]>; 2], [Option<Vec<u8>>; 2], |r: &mut Rng| [gen_opt(r, gen_bytes), gen_opt(r, gen_bytes)],
        |v: &[Option<Vec<u8>>; 2]| -> [Option<&[u8]>; 2] { [v[0].as_deref(), v[1].as_deref()] },
        |d: [Option<&[u8]>; 2]| [d[0].map(|x| x.to_vec()), d[1].map(|x| x.to_vec())]).run(r, o, rounds * 2);
    case!(view "arr2(arr2(str))", [[&str; 2]; 2], [[String; 2]; 2], |r: &mut Rng| [[gen_string(r), gen_string(r)], [gen_string(r), gen_string(r)]],
        |v: &[[String; 2]; 2]| -> [[&str; 2]; 2] { [[v[0][0].as_str(), v[0][1].as_str()], [v[1][0].as_str(), v[1][1].as_str()]] },
        |d: [[&str; 2]; 2]| [[d[0][0].to_string(), d[0][1].to_string()], [d[1][0].to_string(), d[1][1].to_string()]]).run(r, o, rounds * 2);
    case!(view "opt(arr3(str))", Option<[&str; 3]>, Option<[String; 3]>, |r: &mut Rng| gen_opt(r, |r| [gen_string(r), gen_string(r), gen_string(r)]),
        |v: &Option<[String; 3]>| -> Option<[&str; 3]> { v.as_ref().map(|v| [v[0].as_str(), v[1].as_str(), v[2].as_str()]) },
        |d: Option<[&str; 3]>| d.map(|d| [d[0].to_string(), d[1].to_string(), d[2].to_string()])).run(r, o, rounds);
    case!(owned "tup(u8)", (u8,), (u8,), |r: &mut Rng| (gen_u8(r),)).run(r, o, rounds / 4 + 1);
    case!(view "tup(str)", (&str,), (String,), |r: &mut Rng| (gen_string(r),), |v: &(String,)| -> (&str,) { (v.0.as_str(),) }, |d: (&str,)| (d.0.to_string(),)).run(r, o, rounds);
    case!(view "tup(u8;str;i16)", (u8, &str, i16), (u8, String, i16), |r: &mut Rng| (gen_u8(r) % 3, gen_string(r), gen_i16(r)),
        |v: &(u8, String, i16)| -> (u8, &str, i16) { (v.0, v.1.as_str(), v.2) }, |d: (u8, &str, i16)| (d.0, d.1.to_string(), d.2)).run(r, o, rounds);
    case!(view "tup(str;str)", (&str, &str), (String, String), |r: &mut Rng| (gen_string(r), gen_string(r)),
        |v: &(String, String)| -> (&str, &str) { (v.0.as_str(), v.1.as_str()) }, |d: (&str, &str)| (d.0.to_string(), d.1.to_string())).run(r, o, rounds * 2);
    case!(view "tup(str;u32)", (&str, u32), (String, u32), |r: &mut Rng| (gen_string(r), gen_u32(r) % 4),
        |v: &(String, u32)| -> (&str, u32) { (v.0.as_str(), v.1) }, |d: (&str, u32)| (d.0.to_string(), d.1)).run(r, o, rounds);
    case!(view "tup(u32;str)", (u32, &str), (u32, String), |r: &mut Rng| (gen_u32(r) % 4, gen_string(r)),
        |v: &(u32, String)| -> (u32, &str) { (v.0, v.1.as_str()) }, |d: (u32, &str)| (d.0, d.1.to_string())).run(r, o, rounds);
    case!(view "tup(bytes;bytes;u8)", (&[u8], &[u8], u8), (Vec<u8>, Vec<u8>, u8), |r: &mut Rng| (gen_bytes(r), gen_bytes(r), gen_u8(r)),
        |v: &(Vec<u8>, Vec<u8>, u8)| -> (&[u8], &[u8], u8) { (v.0.as_slice(), v.1.as_slice(), v.2) }, |d: (&[u8], &[u8], u8)| (d.0.to_vec(), d.1.to_vec(), d.2)).run(r, o, rounds);
    case!(owned "tup(u8;u16;u32;u64)", (u8, u16, u32, u64), (u8, u16, u32, u64), |r: &mut Rng| (gen_u8(r) % 2, gen_u16(r) % 2, gen_u32(r) % 2, gen_u64(r))).run(r, o, rounds);
    case!(view "opt(tup(u8;str))", Option<(u8, &str)>, Option<(u8, String)>, |r: &mut Rng| gen_opt(r, |r| (gen_u8(r) % 3, gen_string(r))),
        |v: &Option<(u8, String)>| -> Option<(u8, &str)> { v.as_ref().map(|v| (v.0, v.1.as_str())) }, |d: Option<(u8, &str)>| d.map(|d| (d.0, d.1.to_string()))).run(r, o, rounds);
    case!(view "arr2(tup(str;u8))", [(&str, u8); 2], [(String, u8); 2], |r: &mut Rng| [(gen_string(r), gen_u8(r) % 3), (gen_string(r), gen_u8(r) % 3)],
        |v: &[(String, u8); 2]| -> [(&str, u8); 2] { [(v[0].0.as_str(), v[0].1), (v[1].0.as_str(), v[1].1)] },
        |d: [(&str, u8); 2]| [(d[0].0.to_string(), d[0].1), (d[1].0.to_string(), d[1].1)]).run(r, o, rounds);

    // long strings: varint length prefixes of 3 and 5 bytes in tuples
    case!(view "tup(str;str)", (&str, &str), (String, String), |r: &mut Rng| {
            let n = *r.pick(&[253usize, 254, 255, 300, 65535, 65536, 70000]);
            let base = "x".repeat(n);
            (if r.chance(1, 2) { base } else { gen_string(r) }, gen_string(r))
        },
        |v: &(String, String)| -> (&str, &str) { (v.0.as_str(), v.1.as_str()) }, |d: (&str, &str)| (d.0.to_string(), d.1.to_string())).run(r, o, if args.thorough { 40 } else { 6 });

    out.finish(&args.summary, &[("rounds_per_type", rounds.to_string())]);
}
