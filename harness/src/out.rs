//! Output of a harness run: an ops file (one request per line, with what the implementation
//! answered after "=>"), and a JSON summary (counts, input distribution, oracle failures).
use std::collections::BTreeMap;
use std::fmt::Write as _;
use std::io::Write;

// ---- watchdog: a call into the code under test that never returns (e.g. a compaction that loops
// for ever) must end the run with a report, not hang the check
static BEAT: std::sync::atomic::AtomicU64 = std::sync::atomic::AtomicU64::new(0);
static DOING: std::sync::Mutex<String> = std::sync::Mutex::new(String::new());
static START: std::sync::OnceLock<std::time::Instant> = std::sync::OnceLock::new();

fn beat() {
    let t = START.get_or_init(std::time::Instant::now).elapsed().as_secs();
    BEAT.store(t, std::sync::atomic::Ordering::Relaxed);
}

/// records what the harness is about to ask of the code under test (shown if it never returns)
pub fn doing(what: &str) {
    *DOING.lock().unwrap() = what.to_string();
    beat();
}

/// exits with status 97 and a `HANG|` line once nothing has been written for `limit` seconds
pub fn start_watchdog(limit: u64) {
    beat();
    std::thread::spawn(move || loop {
        std::thread::sleep(std::time::Duration::from_secs(1));
        let now = START.get_or_init(std::time::Instant::now).elapsed().as_secs();
        let last = BEAT.load(std::sync::atomic::Ordering::Relaxed);
        if now.saturating_sub(last) > limit {
            let what = DOING.lock().map(|d| d.clone()).unwrap_or_default();
            eprintln!("HANG|no progress for {limit} s; the last request to the code under test did not return: {what}");
            std::process::exit(97);
        }
    });
}

pub struct Out {
    w: std::io::BufWriter<std::fs::File>,
    pub lines: u64,
    pub counters: BTreeMap<String, u64>,
    pub oracle_failures: Vec<String>,
    pub samples: Vec<String>,
    pub notes: Vec<String>,
    pub case_no: u64,
    /// drop `hist ...` lines (streams whose states are too large for the list-based Lean
    /// monitors and whose property does not rest on them)
    pub mute_hist: bool,
}

impl Out {
    pub fn new(path: &str) -> Self {
        let f = std::fs::File::create(path).expect("create ops file");
        Out {
            w: std::io::BufWriter::with_capacity(1 << 20, f),
            lines: 0,
            counters: BTreeMap::new(),
            oracle_failures: vec![],
            samples: vec![],
            notes: vec![],
            case_no: 0,
            mute_hist: false,
        }
    }
    pub fn line(&mut self, s: &str) {
        debug_assert!(!s.contains('\n'));
        beat();
        if self.mute_hist && s.starts_with("hist ") {
            return;
        }
        self.w.write_all(s.as_bytes()).unwrap();
        self.w.write_all(b"\n").unwrap();
        self.lines += 1;
    }
    /// makes what has been written so far visible in the ops file (used before a request that
    /// may never return, so that the report of a hang carries the history that led to it)
    pub fn flush(&mut self) {
        let _ = self.w.flush();
    }
    pub fn comment(&mut self, s: &str) {
        self.w.write_all(b"# ").unwrap();
        self.w.write_all(s.as_bytes()).unwrap();
        self.w.write_all(b"\n").unwrap();
    }
    /// Cases delimit the units that are counted (and hashed for distinctness) in the evidence.
    pub fn begin_case(&mut self, what: &str) {
        self.case_no += 1;
        let n = self.case_no;
        self.comment(&format!("case {n} {what}"));
    }
    pub fn end_case(&mut self, nontrivial: bool) {
        self.comment(&format!("endcase nt={}", u8::from(nontrivial)));
        self.count("cases");
    }
    pub fn count(&mut self, key: &str) {
        beat();
        *self.counters.entry(key.to_string()).or_insert(0) += 1;
    }
    pub fn add(&mut self, key: &str, n: u64) {
        *self.counters.entry(key.to_string()).or_insert(0) += n;
    }
    /// The property's own predicate, evaluated on the implementation alone, failed.
    pub fn oracle_fail(&mut self, what: String) {
        // at most five reports per kind (the text before '|'), so that one frequent kind - e.g. a
        // listed known finding - cannot crowd a different failure out of the report
        let kind = what.split('|').next().unwrap_or("").to_string();
        let same = self.oracle_failures.iter().filter(|f| f.split('|').next() == Some(kind.as_str())).count();
        if self.oracle_failures.len() < 50 && same < 5 {
            // also on stderr: if the code under test aborts the process later, the report of the
            // crash still carries what had been found
            eprintln!("ORACLE-FAIL {what} [case={}]", self.case_no);
            let n = self.case_no;
            self.oracle_failures.push(format!("{what} [case={n}]"));
        }
        self.count("oracle_failures");
    }
    pub fn sample(&mut self, s: String) {
        if self.samples.len() < 6 {
            self.samples.push(s);
        }
    }
    pub fn finish(mut self, summary_path: &str, extra: &[(&str, String)]) {
        self.w.flush().unwrap();
        let mut j = String::from("{\n");
        let _ = writeln!(j, "  \"lines\": {},", self.lines);
        j.push_str("  \"counters\": {");
        let mut first = true;
        for (k, v) in &self.counters {
            if !first {
                j.push(',');
            }
            first = false;
            let _ = write!(j, "\n    {}: {}", json_str(k), v);
        }
        j.push_str("\n  },\n");
        for (k, v) in extra {
            let _ = writeln!(j, "  {}: {},", json_str(k), v);
        }
        let _ = writeln!(j, "  \"notes\": [{}],", self.notes.iter().map(|s| json_str(s)).collect::<Vec<_>>().join(", "));
        let _ = writeln!(j, "  \"samples\": [{}],", self.samples.iter().map(|s| json_str(s)).collect::<Vec<_>>().join(", "));
        let _ = writeln!(j, "  \"oracle_failures\": [{}]", self.oracle_failures.iter().map(|s| json_str(s)).collect::<Vec<_>>().join(", "));
        j.push_str("}\n");
        std::fs::write(summary_path, j).expect("write summary");
    }
}

pub fn json_str(s: &str) -> String {
    let mut o = String::with_capacity(s.len() + 2);
    o.push('"');
    for c in s.chars() {
        match c {
            '"' => o.push_str("\\\""),
            '\\' => o.push_str("\\\\"),
            '\n' => o.push_str("\\n"),
            '\t' => o.push_str("\\t"),
            c if (c as u32) < 0x20 => {
                let _ = write!(o, "\\u{:04x}", c as u32);
            }
            c => o.push(c),
        }
    }
    o.push('"');
    o
}

pub fn hex(b: &[u8]) -> String {
    if b.is_empty() {
        return "-".to_string();
    }
    let mut s = String::with_capacity(b.len() * 2);
    for x in b {
        let _ = write!(s, "{x:02x}");
    }
    s
}

pub fn unhex(s: &str) -> Vec<u8> {
    if s == "-" {
        return vec![];
    }
    (0..s.len() / 2).map(|i| u8::from_str_radix(&s[2 * i..2 * i + 2], 16).unwrap()).collect()
}
