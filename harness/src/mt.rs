//! C16: one write transaction used from many threads. (a) Random runs: 2-4 threads each own a
//! table of the same `WriteTransaction` and apply their own operation stream while another
//! thread calls `ephemeral_savepoint()` / drops savepoints; after commit or abort every table must
//! hold exactly what its own stream produces, no page may be shared or leaked (exact page
//! accounting through the snapshot hooks), and a savepoint that was handed out must be restorable
//! without leaking. (b) Forced schedules through the `set_dirty` / `ephemeral_savepoint` pause
//! points: the first table open is parked while the savepoint call runs, and the reverse.
use crate::history::World;
use crate::out::Out;
use crate::rng::Rng;
use crate::table::{err_tag, Cfg};
use crate::Args;
use redb::{ReadableDatabase, ReadableTable, ReadableTableMetadata, Savepoint, TableDefinition};
use std::collections::BTreeMap;
use std::sync::{Arc, Condvar, Mutex};
use std::time::Duration;

fn tdef(i: usize) -> TableDefinition<'static, u64, &'static [u8]> {
    const NAMES: [&str; 4] = ["mt0", "mt1", "mt2", "mt3"];
    TableDefinition::new(NAMES[i])
}

#[derive(Clone, Debug)]
enum TOp {
    Put(u64, usize),
    Del(u64),
    Retain(u64),
    /// overwrite the value of an existing key in place through get_mut (same length)
    Touch(u64),
    /// insert through insert_reserve
    Reserve(u64, usize),
    /// drop the table handle and open the table again
    Reopen,
}

fn val(len: usize, k: u64, t: usize) -> Vec<u8> {
    (0..len).map(|i| ((i as u64 * 7 + k * 13 + t as u64) & 0xff) as u8).collect()
}

fn gen_stream(rng: &mut Rng, page: usize) -> Vec<TOp> {
    (0..rng.range(5, 60))
        .map(|_| match rng.below(16) {
            0..=6 => TOp::Put(rng.below(80), *rng.pick(&[0usize, 20, 100, page / 2, page + 30])),
            7 | 8 => TOp::Del(rng.below(80)),
            9 => TOp::Retain(rng.range(2, 4)),
            10..=12 => TOp::Touch(rng.below(80)),
            13 => TOp::Reserve(rng.below(80), *rng.pick(&[1usize, 50, page / 2])),
            _ => TOp::Reopen,
        })
        .collect()
}

fn apply_spec(m: &mut BTreeMap<u64, Vec<u8>>, ops: &[TOp], t: usize) {
    for op in ops {
        match op {
            TOp::Put(k, len) => {
                m.insert(*k, val(*len, *k, t));
            }
            TOp::Del(k) => {
                m.remove(k);
            }
            TOp::Retain(md) => m.retain(|k, _| k % md != 0),
            TOp::Touch(k) => {
                if let Some(v) = m.get_mut(k) {
                    for b in v.iter_mut() {
                        *b ^= 0x5a;
                    }
                }
            }
            TOp::Reserve(k, len) => {
                m.insert(*k, val(*len, *k + 1, t));
            }
            TOp::Reopen => {}
        }
    }
}

fn read_table(db: &redb::Database, t: usize) -> Result<BTreeMap<u64, Vec<u8>>, String> {
    let rt = db.begin_read().map_err(|e| format!("{e:?}"))?;
    match rt.open_table(tdef(t)) {
        Ok(tb) => {
            let mut m = BTreeMap::new();
            for e in tb.iter().map_err(|e| format!("{e:?}"))? {
                let (k, v) = e.map_err(|e| format!("{e:?}"))?;
                m.insert(k.value(), v.value().to_vec());
            }
            if tb.len().map_err(|e| format!("{e:?}"))? as usize != m.len() {
                return Err("len() differs from iteration".into());
            }
            Ok(m)
        }
        Err(redb::TableError::TableDoesNotExist(_)) => Ok(BTreeMap::new()),
        Err(e) => Err(format!("{e:?}")),
    }
}

/// a random multi-threaded transaction on `w`
fn random_run(w: &mut World, specs: &mut Vec<BTreeMap<u64, Vec<u8>>>, rng: &mut Rng, out: &mut Out) {
    let nthreads = rng.range(2, 4) as usize;
    let page = w.cfg.page;
    let streams: Vec<Vec<TOp>> = (0..nthreads).map(|_| gen_stream(rng, page)).collect();
    let commit = rng.chance(5, 6);
    let with_savepoints = rng.chance(1, 2);
    let db = w.db.as_ref().unwrap();
    let txn = db.begin_write().expect("begin_write");
    let obtained: Mutex<Vec<Savepoint>> = Mutex::new(vec![]);
    let errors: Mutex<Vec<String>> = Mutex::new(vec![]);
    std::thread::scope(|s| {
        // the savepoint caller starts first, so that it sometimes wins the race with the first
        // table open and sometimes loses it
        if with_savepoints {
            let txn = &txn;
            let obtained = &obtained;
            s.spawn(move || {
                for _ in 0..3 {
                    if let Ok(sp) = txn.ephemeral_savepoint() {
                        obtained.lock().unwrap().push(sp);
                    }
                    std::thread::yield_now();
                }
            });
        }
        for (t, ops) in streams.iter().enumerate() {
            let txn = &txn;
            let errors = &errors;
            s.spawn(move || {
                let r = (|| -> Result<(), String> {
                    let mut tb = txn.open_table(tdef(t)).map_err(|e| format!("open: {e:?}"))?;
                    for op in ops {
                        match op {
                            TOp::Put(k, len) => {
                                tb.insert(*k, val(*len, *k, t).as_slice()).map_err(|e| format!("{e:?}"))?;
                            }
                            TOp::Del(k) => {
                                tb.remove(*k).map_err(|e| format!("{e:?}"))?;
                            }
                            TOp::Retain(md) => tb.retain(|k, _| k % md != 0).map_err(|e| format!("{e:?}"))?,
                            TOp::Touch(k) => {
                                if let Some(mut g) = tb.get_mut(*k).map_err(|e| format!("{e:?}"))? {
                                    let new: Vec<u8> = g.value().iter().map(|b| b ^ 0x5a).collect();
                                    g.insert(new.as_slice()).map_err(|e| format!("{e:?}"))?;
                                }
                            }
                            TOp::Reserve(k, len) => {
                                let v = val(*len, *k + 1, t);
                                let mut g = tb.insert_reserve(*k, v.len()).map_err(|e| format!("{e:?}"))?;
                                g.as_mut().copy_from_slice(&v);
                            }
                            TOp::Reopen => {
                                drop(tb);
                                tb = txn.open_table(tdef(t)).map_err(|e| format!("reopen: {e:?}"))?;
                            }
                        }
                    }
                    Ok(())
                })();
                if let Err(e) = r {
                    errors.lock().unwrap().push(format!("table {t}: {e}"));
                }
            });
        }
    });
    for e in errors.lock().unwrap().iter() {
        out.oracle_fail(format!("mt-op|{e}"));
    }
    let before: Vec<BTreeMap<u64, Vec<u8>>> = specs.clone();
    if commit {
        match txn.commit() {
            Ok(()) => {
                for (t, ops) in streams.iter().enumerate() {
                    apply_spec(&mut specs[t], ops, t);
                }
            }
            Err(e) => out.oracle_fail(format!("mt-commit|{e:?}")),
        }
    } else if let Err(e) = txn.abort() {
        out.oracle_fail(format!("mt-abort|{e:?}"));
    }
    for t in 0..4 {
        match read_table(w.db.as_ref().unwrap(), t) {
            Ok(m) => {
                if m != specs[t] {
                    out.oracle_fail(format!("mt-contents|table {t} holds {} entries, its own stream gives {} ({} threads, commit={commit})", m.len(), specs[t].len(), nthreads));
                }
            }
            Err(e) => out.oracle_fail(format!("mt-read|table {t}: {e}")),
        }
    }
    w.check_state(out, "multi-threaded transaction");
    // a savepoint that was handed out captured the state before this transaction: restoring it
    // must give that state back and must not leak
    let sps = std::mem::take(&mut *obtained.lock().unwrap());
    out.add("savepoints_obtained", sps.len() as u64);
    if let Some(sp) = sps.first() {
        if commit {
            let db = w.db.as_ref().unwrap();
            let mut txn = db.begin_write().expect("begin_write");
            match txn.restore_savepoint(sp) {
                Ok(()) => match txn.commit() {
                    Ok(()) => {
                        *specs = before;
                        for t in 0..4 {
                            if read_table(db, t).ok().as_ref() != Some(&specs[t]) {
                                out.oracle_fail(format!("mt-restore|table {t} after restoring a savepoint taken during a multi-threaded transaction"));
                            }
                        }
                    }
                    Err(e) => out.oracle_fail(format!("mt-restore-commit|{e:?}")),
                },
                Err(e) => {
                    let _ = txn.abort();
                    out.oracle_fail(format!("mt-restore|restore of a savepoint handed out by ephemeral_savepoint() failed: {e:?}"));
                }
            }
        }
    }
    drop(sps);
    w.check_state(out, "restore after multi-threaded transaction");
    out.count("mt_transactions");
    out.count("evaluations");
}

/// One thread sweeps a large table with get_mut (which holds the transaction's shared
/// freed-pages list across page allocation and reads) while another opens, modifies and closes
/// small tables over and over: whatever the interleaving, the committed tables and the page
/// accounting are those of a serial run.
fn churn_run(w: &mut World, specs: &mut Vec<BTreeMap<u64, Vec<u8>>>, rng: &mut Rng, out: &mut Out, rounds: usize) {
    let page = w.cfg.page;
    // a committed base: table 0 large, tables 1..3 small
    {
        let db = w.db.as_ref().unwrap();
        let txn = db.begin_write().expect("begin_write");
        {
            let mut t0 = txn.open_table(tdef(0)).unwrap();
            for k in 0..600u64 {
                let v = val(40 + (k as usize % 3) * 30, k, 0);
                t0.insert(1000 + k, v.as_slice()).unwrap();
                specs[0].insert(1000 + k, v);
            }
            for t in 1..4 {
                let mut tb = txn.open_table(tdef(t)).unwrap();
                for k in 0..4u64 {
                    let v = val(page / 3, k, t);
                    tb.insert(k, v.as_slice()).unwrap();
                    specs[t].insert(k, v);
                }
            }
        }
        txn.commit().expect("commit base");
    }
    w.check_state(out, "churn base");
    let db = w.db.as_ref().unwrap();
    let txn = db.begin_write().expect("begin_write");
    let errors: Mutex<Vec<String>> = Mutex::new(vec![]);
    let seedv = rng.below(1 << 30);
    std::thread::scope(|s| {
        let txn = &txn;
        let errors = &errors;
        s.spawn(move || {
            let r = (|| -> Result<(), String> {
                let mut t0 = txn.open_table(tdef(0)).map_err(|e| format!("{e:?}"))?;
                for k in 0..600u64 {
                    if let Some(mut g) = t0.get_mut(1000 + k).map_err(|e| format!("{e:?}"))? {
                        let new: Vec<u8> = g.value().iter().map(|b| b ^ 0x33).collect();
                        g.insert(new.as_slice()).map_err(|e| format!("{e:?}"))?;
                    }
                }
                Ok(())
            })();
            if let Err(e) = r {
                errors.lock().unwrap().push(format!("sweep: {e}"));
            }
        });
        s.spawn(move || {
            let r = (|| -> Result<(), String> {
                for i in 0..rounds as u64 {
                    let t = 1 + (i % 3) as usize;
                    let mut tb = txn.open_table(tdef(t)).map_err(|e| format!("{e:?}"))?;
                    let k = (i + seedv) % 4;
                    tb.insert(k, val(page / 3, k + i, t).as_slice()).map_err(|e| format!("{e:?}"))?;
                    drop(tb);
                }
                Ok(())
            })();
            if let Err(e) = r {
                errors.lock().unwrap().push(format!("churn: {e}"));
            }
        });
    });
    for e in errors.lock().unwrap().iter() {
        out.oracle_fail(format!("mt-op|{e}"));
    }
    for (_, v) in specs[0].range_mut(1000..1600) {
        for b in v.iter_mut() {
            *b ^= 0x33;
        }
    }
    for i in 0..rounds as u64 {
        let t = 1 + (i % 3) as usize;
        let k = (i + seedv) % 4;
        specs[t].insert(k, val(page / 3, k + i, t));
    }
    if let Err(e) = txn.commit() {
        out.oracle_fail(format!("mt-commit|{e:?}"));
    }
    for t in 0..4 {
        match read_table(w.db.as_ref().unwrap(), t) {
            Ok(m) if m == specs[t] => {}
            Ok(m) => out.oracle_fail(format!("mt-contents|churn: table {t} holds {} entries, its own stream gives {}", m.len(), specs[t].len())),
            Err(e) => out.oracle_fail(format!("mt-read|table {t}: {e}")),
        }
    }
    w.check_state(out, "churn transaction");
    // what the transaction made unreachable must come back: two empty commits later nothing is pending
    for _ in 0..3 {
        let txn = w.db.as_ref().unwrap().begin_write().expect("begin_write");
        txn.commit().expect("commit");
    }
    w.check_state(out, "churn drained");
    out.count("churn_transactions");
    out.count("evaluations");
}

// ---------------------------------------------------------------------------------- forced

struct Gate {
    st: Mutex<(Option<(String, String)>, bool, bool)>, // (plan (thread, point), parked, released)
    cv: Condvar,
}

fn forced(w: &mut World, first_is_open: bool, point: &'static str, out: &mut Out) {
    let gate = Arc::new(Gate { st: Mutex::new((Some(("T1".into(), point.to_string())), false, false)), cv: Condvar::new() });
    let g2 = gate.clone();
    redb::verif::verif_set_pause_hook(Some(Arc::new(move |p| {
        let me = std::thread::current().name().unwrap_or("").to_string();
        let mut st = g2.st.lock().unwrap();
        let hit = matches!(&st.0, Some((t, q)) if *t == me && q == p);
        if hit {
            st.0 = None;
            st.1 = true;
            g2.cv.notify_all();
            let deadline = std::time::Instant::now() + Duration::from_secs(5);
            while !st.2 && std::time::Instant::now() < deadline {
                st = g2.cv.wait_timeout(st, Duration::from_millis(50)).unwrap().0;
            }
        }
    })));
    let db = w.db.as_ref().unwrap();
    let txn = db.begin_write().expect("begin_write");
    let sp_slot: Mutex<Option<Result<Savepoint, String>>> = Mutex::new(None);
    let second_blocked = std::thread::scope(|s| {
        let txn = &txn;
        let sp_slot = &sp_slot;
        let open = move || {
            let mut tb = txn.open_table(tdef(0)).unwrap();
            for k in 0..40u64 {
                tb.insert(k, val(100, k, 0).as_slice()).unwrap();
            }
        };
        let save = move || {
            *sp_slot.lock().unwrap() = Some(txn.ephemeral_savepoint().map_err(|e| err_tag(e)));
        };
        let done2 = Arc::new(std::sync::atomic::AtomicBool::new(false));
        let d2 = done2.clone();
        let h1 = std::thread::Builder::new().name("T1".into()).spawn_scoped(s, move || if first_is_open { open() } else { save() }).unwrap();
        // wait until T1 is parked (or finished without reaching the point)
        {
            let deadline = std::time::Instant::now() + Duration::from_secs(2);
            let mut st = gate.st.lock().unwrap();
            while !st.1 && !h1.is_finished() && std::time::Instant::now() < deadline {
                st = gate.cv.wait_timeout(st, Duration::from_millis(5)).unwrap().0;
            }
        }
        let h2 = std::thread::Builder::new()
            .name("T2".into())
            .spawn_scoped(s, move || {
                if first_is_open { save() } else { open() }
                d2.store(true, std::sync::atomic::Ordering::SeqCst);
            })
            .unwrap();
        let deadline = std::time::Instant::now() + Duration::from_millis(200);
        while !done2.load(std::sync::atomic::Ordering::SeqCst) && std::time::Instant::now() < deadline {
            std::thread::sleep(Duration::from_millis(2));
        }
        let blocked = !done2.load(std::sync::atomic::Ordering::SeqCst);
        gate.st.lock().unwrap().2 = true;
        gate.cv.notify_all();
        h1.join().unwrap();
        h2.join().unwrap();
        blocked
    });
    redb::verif::verif_set_pause_hook(None);
    let got = sp_slot.lock().unwrap().take();
    let desc = format!("first={} parked-at={point} second-blocked={}", if first_is_open { "open_table" } else { "ephemeral_savepoint" }, u8::from(second_blocked));
    out.line(&format!("mt forced {desc} => savepoint={}", match &got { Some(Ok(_)) => "ok".to_string(), Some(Err(e)) => e.clone(), None => "none".into() }));
    txn.commit().expect("commit");
    w.check_state(out, &format!("forced {desc}"));
    // C16: whatever the interleaving, a savepoint that exists can be restored without leaking
    if let Some(Ok(sp)) = got {
        let db = w.db.as_ref().unwrap();
        let mut txn = db.begin_write().expect("begin_write");
        match txn.restore_savepoint(&sp) {
            Ok(()) => {
                txn.commit().expect("commit restore");
                if read_table(db, 0).map(|m| m.len()).unwrap_or(1) != 0 {
                    out.oracle_fail(format!("mt-forced-restore|{desc}: table not empty after restoring the savepoint taken before the first write"));
                }
            }
            Err(e) => {
                let _ = txn.abort();
                out.oracle_fail(format!("mt-forced-restore|{desc}: {e:?}"));
            }
        }
        drop(sp);
        // drain and check for leaks
        for _ in 0..3 {
            db.begin_write().unwrap().commit().unwrap();
        }
        w.check_state(out, &format!("forced {desc} after restore"));
        let snap = w.db.as_ref().unwrap().verif_snapshot();
        if let Ok(ps) = w.page_state(&snap) {
            let pending: usize = ps.dfreed.values().chain(ps.sfreed.values()).map(Vec::len).sum();
            if ps.alloc.len() != ps.data.len() + ps.sys.len() + pending {
                out.oracle_fail(format!("mt-forced-leak|{desc}: {} pages allocated, {} owned", ps.alloc.len(), ps.data.len() + ps.sys.len() + pending));
            }
        }
    } else {
        // clean the table for the next scenario
        let db = w.db.as_ref().unwrap();
        let txn = db.begin_write().unwrap();
        txn.delete_table(tdef(0)).unwrap();
        txn.commit().unwrap();
    }
    out.count("forced_schedules");
    out.count("evaluations");
}

pub fn run(args: &Args) {
    let mut out = Out::new(&args.out);
    let mut rng = Rng::new(args.seed ^ 0xC16);
    out.comment(&format!("C16 mt seed={} thorough={}", args.seed, args.thorough));
    let worlds = if args.thorough { 40 } else { 8 };
    for _ in 0..worlds {
        let mut r = rng.fork();
        let page = *r.pick(&[512usize, 1024]);
        let cfg = Cfg { page, region: 65536.max(page as u64 * 64), cache: *r.pick(&[0usize, 1 << 20]) };
        out.begin_case(&format!("mt page={page} cache={}", cfg.cache));
        let res = std::panic::catch_unwind(std::panic::AssertUnwindSafe(|| {
            let mut w = World::new(Cfg { page: cfg.page, region: cfg.region, cache: cfg.cache }, "c16");
            out.line(&format!("hist cfg {} {} {}", cfg.page, cfg.region, cfg.cache));
            w.check_state(&mut out, "create");
            for (open_first, point) in [(true, "set_dirty"), (false, "ephemeral_savepoint.enter"), (false, "ephemeral_savepoint.checked")] {
                forced(&mut w, open_first, point, &mut out);
            }
            let mut specs: Vec<BTreeMap<u64, Vec<u8>>> = vec![BTreeMap::new(); 4];
            for _ in 0..(if args.thorough { 40 } else { 12 }) {
                random_run(&mut w, &mut specs, &mut r, &mut out);
            }
            churn_run(&mut w, &mut specs, &mut r, &mut out, if args.thorough { 900 } else { 300 });
            w.readers.clear();
            w.sps.clear();
        }));
        if res.is_err() {
            out.oracle_fail("mt-panic|panic in a multi-threaded case".into());
        }
        out.end_case(res.is_ok());
    }
    out.finish(&args.summary, &[]);
}
