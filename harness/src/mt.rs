//! C16: one write transaction used from many threads. (a) Random runs: 2-4 threads each own a
//! table of the same `WriteTransaction` and apply their own operation stream while another
//! thread calls `ephemeral_savepoint()` / drops savepoints; after commit or abort every table must
//! hold exactly what its own stream produces, no page may be shared or leaked (exact page
//! accounting through the snapshot hooks), and a savepoint that was handed out must be restorable
//! without leaking. (b) Forced schedules through the `set_dirty` / `ephemeral_savepoint` pause
//! points: the first call that makes the transaction dirty (open_table, open_multimap_table, delete_*,
//! rename_*) is parked while the savepoint call runs, and the reverse.
use crate::history::World;
use crate::out::Out;
use crate::rng::Rng;
use crate::table::{err_tag, Cfg};
use crate::Args;
use redb::{MultimapTableDefinition, ReadableDatabase, ReadableMultimapTable, ReadableTable, ReadableTableMetadata, Savepoint, TableDefinition};
use std::collections::{BTreeMap, BTreeSet};
use std::sync::{Arc, Condvar, Mutex};
use std::time::Duration;

fn tdef(i: usize) -> TableDefinition<'static, u64, &'static [u8]> {
    const NAMES: [&str; 4] = ["mt0", "mt1", "mt2", "mt3"];
    TableDefinition::new(NAMES[i])
}

#[derive(Clone, Debug)]
enum TOp {
    Put(u64, usize),
    Del(u64),
    Retain(u64),
    /// overwrite the value of an existing key in place through get_mut (same length)
    Touch(u64),
    /// insert through insert_reserve
    Reserve(u64, usize),
    /// drop the table handle and open the table again
    Reopen,
}

fn val(len: usize, k: u64, t: usize) -> Vec<u8> {
    (0..len).map(|i| ((i as u64 * 7 + k * 13 + t as u64) & 0xff) as u8).collect()
}

fn gen_stream(rng: &mut Rng, page: usize) -> Vec<TOp> {
    (0..rng.range(5, 60))
        .map(|_| match rng.below(16) {
            0..=6 => TOp::Put(rng.below(80), *rng.pick(&[0usize, 20, 100, page / 2, page + 30])),
            7 | 8 => TOp::Del(rng.below(80)),
            9 => TOp::Retain(rng.range(2, 4)),
            10..=12 => TOp::Touch(rng.below(80)),
            13 => TOp::Reserve(rng.below(80), *rng.pick(&[1usize, 50, page / 2])),
            _ => TOp::Reopen,
        })
        .collect()
}

fn apply_spec(m: &mut BTreeMap<u64, Vec<u8>>, ops: &[TOp], t: usize) {
    for op in ops {
        match op {
            TOp::Put(k, len) => {
                m.insert(*k, val(*len, *k, t));
            }
            TOp::Del(k) => {
                m.remove(k);
            }
            TOp::Retain(md) => m.retain(|k, _| k % md != 0),
            TOp::Touch(k) => {
                if let Some(v) = m.get_mut(k) {
                    for b in v.iter_mut() {
                        *b ^= 0x5a;
                    }
                }
            }
            TOp::Reserve(k, len) => {
                m.insert(*k, val(*len, *k + 1, t));
            }
            TOp::Reopen => {}
        }
    }
}

fn read_table(db: &redb::Database, t: usize) -> Result<BTreeMap<u64, Vec<u8>>, String> {
    let rt = db.begin_read().map_err(|e| format!("{e:?}"))?;
    match rt.open_table(tdef(t)) {
        Ok(tb) => {
            let mut m = BTreeMap::new();
            for e in tb.iter().map_err(|e| format!("{e:?}"))? {
                let (k, v) = e.map_err(|e| format!("{e:?}"))?;
                m.insert(k.value(), v.value().to_vec());
            }
            if tb.len().map_err(|e| format!("{e:?}"))? as usize != m.len() {
                return Err("len() differs from iteration".into());
            }
            Ok(m)
        }
        Err(redb::TableError::TableDoesNotExist(_)) => Ok(BTreeMap::new()),
        Err(e) => Err(format!("{e:?}")),
    }
}

/// a random multi-threaded transaction on `w`
#[derive(Clone, Debug)]
enum MOp {
    Ins(u64, usize, usize),
    Rem(u64, usize, usize),
    RemAll(u64),
}

type MSpec = BTreeMap<u64, BTreeSet<Vec<u8>>>;

const MM: MultimapTableDefinition<'static, u64, &'static [u8]> = MultimapTableDefinition::new("mtm");

fn read_mm(db: &redb::Database) -> Result<MSpec, String> {
    let rt = db.begin_read().map_err(|e| format!("{e:?}"))?;
    match rt.open_multimap_table(MM) {
        Ok(tb) => {
            let mut m = MSpec::new();
            for e in tb.iter().map_err(|e| format!("{e:?}"))? {
                let (k, vals) = e.map_err(|e| format!("{e:?}"))?;
                for x in vals {
                    m.entry(k.value()).or_default().insert(x.map_err(|e| format!("{e:?}"))?.value().to_vec());
                }
            }
            Ok(m)
        }
        Err(redb::TableError::TableDoesNotExist(_)) => Ok(MSpec::new()),
        Err(e) => Err(format!("{e:?}")),
    }
}

fn apply_mspec(m: &mut MSpec, ops: &[MOp]) {
    for op in ops {
        match op {
            MOp::Ins(k, len, tag) => {
                m.entry(*k).or_default().insert(val(*len, *k, *tag));
            }
            MOp::Rem(k, len, tag) => {
                if let Some(set) = m.get_mut(k) {
                    set.remove(&val(*len, *k, *tag));
                    if set.is_empty() {
                        m.remove(k);
                    }
                }
            }
            MOp::RemAll(k) => {
                m.remove(k);
            }
        }
    }
}

fn random_run(w: &mut World, specs: &mut Vec<BTreeMap<u64, Vec<u8>>>, mspec: &mut MSpec, rng: &mut Rng, out: &mut Out) {
    let page = w.cfg.page;
    // every second transaction has a thread that owns a multimap table
    let mstream: Vec<MOp> = if rng.chance(1, 2) {
        (0..rng.range(5, 60))
            .map(|_| match rng.below(8) {
                0..=4 => MOp::Ins(rng.below(12), *rng.pick(&[5usize, 60, page / 2]), rng.below(4) as usize),
                5 | 6 => MOp::Rem(rng.below(12), *rng.pick(&[5usize, 60, page / 2]), rng.below(4) as usize),
                _ => MOp::RemAll(rng.below(12)),
            })
            .collect()
    } else {
        vec![]
    };
    let nthreads = rng.range(if mstream.is_empty() { 2 } else { 0 }, 4) as usize;
    let streams: Vec<Vec<TOp>> = (0..nthreads).map(|_| gen_stream(rng, page)).collect();
    let commit = rng.chance(5, 6);
    let with_savepoints = rng.chance(1, 2);
    let db = w.db.as_ref().unwrap();
    let txn = db.begin_write().expect("begin_write");
    let obtained: Mutex<Vec<Savepoint>> = Mutex::new(vec![]);
    let errors: Mutex<Vec<String>> = Mutex::new(vec![]);
    std::thread::scope(|s| {
        // the savepoint caller starts first, so that it sometimes wins the race with the first
        // table open and sometimes loses it
        if with_savepoints {
            let txn = &txn;
            let obtained = &obtained;
            s.spawn(move || {
                for _ in 0..3 {
                    if let Ok(sp) = txn.ephemeral_savepoint() {
                        obtained.lock().unwrap().push(sp);
                    }
                    std::thread::yield_now();
                }
            });
        }
        if !mstream.is_empty() {
            let txn = &txn;
            let errors = &errors;
            let mstream = &mstream;
            s.spawn(move || {
                let r = (|| -> Result<(), String> {
                    let mut tb = txn.open_multimap_table(MM).map_err(|e| format!("open: {e:?}"))?;
                    for op in mstream {
                        match op {
                            MOp::Ins(k, len, tag) => {
                                tb.insert(*k, val(*len, *k, *tag).as_slice()).map_err(|e| format!("{e:?}"))?;
                            }
                            MOp::Rem(k, len, tag) => {
                                tb.remove(*k, val(*len, *k, *tag).as_slice()).map_err(|e| format!("{e:?}"))?;
                            }
                            MOp::RemAll(k) => {
                                tb.remove_all(*k).map_err(|e| format!("{e:?}"))?;
                            }
                        }
                    }
                    Ok(())
                })();
                if let Err(e) = r {
                    errors.lock().unwrap().push(format!("multimap table: {e}"));
                }
            });
        }
        for (t, ops) in streams.iter().enumerate() {
            let txn = &txn;
            let errors = &errors;
            s.spawn(move || {
                let r = (|| -> Result<(), String> {
                    let mut tb = txn.open_table(tdef(t)).map_err(|e| format!("open: {e:?}"))?;
                    for op in ops {
                        match op {
                            TOp::Put(k, len) => {
                                tb.insert(*k, val(*len, *k, t).as_slice()).map_err(|e| format!("{e:?}"))?;
                            }
                            TOp::Del(k) => {
                                tb.remove(*k).map_err(|e| format!("{e:?}"))?;
                            }
                            TOp::Retain(md) => tb.retain(|k, _| k % md != 0).map_err(|e| format!("{e:?}"))?,
                            TOp::Touch(k) => {
                                if let Some(mut g) = tb.get_mut(*k).map_err(|e| format!("{e:?}"))? {
                                    let new: Vec<u8> = g.value().iter().map(|b| b ^ 0x5a).collect();
                                    g.insert(new.as_slice()).map_err(|e| format!("{e:?}"))?;
                                }
                            }
                            TOp::Reserve(k, len) => {
                                let v = val(*len, *k + 1, t);
                                let mut g = tb.insert_reserve(*k, v.len()).map_err(|e| format!("{e:?}"))?;
                                g.as_mut().copy_from_slice(&v);
                            }
                            TOp::Reopen => {
                                drop(tb);
                                tb = txn.open_table(tdef(t)).map_err(|e| format!("reopen: {e:?}"))?;
                            }
                        }
                    }
                    Ok(())
                })();
                if let Err(e) = r {
                    errors.lock().unwrap().push(format!("table {t}: {e}"));
                }
            });
        }
    });
    for e in errors.lock().unwrap().iter() {
        out.oracle_fail(format!("mt-op|{e}"));
    }
    let before: Vec<BTreeMap<u64, Vec<u8>>> = specs.clone();
    let mbefore = mspec.clone();
    if commit {
        match txn.commit() {
            Ok(()) => {
                for (t, ops) in streams.iter().enumerate() {
                    apply_spec(&mut specs[t], ops, t);
                }
                apply_mspec(mspec, &mstream);
            }
            Err(e) => out.oracle_fail(format!("mt-commit|{e:?}")),
        }
    } else if let Err(e) = txn.abort() {
        out.oracle_fail(format!("mt-abort|{e:?}"));
    }
    for t in 0..4 {
        match read_table(w.db.as_ref().unwrap(), t) {
            Ok(m) => {
                if m != specs[t] {
                    out.oracle_fail(format!("mt-contents|table {t} holds {} entries, its own stream gives {} ({} threads, commit={commit})", m.len(), specs[t].len(), nthreads));
                }
            }
            Err(e) => out.oracle_fail(format!("mt-read|table {t}: {e}")),
        }
    }
    match read_mm(w.db.as_ref().unwrap()) {
        Ok(m) if m == *mspec => {}
        Ok(m) => out.oracle_fail(format!("mt-contents|the multimap table holds {} keys, its own stream gives {} ({} table threads, commit={commit})", m.len(), mspec.len(), nthreads)),
        Err(e) => out.oracle_fail(format!("mt-read|multimap table: {e}")),
    }
    w.check_state(out, "multi-threaded transaction");
    // a savepoint that was handed out captured the state before this transaction: restoring it
    // must give that state back and must not leak
    let sps = std::mem::take(&mut *obtained.lock().unwrap());
    out.add("savepoints_obtained", sps.len() as u64);
    if let Some(sp) = sps.first() {
        if commit {
            let db = w.db.as_ref().unwrap();
            let mut txn = db.begin_write().expect("begin_write");
            match txn.restore_savepoint(sp) {
                Ok(()) => match txn.commit() {
                    Ok(()) => {
                        *specs = before;
                        *mspec = mbefore;
                        if read_mm(db).ok().as_ref() != Some(&*mspec) {
                            out.oracle_fail("mt-restore|multimap table after restoring a savepoint taken during a multi-threaded transaction".to_string());
                        }
                        for t in 0..4 {
                            if read_table(db, t).ok().as_ref() != Some(&specs[t]) {
                                out.oracle_fail(format!("mt-restore|table {t} after restoring a savepoint taken during a multi-threaded transaction"));
                            }
                        }
                    }
                    Err(e) => out.oracle_fail(format!("mt-restore-commit|{e:?}")),
                },
                Err(e) => {
                    let _ = txn.abort();
                    out.oracle_fail(format!("mt-restore|restore of a savepoint handed out by ephemeral_savepoint() failed: {e:?}"));
                }
            }
        }
    }
    drop(sps);
    w.check_state(out, "restore after multi-threaded transaction");
    out.count("mt_transactions");
    out.count("evaluations");
}

/// One thread sweeps a large table with get_mut (which holds the transaction's shared
/// freed-pages list across page allocation and reads) while another opens, modifies and closes
/// small tables over and over: whatever the interleaving, the committed tables and the page
/// accounting are those of a serial run.
fn churn_run(w: &mut World, specs: &mut Vec<BTreeMap<u64, Vec<u8>>>, rng: &mut Rng, out: &mut Out, rounds: usize) {
    let page = w.cfg.page;
    // a committed base: table 0 large, tables 1..3 small
    {
        let db = w.db.as_ref().unwrap();
        let txn = db.begin_write().expect("begin_write");
        {
            let mut t0 = txn.open_table(tdef(0)).unwrap();
            for k in 0..600u64 {
                let v = val(40 + (k as usize % 3) * 30, k, 0);
                t0.insert(1000 + k, v.as_slice()).unwrap();
                specs[0].insert(1000 + k, v);
            }
            for t in 1..4 {
                let mut tb = txn.open_table(tdef(t)).unwrap();
                for k in 0..4u64 {
                    let v = val(page / 3, k, t);
                    tb.insert(k, v.as_slice()).unwrap();
                    specs[t].insert(k, v);
                }
            }
        }
        txn.commit().expect("commit base");
    }
    w.check_state(out, "churn base");
    let db = w.db.as_ref().unwrap();
    let txn = db.begin_write().expect("begin_write");
    let errors: Mutex<Vec<String>> = Mutex::new(vec![]);
    let seedv = rng.below(1 << 30);
    std::thread::scope(|s| {
        let txn = &txn;
        let errors = &errors;
        s.spawn(move || {
            let r = (|| -> Result<(), String> {
                let mut t0 = txn.open_table(tdef(0)).map_err(|e| format!("{e:?}"))?;
                for k in 0..600u64 {
                    if let Some(mut g) = t0.get_mut(1000 + k).map_err(|e| format!("{e:?}"))? {
                        let new: Vec<u8> = g.value().iter().map(|b| b ^ 0x33).collect();
                        g.insert(new.as_slice()).map_err(|e| format!("{e:?}"))?;
                    }
                }
                Ok(())
            })();
            if let Err(e) = r {
                errors.lock().unwrap().push(format!("sweep: {e}"));
            }
        });
        s.spawn(move || {
            let r = (|| -> Result<(), String> {
                for i in 0..rounds as u64 {
                    let t = 1 + (i % 3) as usize;
                    let mut tb = txn.open_table(tdef(t)).map_err(|e| format!("{e:?}"))?;
                    let k = (i + seedv) % 4;
                    tb.insert(k, val(page / 3, k + i, t).as_slice()).map_err(|e| format!("{e:?}"))?;
                    drop(tb);
                }
                Ok(())
            })();
            if let Err(e) = r {
                errors.lock().unwrap().push(format!("churn: {e}"));
            }
        });
    });
    for e in errors.lock().unwrap().iter() {
        out.oracle_fail(format!("mt-op|{e}"));
    }
    for (_, v) in specs[0].range_mut(1000..1600) {
        for b in v.iter_mut() {
            *b ^= 0x33;
        }
    }
    for i in 0..rounds as u64 {
        let t = 1 + (i % 3) as usize;
        let k = (i + seedv) % 4;
        specs[t].insert(k, val(page / 3, k + i, t));
    }
    if let Err(e) = txn.commit() {
        out.oracle_fail(format!("mt-commit|{e:?}"));
    }
    for t in 0..4 {
        match read_table(w.db.as_ref().unwrap(), t) {
            Ok(m) if m == specs[t] => {}
            Ok(m) => out.oracle_fail(format!("mt-contents|churn: table {t} holds {} entries, its own stream gives {}", m.len(), specs[t].len())),
            Err(e) => out.oracle_fail(format!("mt-read|table {t}: {e}")),
        }
    }
    w.check_state(out, "churn transaction");
    // what the transaction made unreachable must come back: two empty commits later nothing is pending
    for _ in 0..3 {
        let txn = w.db.as_ref().unwrap().begin_write().expect("begin_write");
        txn.commit().expect("commit");
    }
    w.check_state(out, "churn drained");
    out.count("churn_transactions");
    out.count("evaluations");
}

// ---------------------------------------------------------------------------------- forced

struct Gate {
    st: Mutex<(Option<(String, String)>, bool, bool)>, // (plan (thread, point), parked, released)
    cv: Condvar,
}

/// the calls of a write transaction that make it dirty (each of them ends savepoint eligibility)
#[derive(Clone, Copy, Debug, PartialEq)]
enum Dirtier {
    OpenTable,
    OpenMultimap,
    DeleteTable,
    RenameTable,
    DeleteMultimap,
    RenameMultimap,
}

impl Dirtier {
    const ALL: [Dirtier; 6] = [Dirtier::OpenTable, Dirtier::OpenMultimap, Dirtier::DeleteTable, Dirtier::RenameTable, Dirtier::DeleteMultimap, Dirtier::RenameMultimap];
    fn name(self) -> &'static str {
        match self {
            Dirtier::OpenTable => "open_table",
            Dirtier::OpenMultimap => "open_multimap_table",
            Dirtier::DeleteTable => "delete_table",
            Dirtier::RenameTable => "rename_table",
            Dirtier::DeleteMultimap => "delete_multimap_table",
            Dirtier::RenameMultimap => "rename_multimap_table",
        }
    }
}

const FX: TableDefinition<'static, u64, &'static [u8]> = TableDefinition::new("fx");
const FY: TableDefinition<'static, u64, &'static [u8]> = TableDefinition::new("fy");
const FM: MultimapTableDefinition<'static, u64, &'static [u8]> = MultimapTableDefinition::new("fm");
const FXM: MultimapTableDefinition<'static, u64, &'static [u8]> = MultimapTableDefinition::new("fxm");
const FYM: MultimapTableDefinition<'static, u64, &'static [u8]> = MultimapTableDefinition::new("fym");

/// everything the forced scenarios can touch, by table name
fn forced_dump(db: &redb::Database) -> Result<BTreeMap<String, Vec<(u64, Vec<u8>)>>, String> {
    let rt = db.begin_read().map_err(|e| format!("{e:?}"))?;
    let mut m = BTreeMap::new();
    for (name, def) in [("mt0", tdef(0)), ("fx", FX), ("fy", FY)] {
        match rt.open_table(def) {
            Ok(tb) => {
                let mut v = vec![];
                for e in tb.iter().map_err(|e| format!("{e:?}"))? {
                    let (k, x) = e.map_err(|e| format!("{e:?}"))?;
                    v.push((k.value(), x.value().to_vec()));
                }
                m.insert(name.to_string(), v);
            }
            Err(redb::TableError::TableDoesNotExist(_)) => {}
            Err(e) => return Err(format!("{name}: {e:?}")),
        }
    }
    for (name, def) in [("fm", FM), ("fxm", FXM), ("fym", FYM)] {
        match rt.open_multimap_table(def) {
            Ok(tb) => {
                let mut v = vec![];
                for e in tb.iter().map_err(|e| format!("{e:?}"))? {
                    let (k, vals) = e.map_err(|e| format!("{e:?}"))?;
                    for x in vals {
                        v.push((k.value(), x.map_err(|e| format!("{e:?}"))?.value().to_vec()));
                    }
                }
                m.insert(name.to_string(), v);
            }
            Err(redb::TableError::TableDoesNotExist(_)) => {}
            Err(e) => return Err(format!("{name}: {e:?}")),
        }
    }
    Ok(m)
}

fn forced(w: &mut World, first_is_open: bool, point: &'static str, kind: Dirtier, out: &mut Out) {
    // a committed base for the calls that need an existing table
    {
        let db = w.db.as_ref().unwrap();
        let txn = db.begin_write().expect("begin_write");
        {
            let mut tb = txn.open_table(FX).unwrap();
            let mut mb = txn.open_multimap_table(FXM).unwrap();
            for k in 0..6u64 {
                tb.insert(k, val(60, k, 5).as_slice()).unwrap();
                mb.insert(k / 2, val(30, k, 6).as_slice()).unwrap();
            }
        }
        txn.commit().expect("commit base");
    }
    let before = forced_dump(w.db.as_ref().unwrap());

    let gate = Arc::new(Gate { st: Mutex::new((Some(("T1".into(), point.to_string())), false, false)), cv: Condvar::new() });
    let g2 = gate.clone();
    redb::verif::verif_set_pause_hook(Some(Arc::new(move |p| {
        let me = std::thread::current().name().unwrap_or("").to_string();
        let mut st = g2.st.lock().unwrap();
        let hit = matches!(&st.0, Some((t, q)) if *t == me && q == p);
        if hit {
            st.0 = None;
            st.1 = true;
            g2.cv.notify_all();
            let deadline = std::time::Instant::now() + Duration::from_secs(5);
            while !st.2 && std::time::Instant::now() < deadline {
                st = g2.cv.wait_timeout(st, Duration::from_millis(50)).unwrap().0;
            }
        }
    })));
    let db = w.db.as_ref().unwrap();
    let txn = db.begin_write().expect("begin_write");
    let sp_slot: Mutex<Option<Result<Savepoint, String>>> = Mutex::new(None);
    let (second_blocked, first_done) = std::thread::scope(|s| {
        let txn = &txn;
        let sp_slot = &sp_slot;
        let open = move || match kind {
            Dirtier::OpenTable => {
                let mut tb = txn.open_table(tdef(0)).unwrap();
                for k in 0..40u64 {
                    tb.insert(k, val(100, k, 0).as_slice()).unwrap();
                }
            }
            Dirtier::OpenMultimap => {
                let mut tb = txn.open_multimap_table(FM).unwrap();
                for k in 0..40u64 {
                    tb.insert(k / 3, val(100, k, 0).as_slice()).unwrap();
                }
            }
            Dirtier::DeleteTable => {
                txn.delete_table(FX).unwrap();
            }
            Dirtier::RenameTable => txn.rename_table(FX, FY).unwrap(),
            Dirtier::DeleteMultimap => {
                txn.delete_multimap_table(FXM).unwrap();
            }
            Dirtier::RenameMultimap => txn.rename_multimap_table(FXM, FYM).unwrap(),
        };
        let save = move || {
            *sp_slot.lock().unwrap() = Some(txn.ephemeral_savepoint().map_err(|e| err_tag(e)));
        };
        let done2 = Arc::new(std::sync::atomic::AtomicBool::new(false));
        let d2 = done2.clone();
        let h1 = std::thread::Builder::new().name("T1".into()).spawn_scoped(s, move || if first_is_open { open() } else { save() }).unwrap();
        // wait until T1 is parked (or finished without reaching the point)
        {
            let deadline = std::time::Instant::now() + Duration::from_secs(2);
            let mut st = gate.st.lock().unwrap();
            while !st.1 && !h1.is_finished() && std::time::Instant::now() < deadline {
                st = gate.cv.wait_timeout(st, Duration::from_millis(5)).unwrap().0;
            }
        }
        let first_done = h1.is_finished();
        let h2 = std::thread::Builder::new()
            .name("T2".into())
            .spawn_scoped(s, move || {
                if first_is_open { save() } else { open() }
                d2.store(true, std::sync::atomic::Ordering::SeqCst);
            })
            .unwrap();
        let deadline = std::time::Instant::now() + Duration::from_millis(200);
        while !done2.load(std::sync::atomic::Ordering::SeqCst) && std::time::Instant::now() < deadline {
            std::thread::sleep(Duration::from_millis(2));
        }
        let blocked = !done2.load(std::sync::atomic::Ordering::SeqCst);
        gate.st.lock().unwrap().2 = true;
        gate.cv.notify_all();
        h1.join().unwrap();
        h2.join().unwrap();
        (blocked, first_done)
    });
    redb::verif::verif_set_pause_hook(None);
    let got = sp_slot.lock().unwrap().take();
    let desc = format!("first={} parked-at={point} second-blocked={} dirtier={}", if first_is_open { kind.name() } else { "ephemeral_savepoint" }, u8::from(second_blocked), kind.name());
    out.line(&format!("mt forced {desc} => savepoint={}", match &got { Some(Ok(_)) => "ok".to_string(), Some(Err(e)) => e.clone(), None => "none".into() }));
    // savepoint eligibility: a call that changed the transaction and returned before the savepoint
    // call began leaves no room for a savepoint
    if first_is_open && first_done && matches!(got, Some(Ok(_))) {
        out.oracle_fail(format!("mt-savepoint-after-dirty|{desc}: ephemeral_savepoint() succeeded on another thread after {}() had returned on this transaction", kind.name()));
    }
    txn.commit().expect("commit");
    w.check_state(out, &format!("forced {desc}"));
    // C16: whatever the interleaving, a savepoint that exists can be restored without leaking
    if let Some(Ok(sp)) = got {
        let db = w.db.as_ref().unwrap();
        let mut txn = db.begin_write().expect("begin_write");
        match txn.restore_savepoint(&sp) {
            Ok(()) => {
                txn.commit().expect("commit restore");
                let now = forced_dump(db);
                if now != before || now.is_err() {
                    out.oracle_fail(format!("mt-forced-restore|{desc}: restoring the savepoint taken before the first change of the transaction does not give back the tables as they were before it"));
                }
            }
            Err(e) => {
                let _ = txn.abort();
                out.oracle_fail(format!("mt-forced-restore|{desc}: {e:?}"));
            }
        }
        drop(sp);
        // drain and check for leaks
        for _ in 0..3 {
            db.begin_write().unwrap().commit().unwrap();
        }
        w.check_state(out, &format!("forced {desc} after restore"));
        let snap = w.db.as_ref().unwrap().verif_snapshot();
        if let Ok(ps) = w.page_state(&snap) {
            let pending: usize = ps.dfreed.values().chain(ps.sfreed.values()).map(Vec::len).sum();
            if ps.alloc.len() != ps.data.len() + ps.sys.len() + pending {
                out.oracle_fail(format!("mt-forced-leak|{desc}: {} pages allocated, {} owned", ps.alloc.len(), ps.data.len() + ps.sys.len() + pending));
            }
        }
    }
    // clean up for the next scenario
    {
        let db = w.db.as_ref().unwrap();
        let txn = db.begin_write().unwrap();
        for d in [tdef(0), FX, FY] {
            txn.delete_table(d).unwrap();
        }
        for d in [FM, FXM, FYM] {
            txn.delete_multimap_table(d).unwrap();
        }
        txn.commit().unwrap();
        w.check_state(out, &format!("forced {desc} cleaned"));
    }
    out.count("forced_schedules");
    out.count("evaluations");
}

pub fn run(args: &Args) {
    let mut out = Out::new(&args.out);
    let mut rng = Rng::new(args.seed ^ 0xC16);
    out.comment(&format!("C16 mt seed={} thorough={}", args.seed, args.thorough));
    let worlds = if args.thorough { 40 } else { 8 };
    for _ in 0..worlds {
        let mut r = rng.fork();
        let page = *r.pick(&[512usize, 1024]);
        let cfg = Cfg { page, region: 65536.max(page as u64 * 64), cache: *r.pick(&[0usize, 1 << 20]) };
        out.begin_case(&format!("mt page={page} cache={}", cfg.cache));
        let res = std::panic::catch_unwind(std::panic::AssertUnwindSafe(|| {
            let mut w = World::new(Cfg { page: cfg.page, region: cfg.region, cache: cfg.cache }, "c16");
            out.line(&format!("hist cfg {} {} {}", cfg.page, cfg.region, cfg.cache));
            w.check_state(&mut out, "create");
            for kind in Dirtier::ALL {
                for (open_first, point) in [(true, "set_dirty"), (false, "ephemeral_savepoint.enter"), (false, "ephemeral_savepoint.checked")] {
                    forced(&mut w, open_first, point, kind, &mut out);
                }
            }
            let mut specs: Vec<BTreeMap<u64, Vec<u8>>> = vec![BTreeMap::new(); 4];
            let mut mspec = MSpec::new();
            for _ in 0..(if args.thorough { 40 } else { 12 }) {
                random_run(&mut w, &mut specs, &mut mspec, &mut r, &mut out);
            }
            churn_run(&mut w, &mut specs, &mut r, &mut out, if args.thorough { 900 } else { 300 });
            w.readers.clear();
            w.sps.clear();
        }));
        if res.is_err() {
            out.oracle_fail("mt-panic|panic in a multi-threaded case".into());
        }
        out.end_case(res.is_ok());
    }
    out.finish(&args.summary, &[]);
}
