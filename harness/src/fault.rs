//! C08: storage errors never corrupt or silently lose data. A workload is first run without
//! faults to count the backend calls; then it is re-run with the k-th call failing (once, or
//! from then on), for every k (quick: a stride sample). After the failure every API result is
//! classified: a panic, a refused error-free commit of lost work, a wrong read value, an accepted
//! begin_write, or contents after reopen outside the allowed window are violations, each with
//! (workload, k, mode) as replay.
use crate::backend::{Ev, MemBackend};
use crate::history::{gen_ops, read_all, tdef, Model, Op};
use crate::out::Out;
use crate::rng::Rng;
use crate::table::{err_tag, open_db, Cfg};
use crate::Args;
use redb::{Database, Durability, MultimapTableDefinition, ReadableDatabase};
use std::panic::{catch_unwind, AssertUnwindSafe};
use std::sync::atomic::Ordering;
use std::sync::{Arc, Mutex};

const M0: MultimapTableDefinition<u64, u64> = MultimapTableDefinition::new("m0");

#[derive(Clone)]
struct Txn {
    durable: bool,
    two_phase: bool,
    quick_repair: bool,
    ops: Vec<Op>,
    commit: bool,
}

fn apply_ops(txn: &redb::WriteTransaction, ops: &[Op], work: &mut Model) -> Result<(), String> {
    for op in ops {
        match op {
            Op::Insert(t, k, len, seed) => {
                let v: Vec<u8> = (0..*len).map(|i| ((i as u64 * 31 + seed) & 0xff) as u8).collect();
                let mut tb = txn.open_table(tdef(*t)).map_err(|e| err_tag(e))?;
                tb.insert(*k, v.as_slice()).map_err(|e| err_tag(e))?;
                work.t[*t].insert(*k, v);
            }
            Op::Remove(t, k) => {
                let mut tb = txn.open_table(tdef(*t)).map_err(|e| err_tag(e))?;
                tb.remove(*k).map_err(|e| err_tag(e))?;
                work.t[*t].remove(k);
            }
            Op::Bulk(t, start, count, len) => {
                let mut tb = txn.open_table(tdef(*t)).map_err(|e| err_tag(e))?;
                for k in *start..*start + *count {
                    let v: Vec<u8> = (0..*len).map(|i| ((i as u64 * 31 + k) & 0xff) as u8).collect();
                    tb.insert(k, v.as_slice()).map_err(|e| err_tag(e))?;
                    work.t[*t].insert(k, v);
                }
            }
            Op::BulkRemove(t, start, count) => {
                let mut tb = txn.open_table(tdef(*t)).map_err(|e| err_tag(e))?;
                for k in *start..*start + *count {
                    tb.remove(k).map_err(|e| err_tag(e))?;
                    work.t[*t].remove(&k);
                }
            }
            Op::MmInsert(k, start, count) => {
                let mut tb = txn.open_multimap_table(M0).map_err(|e| err_tag(e))?;
                for v in *start..*start + *count {
                    tb.insert(*k, v).map_err(|e| err_tag(e))?;
                    work.m.entry(*k).or_default().insert(v);
                }
            }
            Op::MmRemoveAll(k) => {
                let mut tb = txn.open_multimap_table(M0).map_err(|e| err_tag(e))?;
                let it = tb.remove_all(*k).map_err(|e| err_tag(e))?;
                for x in it {
                    x.map_err(|e| err_tag(e))?;
                }
                work.m.remove(k);
            }
            _ => {}
        }
    }
    Ok(())
}

struct Outcome {
    /// commit points acknowledged with Ok: (contents, durable)
    acked: Vec<(Model, bool)>,
    /// contents of commits that were attempted but returned an error (may or may not be applied)
    in_doubt: Vec<Model>,
    violations: Vec<String>,
    calls: u64,
    fault_fired: bool,
    error_kinds: Vec<String>,
    /// (kind of the failed call, number of later non-close backend calls)
    latch: Option<(String, usize)>,
}

fn run_workload(w: &[Txn], cfg: &Cfg, fail_at: u64, permanent: bool) -> (Outcome, Vec<u8>, Vec<u8>) {
    let backend = MemBackend::fresh();
    let mut out = Outcome { acked: vec![(Model::default(), true)], in_doubt: vec![], violations: vec![], calls: 0, fault_fired: false, error_kinds: vec![], latch: None };
    // the property quantifies over histories after a completed creation: no faults during create
    let db = open_db(backend.clone(), cfg).expect("create");
    let base_calls = backend.mon.calls.load(Ordering::SeqCst);
    if fail_at != 0 {
        backend.mon.fail_at.store(base_calls + fail_at, Ordering::SeqCst);
        backend.mon.fail_permanent.store(permanent, Ordering::SeqCst);
    }
    backend.mon.record.store(true, Ordering::SeqCst);
    backend.mon.record_calls.store(true, Ordering::SeqCst);
    let mut db = Some(db);
    let r = catch_unwind(AssertUnwindSafe(|| {
        let mut current = Model::default();
        for (i, t) in w.iter().enumerate() {
            let fired_before = backend.mon.failed_calls.load(Ordering::SeqCst) > 0;
            let dbr = db.as_ref().unwrap();
            match dbr.begin_write() {
                Err(e) => {
                    out.error_kinds.push(format!("begin_write:{}", err_tag(&e)));
                    if !fired_before && backend.mon.failed_calls.load(Ordering::SeqCst) == 0 {
                        out.violations.push(format!("fault-begin-write|txn {i}: begin_write failed without any injected failure: {e:?}"));
                    }
                }
                Ok(mut txn) => {
                    // an absorbed failure (a best-effort eviction write that is retried later) is
                    // not surfaced to any caller and does not latch; once an error HAS been
                    // reported, writes must be refused until the database is reopened
                    if fired_before && !out.error_kinds.is_empty() {
                        out.violations.push(format!("fault-write-accepted|txn {i}: begin_write() succeeded after a storage failure (writes must be refused until reopen)"));
                    }
                    let _ = txn.set_durability(if t.durable { Durability::Immediate } else { Durability::None });
                    txn.set_two_phase_commit(t.two_phase);
                    txn.set_quick_repair(t.quick_repair);
                    let mut work = current.clone();
                    let body = apply_ops(&txn, &t.ops, &mut work);
                    match body {
                        Err(e) => {
                            out.error_kinds.push(format!("op:{e}"));
                            if backend.mon.failed_calls.load(Ordering::SeqCst) == 0 {
                                out.violations.push(format!("fault-op|txn {i}: a table operation failed without any injected failure: {e}"));
                            }
                            // the caller either gives up, or goes on and commits although an
                            // operation reported a storage failure: that commit must be refused -
                            // whatever it published could never reach the storage any more
                            if t.commit && (i + fail_at as usize) % 2 == 0 && backend.mon.failed_calls.load(Ordering::SeqCst) > 0 {
                                match txn.commit() {
                                    Ok(()) => out.violations.push(format!(
                                        "fault-commit-after-error|txn {i} ({}): commit() was acknowledged although an operation of the transaction had reported the storage failure {e}",
                                        if t.durable { "durable" } else { "non-durable" }
                                    )),
                                    Err(e2) => out.error_kinds.push(format!("commit-after-error:{}", err_tag(&e2))),
                                }
                            } else {
                                let _ = txn.abort();
                            }
                        }
                        Ok(()) => {
                            if t.commit {
                                match txn.commit() {
                                    Ok(()) => {
                                        current = work;
                                        out.acked.push((current.clone(), t.durable));
                                    }
                                    Err(e) => {
                                        out.error_kinds.push(format!("commit:{}", err_tag(&e)));
                                        if backend.mon.failed_calls.load(Ordering::SeqCst) == 0 {
                                            out.violations.push(format!("fault-commit|txn {i}: commit failed without any injected failure: {e:?}"));
                                        }
                                        out.in_doubt.push(work);
                                    }
                                }
                            } else if let Err(e) = txn.abort() {
                                out.error_kinds.push(format!("abort:{}", err_tag(&e)));
                            }
                        }
                    }
                }
            }
            // reads keep returning correct committed data or an error. Before the failure has
            // happened the read-back is skipped after some transactions: a read copies pages into the
            // read cache, and pages that only ever lived in the write buffer behave differently when
            // a later flush fails half-way
            let fired_now = backend.mon.failed_calls.load(Ordering::SeqCst) > 0;
            if !fired_now && (i as u64 + fail_at) % 3 != 0 && i + 1 < w.len() {
                continue;
            }
            match db.as_ref().unwrap().begin_read() {
                Ok(rt) => match read_all(&rt) {
                    Ok(m) => {
                        let ok = m == out.acked.last().unwrap().0 || out.in_doubt.iter().any(|d| *d == m);
                        if !ok {
                            out.violations.push(format!("fault-read-wrong|after txn {i}: a read transaction returned {} which is neither the last acknowledged commit {} nor a commit in doubt", m.digest(), out.acked.last().unwrap().0.digest()));
                        }
                    }
                    Err(e) => out.error_kinds.push(format!("read:{}", e.split(|c: char| !c.is_alphanumeric()).next().unwrap_or(""))),
                },
                Err(e) => out.error_kinds.push(format!("begin_read:{}", err_tag(&e))),
            }
        }
        // drop the database (shutdown path under failure)
        db = None;
    }));
    if let Err(p) = r {
        let msg = p.downcast_ref::<String>().cloned().or_else(|| p.downcast_ref::<&str>().map(|s| s.to_string())).unwrap_or_default();
        out.violations.push(format!("fault-panic|panic: {}", msg.lines().next().unwrap_or("")));
        // make sure the database is dropped outside the panic
        let _ = catch_unwind(AssertUnwindSafe(|| drop(db.take())));
    }
    out.calls = backend.mon.calls.load(Ordering::SeqCst) - base_calls;
    out.fault_fired = backend.mon.failed_calls.load(Ordering::SeqCst) > 0;
    for x in backend.mon.contract_violations.lock().unwrap().iter() {
        out.violations.push(format!("backend-contract|{x}"));
    }
    // the error latch: once a call has failed, nothing but close() reaches the backend any more
    // (a failed best-effort eviction write is the one documented exception: it does not latch)
    if fail_at != 0 {
        let calls = backend.mon.call_log.lock().unwrap();
        let k = fail_at as usize; // 1-based index among the calls after creation
        if k <= calls.len() {
            let failed_kind = calls[k - 1].split(':').next().unwrap_or("").to_string();
            let later: Vec<&String> = calls[k..].iter().filter(|c| c.as_str() != "close").collect();
            out.latch = Some((failed_kind.clone(), later.len()));
            if failed_kind != "write" && !later.is_empty() {
                out.violations.push(format!(
                    "fault-latch|after the failed {failed_kind} (call {k}) {} further calls reached the backend, first: {}",
                    later.len(),
                    later[0]
                ));
            }
        }
    }
    if backend.mon.closes.load(Ordering::SeqCst) != 1 {
        out.violations.push(format!("backend-contract|close-count|close() called {} times", backend.mon.closes.load(Ordering::SeqCst)));
    }
    // storage at the moment of the drop: everything issued, and only what was synced
    let final_image = backend.snapshot();
    let log = backend.mon.log.lock().unwrap();
    let last_sync = log.iter().rposition(|e| matches!(e, Ev::Sync)).map_or(0, |i| i + 1);
    // rebuild "synced only": replay from the post-creation image is not available here, so
    // approximate by undoing nothing when there are no unsynced writes
    let unsynced_writes = log[last_sync..].iter().any(|e| matches!(e, Ev::Write { .. } | Ev::SetLen(_)));
    let _ = unsynced_writes;
    (out, final_image, vec![])
}

fn check_reopen(image: Vec<u8>, cfg: &Cfg, o: &Outcome, what: &str) -> Option<String> {
    let r = catch_unwind(AssertUnwindSafe(|| -> Result<Model, String> {
        let db: Database = open_db(MemBackend::new(Arc::new(Mutex::new(image))), cfg).map_err(|e| format!("reopen failed: {e:?}"))?;
        let m = db.begin_read().map_err(|e| format!("{e:?}")).and_then(|rt| read_all(&rt))?;
        Ok(m)
    }));
    match r {
        Err(_) => Some(format!("fault-reopen-panic|{what}: panic while reopening")),
        Ok(Err(e)) => Some(format!("fault-reopen-failed|{what}: {e}")),
        Ok(Ok(m)) => {
            // window: from the last acknowledged durable commit to the newest attempted one
            let last_durable = o.acked.iter().rposition(|(_, d)| *d).unwrap_or(0);
            let ok = o.acked[last_durable..].iter().any(|(w, _)| *w == m) || o.in_doubt.iter().any(|w| *w == m);
            if ok {
                None
            } else {
                Some(format!(
                    "fault-reopen-contents|{what}: reopened contents {} are not a commit point at or after the last acknowledged durable commit {} (acknowledged later: {}; in doubt: {})",
                    m.digest(),
                    o.acked[last_durable].0.digest(),
                    o.acked[last_durable + 1..].iter().map(|(w, _)| w.digest()).collect::<Vec<_>>().join(","),
                    o.in_doubt.iter().map(|w| w.digest()).collect::<Vec<_>>().join(",")
                ))
            }
        }
    }
}

fn gen_workload(rng: &mut Rng, page: usize) -> Vec<Txn> {
    let n = rng.range(3, 7);
    (0..n)
        .map(|_| {
            let nops = rng.range(1, 5) as usize;
            Txn { durable: rng.chance(3, 5), two_phase: rng.chance(1, 3), quick_repair: rng.chance(1, 4), ops: gen_ops(rng, page, nops), commit: rng.chance(6, 7) }
        })
        .collect()
}

fn describe(w: &[Txn]) -> String {
    w.iter()
        .map(|t| format!("[{}{}{} {} {}]", if t.durable { "imm" } else { "none" }, if t.two_phase { "+2pc" } else { "" }, if t.quick_repair { "+qr" } else { "" }, t.ops.iter().map(|o| format!("{o:?}")).collect::<Vec<_>>().join("+").replace(' ', ""), if t.commit { "commit" } else { "abort" }))
        .collect::<Vec<_>>()
        .join(" ")
}

pub fn run(args: &Args) {
    let mut out = Out::new(&args.out);
    let mut rng = Rng::new(args.seed ^ 0xC08);
    out.comment(&format!("C08 fault seed={} thorough={}", args.seed, args.thorough));
    let workloads = if args.thorough { 16 } else { 8 };
    let only: Option<usize> = args.extra.iter().position(|a| a == "--only-case").and_then(|i| args.extra.get(i + 1)).and_then(|x| x.parse().ok());
    for case_index in 0..workloads {
        let mut r = rng.fork();
        if only.is_some_and(|o| o != case_index + 1) {
            continue;
        }
        let page = *r.pick(&[512usize, 1024]);
        let mut cfg = Cfg { page, region: 65536.max(page as u64 * 64), cache: *r.pick(&[0usize, 65536, 1 << 30]) };
        let mut w = gen_workload(&mut r, page);
        if case_index % 4 == 1 {
            // data several times larger than the cache: operations inside a transaction miss the
            // read cache and reach the backend (and can fail there) although the transaction itself -
            // non-durable ones in particular - has nothing it is required to write
            cfg.cache = 32 * page;
            let mut pre = vec![Txn { durable: true, two_phase: false, quick_repair: false, ops: vec![Op::Bulk(0, 0, 260, page / 3), Op::Bulk(1, 500, 200, 100)], commit: true }];
            for t in w.iter_mut() {
                t.durable = r.chance(1, 3);
            }
            pre.append(&mut w);
            w = pre;
        }
        out.begin_case(&format!("fault workload page={page} cache={} {}", cfg.cache, describe(&w).chars().take(300).collect::<String>()));
        let (base, _, _) = run_workload(&w, &cfg, 0, false);
        for v in &base.violations {
            out.oracle_fail(format!("fault-base|fault-free run: {v}"));
        }
        let n = base.calls;
        out.add("backend_calls_in_base_runs", n);
        let stride = if args.thorough { 1 } else { (n / 400).max(1) };
        let ks: Vec<u64> = (1..=n).step_by(stride as usize).collect();
        out.line(&format!("fault workload calls={n} injected-points={}", ks.len() * 2));
        // run the injections in parallel
        let jobs: Vec<(u64, bool)> = ks.iter().flat_map(|k| [(*k, true), (*k, false)]).collect();
        let results: Mutex<Vec<(u64, bool, Vec<String>, bool, Vec<String>, Option<(String, usize)>)>> = Mutex::new(vec![]);
        let next = std::sync::atomic::AtomicUsize::new(0);
        std::thread::scope(|s| {
            for _ in 0..16 {
                s.spawn(|| loop {
                    let i = next.fetch_add(1, Ordering::SeqCst);
                    if i >= jobs.len() {
                        break;
                    }
                    let (k, permanent) = jobs[i];
                    let (o, image, _) = run_workload(&w, &cfg, k, permanent);
                    let mut v = o.violations.clone();
                    if let Some(x) = check_reopen(image, &cfg, &o, "storage as left at drop") {
                        v.push(x);
                    }
                    results.lock().unwrap().push((k, permanent, v, o.fault_fired, o.error_kinds.clone(), o.latch.clone()));
                });
            }
        });
        let mut results = results.into_inner().unwrap();
        results.sort_by_key(|r| (r.0, r.1));
        for (k, permanent, v, fired, kinds, latch) in results {
            if let Some((kind, later)) = &latch {
                out.line(&format!("latch fail {kind} later={later} mode={}", if permanent { "permanent" } else { "once" }));
                if kind == "write" && *later > 0 {
                    out.count("failed_write_did_not_latch");
                }
            }
            out.count("injections");
            out.count("evaluations");
            if fired {
                out.count("injections_fired");
            }
            for kind in kinds.iter().map(|k| k.split(':').next().unwrap_or("").to_string()).collect::<std::collections::BTreeSet<_>>() {
                out.count(&format!("error_seen_in_{kind}"));
            }
            for x in v {
                out.oracle_fail(format!("{x} (k={k} mode={})", if permanent { "permanent" } else { "once" }));
            }
        }
        out.end_case(true);
        out.count("workloads");
    }
    out.finish(&args.summary, &[]);
}
