//! Validation stream for the Lean XXH3-128 implementation: the real checksum function on every
//! length 0..=1100 and on random long inputs.
use crate::out::{hex, Out};
use crate::rng::Rng;
use crate::Args;

pub fn run(args: &Args) {
    let mut out = Out::new(&args.out);
    let mut rng = Rng::new(args.seed);
    out.begin_case("xxh3 lengths 0..=1100");
    for len in 0..=1100usize {
        let d = rng.bytes(len);
        out.line(&format!("xxh {} => {}", hex(&d), hex(&redb::verif::verif_xxh3_checksum(&d).to_le_bytes())));
    }
    out.end_case(true);
    out.begin_case("xxh3 long inputs");
    for len in [1101usize, 2048, 4096, 4097, 8191, 16384, 65536, 100_003] {
        let d = rng.bytes(len);
        out.line(&format!("xxh {} => {}", hex(&d), hex(&redb::verif::verif_xxh3_checksum(&d).to_le_bytes())));
    }
    out.end_case(true);
    out.finish(&args.summary, &[]);
}
