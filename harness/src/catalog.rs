//! C17: the table catalog is consistent and type-safe. Generated programs open (creating),
//! rename, delete and list normal and multimap tables over six names and a universe of key/value
//! types (built-in, user-defined, composites of both, colliding names, differing fixed widths),
//! interleaved with data operations and handle drops, then commit or abort, optionally reopen,
//! and read everything back through read transactions (typed, wrongly typed, untyped). Some
//! cases start from a file written by redb 3.0.0, so that the legacy spellings of composite type
//! names are stored. Every answer is written for the Lean catalog model (`cat ` lines); the same
//! program is interpreted by a `BTreeMap` oracle (S). Storage release is judged on the
//! implementation alone: `allocated_pages()` must return to its earlier level once a table has
//! been deleted, the delete committed and the pending frees drained.
use crate::backend::MemBackend;
use crate::out::{hex, Out};
use crate::rng::Rng;
use crate::table::{fnv64, open_db, Cfg};
use crate::Args;
use redb::{
    Database, Key, MultimapTableDefinition, ReadTransaction, ReadableDatabase, ReadableMultimapTable, ReadableTable, ReadableTableMetadata,
    TableDefinition, TableError, Value, WriteTransaction,
};
use std::cmp::Ordering;
use std::collections::{BTreeMap, BTreeSet};
use std::panic::{catch_unwind, AssertUnwindSafe};
use std::sync::{Arc, Mutex};

/// `allocated_pages()` after delete + commit + drain may exceed the level before the table was
/// created by at most this many pages. Calibrated on the unmodified code: the excess is 0, except
/// once per database with 512-byte pages, where it is 2: the first freed page makes the *system*
/// catalog gain the definitions of the freed-page tables, which splits its single 512-byte leaf
/// into two leaves and a branch; the definitions stay when those tables are empty again.
pub const LEAK_TOLERANCE: u64 = 2;
/// number of empty durable commits after which the frees of a committed transaction have drained
pub const DRAIN_COMMITS: usize = 2;
const NSLOTS: usize = 3;
pub const NAMES: [&str; 6] = ["a", "ab", "B", "b", "t\u{e9}", "tz"];

// ---------------------------------------------------------------------------------- user types

/// user-defined types: `SelfType` is an integer, the type name is chosen to collide or not
macro_rules! user_type {
    ($krate:ident, $t:ident, $inner:ty, $width:expr, $name:expr) => {
        impl $krate::Value for $t {
            type SelfType<'a> = $inner;
            type AsBytes<'a> = [u8; $width];
            fn fixed_width() -> Option<usize> {
                Some($width)
            }
            fn from_bytes<'a>(data: &'a [u8]) -> $inner
            where
                Self: 'a,
            {
                <$inner>::from_le_bytes(data.try_into().unwrap())
            }
            fn as_bytes<'a, 'b: 'a>(value: &'a $inner) -> [u8; $width]
            where
                Self: 'b,
            {
                value.to_le_bytes()
            }
            fn type_name() -> $krate::TypeName {
                $krate::TypeName::new($name)
            }
        }
        impl $krate::Key for $t {
            fn compare(a: &[u8], b: &[u8]) -> Ordering {
                <$inner>::from_le_bytes(a.try_into().unwrap()).cmp(&<$inner>::from_le_bytes(b.try_into().unwrap()))
            }
        }
    };
}

/// user type "UserT", 8 bytes
#[derive(Debug)]
pub struct UserT;
/// a *different definition* of "UserT": same name, 4 bytes
#[derive(Debug)]
pub struct UserT4;
/// user type whose name collides with the built-in "u32"
#[derive(Debug)]
pub struct UserU32;
/// a third definition of "UserT": same name, variable width
#[derive(Debug)]
pub struct UserTV;
impl redb::Value for UserTV {
    type SelfType<'a> = &'a [u8];
    type AsBytes<'a> = &'a [u8];
    fn fixed_width() -> Option<usize> {
        None
    }
    fn from_bytes<'a>(data: &'a [u8]) -> &'a [u8]
    where
        Self: 'a,
    {
        data
    }
    fn as_bytes<'a, 'b: 'a>(value: &'a &'b [u8]) -> &'a [u8]
    where
        Self: 'b,
    {
        value
    }
    fn type_name() -> redb::TypeName {
        redb::TypeName::new("UserT")
    }
}
impl redb::Key for UserTV {
    fn compare(a: &[u8], b: &[u8]) -> Ordering {
        a.cmp(b)
    }
}
user_type!(redb, UserT, u64, 8, "UserT");
user_type!(redb, UserT4, u32, 4, "UserT");
user_type!(redb, UserU32, u32, 4, "u32");
user_type!(redb3_0, UserT, u64, 8, "UserT");
user_type!(redb3_0, UserU32, u32, 4, "u32");

// ---------------------------------------------------------------------------------- type universe

fn pat(i: u64, pad: usize) -> Vec<u8> {
    (0..pad).map(|j| ((j * 31 + i as usize) & 0xff) as u8).collect()
}
fn pat_str(i: u64, pad: usize) -> String {
    let mut s = format!("{i:016x}");
    s.extend((0..pad).map(|j| (b'a' + ((j as u64 + i) % 26) as u8) as char));
    s
}

/// A member of the type universe: encodes the abstract (number, padding) pair as a value of the
/// type (through the type's own typed constructor) and decodes it back.
pub trait Ty: Key + 'static {
    fn enc(i: u64, pad: usize) -> Vec<u8>;
    fn dec(b: &[u8]) -> (u64, usize);
}

fn bytes_of<T: Value>(v: &T::SelfType<'_>) -> Vec<u8> {
    T::as_bytes(v).as_ref().to_vec()
}

impl Ty for u64 {
    fn enc(i: u64, _: usize) -> Vec<u8> {
        bytes_of::<u64>(&i)
    }
    fn dec(b: &[u8]) -> (u64, usize) {
        (<u64 as Value>::from_bytes(b), 0)
    }
}
impl Ty for u32 {
    fn enc(i: u64, _: usize) -> Vec<u8> {
        bytes_of::<u32>(&(i as u32))
    }
    fn dec(b: &[u8]) -> (u64, usize) {
        (u64::from(<u32 as Value>::from_bytes(b)), 0)
    }
}
impl Ty for UserT {
    fn enc(i: u64, _: usize) -> Vec<u8> {
        bytes_of::<UserT>(&i)
    }
    fn dec(b: &[u8]) -> (u64, usize) {
        (<UserT as Value>::from_bytes(b), 0)
    }
}
impl Ty for UserT4 {
    fn enc(i: u64, _: usize) -> Vec<u8> {
        bytes_of::<UserT4>(&(i as u32))
    }
    fn dec(b: &[u8]) -> (u64, usize) {
        (u64::from(<UserT4 as Value>::from_bytes(b)), 0)
    }
}
impl Ty for UserTV {
    fn enc(i: u64, pad: usize) -> Vec<u8> {
        // big-endian number first: byte order = numeric order
        let mut v = i.to_be_bytes().to_vec();
        v.extend(pat(i, pad));
        v
    }
    fn dec(b: &[u8]) -> (u64, usize) {
        (u64::from_be_bytes(b[..8].try_into().unwrap()), b.len() - 8)
    }
}
impl Ty for UserU32 {
    fn enc(i: u64, _: usize) -> Vec<u8> {
        bytes_of::<UserU32>(&(i as u32))
    }
    fn dec(b: &[u8]) -> (u64, usize) {
        (u64::from(<UserU32 as Value>::from_bytes(b)), 0)
    }
}
impl Ty for &'static [u8] {
    fn enc(i: u64, pad: usize) -> Vec<u8> {
        let mut v = i.to_le_bytes().to_vec();
        v.extend(pat(i, pad));
        bytes_of::<&[u8]>(&v.as_slice())
    }
    fn dec(b: &[u8]) -> (u64, usize) {
        let v = <&[u8] as Value>::from_bytes(b);
        (u64::from_le_bytes(v[..8].try_into().unwrap()), v.len() - 8)
    }
}
impl Ty for &'static str {
    fn enc(i: u64, pad: usize) -> Vec<u8> {
        bytes_of::<&str>(&pat_str(i, pad).as_str())
    }
    fn dec(b: &[u8]) -> (u64, usize) {
        let s = <&str as Value>::from_bytes(b);
        (u64::from_str_radix(&s[..16], 16).unwrap(), s.len() - 16)
    }
}
impl Ty for String {
    fn enc(i: u64, pad: usize) -> Vec<u8> {
        bytes_of::<String>(&pat_str(i, pad))
    }
    fn dec(b: &[u8]) -> (u64, usize) {
        let s = <String as Value>::from_bytes(b);
        (u64::from_str_radix(&s[..16], 16).unwrap(), s.len() - 16)
    }
}
impl Ty for Option<u32> {
    fn enc(i: u64, _: usize) -> Vec<u8> {
        bytes_of::<Option<u32>>(&if i == 0 { None } else { Some(i as u32) })
    }
    fn dec(b: &[u8]) -> (u64, usize) {
        (<Option<u32> as Value>::from_bytes(b).map_or(0, u64::from), 0)
    }
}
impl Ty for Option<UserU32> {
    fn enc(i: u64, _: usize) -> Vec<u8> {
        bytes_of::<Option<UserU32>>(&if i == 0 { None } else { Some(i as u32) })
    }
    fn dec(b: &[u8]) -> (u64, usize) {
        (<Option<UserU32> as Value>::from_bytes(b).map_or(0, u64::from), 0)
    }
}
impl Ty for (u64, u32) {
    fn enc(i: u64, _: usize) -> Vec<u8> {
        bytes_of::<(u64, u32)>(&(i, (i as u32).wrapping_mul(3)))
    }
    fn dec(b: &[u8]) -> (u64, usize) {
        (<(u64, u32) as Value>::from_bytes(b).0, 0)
    }
}
impl Ty for (u64, UserU32) {
    fn enc(i: u64, _: usize) -> Vec<u8> {
        bytes_of::<(u64, UserU32)>(&(i, (i as u32).wrapping_mul(3)))
    }
    fn dec(b: &[u8]) -> (u64, usize) {
        (<(u64, UserU32) as Value>::from_bytes(b).0, 0)
    }
}
impl Ty for (u64, &'static [u8]) {
    fn enc(i: u64, pad: usize) -> Vec<u8> {
        let p = pat(i, pad);
        bytes_of::<(u64, &[u8])>(&(i, p.as_slice()))
    }
    fn dec(b: &[u8]) -> (u64, usize) {
        let (a, s) = <(u64, &[u8]) as Value>::from_bytes(b);
        (a, s.len())
    }
}
impl Ty for [u8; 4] {
    fn enc(i: u64, _: usize) -> Vec<u8> {
        bytes_of::<[u8; 4]>(&(i as u32).to_le_bytes())
    }
    fn dec(b: &[u8]) -> (u64, usize) {
        (u64::from(u32::from_le_bytes(<[u8; 4] as Value>::from_bytes(b))), 0)
    }
}
impl Ty for &'static [u8; 4] {
    fn enc(i: u64, _: usize) -> Vec<u8> {
        bytes_of::<&[u8; 4]>(&&(i as u32).to_le_bytes())
    }
    fn dec(b: &[u8]) -> (u64, usize) {
        (u64::from(u32::from_le_bytes(*<&[u8; 4] as Value>::from_bytes(b))), 0)
    }
}

/// what the oracle knows of a type: classification byte + name (the on-disk identity), the
/// spelling older versions stored for the same type, and the fixed width
#[derive(Clone, PartialEq, Eq, Debug)]
pub struct TId {
    canon: String,
    legacy: Option<String>,
    width: Option<usize>,
}

pub const TYPES: [&str; 16] = ["u64", "u32", "bytes", "str", "string", "user", "user4", "userv", "useru32", "optu32", "optuser", "tupf", "tupuser", "tupv", "arr4", "arr4r"];

fn tid(tok: &str) -> TId {
    let (canon, legacy, width): (&str, Option<&str>, Option<usize>) = match tok {
        "u64" => ("1:u64", None, Some(8)),
        "u32" => ("1:u32", None, Some(4)),
        "bytes" => ("1:&[u8]", None, None),
        "str" => ("1:&str", None, None),
        "string" => ("1:String", None, None),
        "user" => ("2:UserT", None, Some(8)),
        "user4" => ("2:UserT", None, Some(4)),
        "userv" => ("2:UserT", None, None),
        "useru32" => ("2:u32", None, Some(4)),
        "optu32" => ("4:Option<u32>", Some("1:Option<u32>"), Some(5)),
        "optuser" => ("2:Option<u32>", Some("1:Option<u32>"), Some(5)),
        "tupf" => ("4:(u64,u32)", Some("1:(u64,u32)"), Some(12)),
        // a user-defined element (whose name collides with a built-in) NOT in first position: the
        // tuple as a whole is user-defined and differs from (u64,u32)
        "tupuser" => ("2:(u64,u32)", Some("1:(u64,u32)"), Some(12)),
        "tupv" => ("4:(u64,&[u8])", Some("3:(u64,&[u8])"), None),
        "arr4" | "arr4r" => ("4:[u8;4]", Some("1:[u8;4]"), Some(4)),
        other => panic!("unknown type token {other}"),
    };
    TId { canon: canon.into(), legacy: legacy.map(Into::into), width }
}

/// the (key, value) pairs for which handles are instantiated
pub const PAIRS: [(&str, &str); 27] = [
    ("userv", "u64"),
    ("u64", "userv"),
    ("tupuser", "bytes"),
    ("u64", "u64"),
    ("u64", "bytes"),
    ("str", "bytes"),
    ("bytes", "bytes"),
    ("u32", "u32"),
    ("str", "str"),
    ("string", "string"),
    ("string", "bytes"),
    ("u64", "u32"),
    ("u64", "optu32"),
    ("u64", "optuser"),
    ("u64", "useru32"),
    ("user", "u64"),
    ("user4", "u64"),
    ("u64", "user"),
    ("u64", "user4"),
    ("tupf", "bytes"),
    ("u64", "tupv"),
    ("arr4", "arr4r"),
    ("arr4r", "arr4"),
    ("optuser", "bytes"),
    ("optu32", "bytes"),
    ("user", "user"),
    ("user4", "user4"),
];
/// pairs that redb 3.0.0 can create (legacy spellings of the composites)
pub const LEGACY_PAIRS: [(&str, &str); 8] =
    [("u64", "optu32"), ("u64", "optuser"), ("tupf", "bytes"), ("u64", "tupv"), ("arr4", "arr4r"), ("optuser", "bytes"), ("u64", "u64"), ("u64", "useru32")];

macro_rules! with_pair {
    ($kt:expr, $vt:expr, $f:ident, $($args:expr),*) => {
        match ($kt, $vt) {
            ("u64", "u64") => $f::<u64, u64>($($args),*),
            ("u64", "bytes") => $f::<u64, &'static [u8]>($($args),*),
            ("str", "bytes") => $f::<&'static str, &'static [u8]>($($args),*),
            ("bytes", "bytes") => $f::<&'static [u8], &'static [u8]>($($args),*),
            ("u32", "u32") => $f::<u32, u32>($($args),*),
            ("str", "str") => $f::<&'static str, &'static str>($($args),*),
            ("string", "string") => $f::<String, String>($($args),*),
            ("string", "bytes") => $f::<String, &'static [u8]>($($args),*),
            ("u64", "u32") => $f::<u64, u32>($($args),*),
            ("u64", "optu32") => $f::<u64, Option<u32>>($($args),*),
            ("u64", "optuser") => $f::<u64, Option<UserU32>>($($args),*),
            ("u64", "useru32") => $f::<u64, UserU32>($($args),*),
            ("user", "u64") => $f::<UserT, u64>($($args),*),
            ("user4", "u64") => $f::<UserT4, u64>($($args),*),
            ("userv", "u64") => $f::<UserTV, u64>($($args),*),
            ("u64", "userv") => $f::<u64, UserTV>($($args),*),
            ("u64", "user") => $f::<u64, UserT>($($args),*),
            ("u64", "user4") => $f::<u64, UserT4>($($args),*),
            ("tupf", "bytes") => $f::<(u64, u32), &'static [u8]>($($args),*),
            ("tupuser", "bytes") => $f::<(u64, UserU32), &'static [u8]>($($args),*),
            ("u64", "tupv") => $f::<u64, (u64, &'static [u8])>($($args),*),
            ("arr4", "arr4r") => $f::<[u8; 4], &'static [u8; 4]>($($args),*),
            ("arr4r", "arr4") => $f::<&'static [u8; 4], [u8; 4]>($($args),*),
            ("optuser", "bytes") => $f::<Option<UserU32>, &'static [u8]>($($args),*),
            ("optu32", "bytes") => $f::<Option<u32>, &'static [u8]>($($args),*),
            ("user", "user") => $f::<UserT, UserT>($($args),*),
            ("user4", "user4") => $f::<UserT4, UserT4>($($args),*),
            (k, v) => panic!("type pair ({k},{v}) is not instantiated in the harness"),
        }
    };
}

macro_rules! with_type {
    ($t:expr, $f:ident) => {
        match $t {
            "u64" => $f::<u64>(),
            "u32" => $f::<u32>(),
            "bytes" => $f::<&'static [u8]>(),
            "str" => $f::<&'static str>(),
            "string" => $f::<String>(),
            "user" => $f::<UserT>(),
            "user4" => $f::<UserT4>(),
            "userv" => $f::<UserTV>(),
            "useru32" => $f::<UserU32>(),
            "optu32" => $f::<Option<u32>>(),
            "optuser" => $f::<Option<UserU32>>(),
            "tupf" => $f::<(u64, u32)>(),
            "tupuser" => $f::<(u64, UserU32)>(),
            "tupv" => $f::<(u64, &'static [u8])>(),
            "arr4" => $f::<[u8; 4]>(),
            "arr4r" => $f::<&'static [u8; 4]>(),
            other => panic!("unknown type token {other}"),
        }
    };
}

fn typedef_of<T: Value>() -> (String, Option<usize>) {
    (T::type_name().name().to_string(), T::fixed_width())
}

pub fn tag(e: &TableError) -> String {
    match e {
        TableError::TableTypeMismatch { .. } => "type-mismatch".into(),
        TableError::TableIsMultimap(_) => "is-multimap".into(),
        TableError::TableIsNotMultimap(_) => "not-multimap".into(),
        TableError::TypeDefinitionChanged { .. } => "type-definition-changed".into(),
        TableError::TableDoesNotExist(_) => "does-not-exist".into(),
        TableError::TableExists(_) => "exists".into(),
        TableError::TableAlreadyOpen(..) => "already-open".into(),
        other => crate::table::err_tag(other),
    }
}

const TAGS: [&str; 11] =
    ["ok", "type-mismatch", "is-multimap", "not-multimap", "type-definition-changed", "does-not-exist", "exists", "already-open", "noslot", "true", "false"];

pub fn fill_w(i: u64) -> u64 {
    i.wrapping_mul(2_654_435_761) % (1 << 24)
}

type Row = (u64, u64, u64);

pub fn rows_hash<'a>(rows: impl Iterator<Item = &'a Row>) -> u64 {
    let mut buf = vec![];
    for (i, w, l) in rows {
        buf.extend_from_slice(&i.to_le_bytes());
        buf.extend_from_slice(&w.to_le_bytes());
        buf.extend_from_slice(&l.to_le_bytes());
    }
    fnv64(&[&buf])
}

// ---------------------------------------------------------------------------------- handles

trait Handle {
    fn put(&mut self, i: u64, w: u64, pad: usize) -> String;
    fn del(&mut self, i: u64) -> String;
    fn len(&self) -> String;
    fn rename_via(self: Box<Self>, txn: &WriteTransaction, new: &str) -> Result<(), TableError>;
    fn delete_via(self: Box<Self>, txn: &WriteTransaction) -> Result<bool, TableError>;
}

struct NH<'t, K: Ty, V: Ty>(redb::Table<'t, K, V>);
struct MH<'t, K: Ty, V: Ty>(redb::MultimapTable<'t, K, V>);

fn wl<V: Ty>(b: &[u8]) -> String {
    let (w, l) = V::dec(b);
    format!("{w}:{l}")
}

impl<K: Ty, V: Ty> Handle for NH<'_, K, V> {
    fn put(&mut self, i: u64, w: u64, pad: usize) -> String {
        let (kb, vb) = (K::enc(i, 0), V::enc(w, pad));
        match self.0.insert(K::from_bytes(&kb), V::from_bytes(&vb)) {
            Ok(None) => "none".into(),
            Ok(Some(g)) => wl::<V>(V::as_bytes(&g.value()).as_ref()),
            Err(e) => crate::table::err_tag(e),
        }
    }
    fn del(&mut self, i: u64) -> String {
        let kb = K::enc(i, 0);
        match self.0.remove(K::from_bytes(&kb)) {
            Ok(None) => "none".into(),
            Ok(Some(g)) => wl::<V>(V::as_bytes(&g.value()).as_ref()),
            Err(e) => crate::table::err_tag(e),
        }
    }
    fn len(&self) -> String {
        self.0.len().map_or_else(crate::table::err_tag, |n| n.to_string())
    }
    fn rename_via(self: Box<Self>, txn: &WriteTransaction, new: &str) -> Result<(), TableError> {
        txn.rename_table(self.0, TableDefinition::<(), ()>::new(new))
    }
    fn delete_via(self: Box<Self>, txn: &WriteTransaction) -> Result<bool, TableError> {
        txn.delete_table(self.0)
    }
}

impl<K: Ty, V: Ty> Handle for MH<'_, K, V> {
    fn put(&mut self, i: u64, w: u64, pad: usize) -> String {
        let (kb, vb) = (K::enc(i, 0), V::enc(w, pad));
        match self.0.insert(K::from_bytes(&kb), V::from_bytes(&vb)) {
            Ok(false) => "new".into(),
            Ok(true) => "dup".into(),
            Err(e) => crate::table::err_tag(e),
        }
    }
    fn del(&mut self, i: u64) -> String {
        let kb = K::enc(i, 0);
        match self.0.remove_all(K::from_bytes(&kb)) {
            Ok(vals) => {
                let declared = vals.len();
                let n = vals.count() as u64;
                if declared == n { n.to_string() } else { format!("err:MultimapValueLen{declared}vs{n}") }
            }
            Err(e) => crate::table::err_tag(e),
        }
    }
    fn len(&self) -> String {
        self.0.len().map_or_else(crate::table::err_tag, |n| n.to_string())
    }
    fn rename_via(self: Box<Self>, txn: &WriteTransaction, new: &str) -> Result<(), TableError> {
        txn.rename_multimap_table(self.0, MultimapTableDefinition::<(), ()>::new(new))
    }
    fn delete_via(self: Box<Self>, txn: &WriteTransaction) -> Result<bool, TableError> {
        txn.delete_multimap_table(self.0)
    }
}

fn open_w<'t, K: Ty, V: Ty>(txn: &'t WriteTransaction, name: &str, multi: bool) -> Result<Box<dyn Handle + 't>, TableError> {
    if multi {
        Ok(Box::new(MH(txn.open_multimap_table(MultimapTableDefinition::<K, V>::new(name))?)))
    } else {
        Ok(Box::new(NH(txn.open_table(TableDefinition::<K, V>::new(name))?)))
    }
}

/// typed open in a read transaction: (len(), decoded rows, every entry re-encodes to its own bytes)
fn open_r<K: Ty, V: Ty>(rt: &ReadTransaction, name: &str, multi: bool) -> Result<(u64, Vec<Row>, bool), TableError> {
    let mut rows = vec![];
    let mut exact = true;
    let mut push = |kb: &[u8], vb: &[u8]| {
        let (i, _) = K::dec(kb);
        let (w, l) = V::dec(vb);
        exact &= K::enc(i, 0) == kb && V::enc(w, l) == vb;
        rows.push((i, w, l as u64));
    };
    let n;
    if multi {
        let t = rt.open_multimap_table(MultimapTableDefinition::<K, V>::new(name))?;
        n = t.len().expect("len");
        for e in t.iter().expect("iter") {
            let (k, vals) = e.expect("entry");
            let kb = K::as_bytes(&k.value()).as_ref().to_vec();
            for v in vals {
                push(&kb, V::as_bytes(&v.expect("value").value()).as_ref());
            }
        }
    } else {
        let t = rt.open_table(TableDefinition::<K, V>::new(name))?;
        n = t.len().expect("len");
        for e in t.iter().expect("iter") {
            let (k, v) = e.expect("entry");
            push(K::as_bytes(&k.value()).as_ref(), V::as_bytes(&v.value()).as_ref());
        }
    }
    rows.sort_unstable();
    Ok((n, rows, exact))
}

// ------------------------------------------------------------------ tables written by redb 3.0.0

#[derive(Debug)]
struct Mem3(Arc<Mutex<Vec<u8>>>);
impl redb3_0::StorageBackend for Mem3 {
    fn len(&self) -> Result<u64, std::io::Error> {
        Ok(self.0.lock().unwrap().len() as u64)
    }
    fn read(&self, offset: u64, out: &mut [u8]) -> Result<(), std::io::Error> {
        let d = self.0.lock().unwrap();
        let end = offset as usize + out.len();
        if end > d.len() {
            return Err(std::io::Error::new(std::io::ErrorKind::InvalidInput, "read out of range"));
        }
        out.copy_from_slice(&d[offset as usize..end]);
        Ok(())
    }
    fn set_len(&self, len: u64) -> Result<(), std::io::Error> {
        self.0.lock().unwrap().resize(len as usize, 0);
        Ok(())
    }
    fn sync_data(&self) -> Result<(), std::io::Error> {
        Ok(())
    }
    fn write(&self, offset: u64, data: &[u8]) -> Result<(), std::io::Error> {
        let mut d = self.0.lock().unwrap();
        let end = offset as usize + data.len();
        if end > d.len() {
            return Err(std::io::Error::new(std::io::ErrorKind::InvalidInput, "write out of range"));
        }
        d[offset as usize..end].copy_from_slice(data);
        Ok(())
    }
}

fn legacy_fill<K3: redb3_0::Key + 'static, V3: redb3_0::Key + 'static, K: Ty, V: Ty>(db: &redb3_0::Database, name: &str, multi: bool, n: u64) {
    let txn = db.begin_write().expect("3.0.0 begin_write");
    if multi {
        let mut t = txn.open_multimap_table(redb3_0::MultimapTableDefinition::<K3, V3>::new(name)).expect("3.0.0 open_multimap_table");
        for i in 0..n {
            let (kb, vb) = (K::enc(i, 0), V::enc(fill_w(i), 0));
            t.insert(<K3 as redb3_0::Value>::from_bytes(&kb), <V3 as redb3_0::Value>::from_bytes(&vb)).expect("3.0.0 insert");
        }
    } else {
        let mut t = txn.open_table(redb3_0::TableDefinition::<K3, V3>::new(name)).expect("3.0.0 open_table");
        for i in 0..n {
            let (kb, vb) = (K::enc(i, 0), V::enc(fill_w(i), 0));
            t.insert(<K3 as redb3_0::Value>::from_bytes(&kb), <V3 as redb3_0::Value>::from_bytes(&vb)).expect("3.0.0 insert");
        }
    }
    txn.commit().expect("3.0.0 commit");
}

fn legacy_create(data: Arc<Mutex<Vec<u8>>>, name: &str, multi: bool, kt: &str, vt: &str, n: u64) {
    let db = redb3_0::Builder::new().create_with_backend(Mem3(data)).expect("create with redb 3.0.0");
    match (kt, vt) {
        ("u64", "optu32") => legacy_fill::<u64, Option<u32>, u64, Option<u32>>(&db, name, multi, n),
        ("u64", "optuser") => legacy_fill::<u64, Option<UserU32>, u64, Option<UserU32>>(&db, name, multi, n),
        ("tupf", "bytes") => legacy_fill::<(u64, u32), &'static [u8], (u64, u32), &'static [u8]>(&db, name, multi, n),
        ("u64", "tupv") => legacy_fill::<u64, (u64, &'static [u8]), u64, (u64, &'static [u8])>(&db, name, multi, n),
        ("arr4", "arr4r") => legacy_fill::<[u8; 4], &'static [u8; 4], [u8; 4], &'static [u8; 4]>(&db, name, multi, n),
        ("optuser", "bytes") => legacy_fill::<Option<UserU32>, &'static [u8], Option<UserU32>, &'static [u8]>(&db, name, multi, n),
        ("u64", "u64") => legacy_fill::<u64, u64, u64, u64>(&db, name, multi, n),
        ("u64", "useru32") => legacy_fill::<u64, UserU32, u64, UserU32>(&db, name, multi, n),
        (k, v) => panic!("legacy pair ({k},{v}) is not instantiated"),
    }
}

// ---------------------------------------------------------------------------------- oracle (S)

#[derive(Clone, PartialEq, Debug)]
struct TInfo {
    multi: bool,
    k: (String, Option<usize>),
    v: (String, Option<usize>),
    rows: BTreeSet<Row>,
}

#[derive(Clone, Default)]
pub struct Oracle {
    committed: BTreeMap<String, TInfo>,
    staged: BTreeMap<String, TInfo>,
    open: BTreeSet<String>,
    slots: Vec<Option<String>>,
    /// the committed catalog at the moment the held read transaction began
    snapshot: BTreeMap<String, TInfo>,
}

fn kind_of(tok: &str) -> bool {
    match tok {
        "normal" => false,
        "multimap" => true,
        other => panic!("unknown kind {other}"),
    }
}

fn names_repr<'a>(it: impl Iterator<Item = &'a String>) -> String {
    let v: Vec<&str> = it.map(String::as_str).collect();
    if v.is_empty() { "-".into() } else { v.join(",") }
}

fn check_kind(t: &TInfo, multi: bool) -> Result<(), &'static str> {
    if t.multi != multi {
        return Err(if t.multi { "is-multimap" } else { "not-multimap" });
    }
    Ok(())
}

fn check_types(t: &TInfo, multi: bool, k: &TId, v: &TId) -> Result<(), &'static str> {
    check_kind(t, multi)?;
    let km = t.k.0 == k.canon || k.legacy.as_deref() == Some(t.k.0.as_str());
    let vm = t.v.0 == v.canon || v.legacy.as_deref() == Some(t.v.0.as_str());
    if !km || !vm {
        return Err("type-mismatch");
    }
    if t.k.1 != k.width || t.v.1 != v.width {
        return Err("type-definition-changed");
    }
    Ok(())
}

impl Oracle {
    fn new() -> Self {
        Oracle { slots: vec![None; NSLOTS], ..Default::default() }
    }
    fn close_slot(&mut self, s: usize) -> bool {
        match self.slots[s].take() {
            Some(n) => {
                self.open.remove(&n);
                true
            }
            None => false,
        }
    }
    fn end_txn(&mut self, commit: bool) {
        self.open.clear();
        self.slots = vec![None; NSLOTS];
        if commit {
            self.committed = self.staged.clone();
        } else {
            self.staged = self.committed.clone();
        }
    }
    fn rename(&mut self, multi: bool, a: &str, b: &str) -> String {
        if self.open.contains(a) {
            return "already-open".into();
        }
        let Some(src) = self.staged.get(a) else { return "does-not-exist".into() };
        if let Err(e) = check_kind(src, multi) {
            return e.into();
        }
        if a == b {
            return "ok".into();
        }
        if let Some(dst) = self.staged.get(b) {
            return check_kind(dst, multi).err().unwrap_or("exists").into();
        }
        let info = self.staged.remove(a).unwrap();
        self.staged.insert(b.to_string(), info);
        "ok".into()
    }
    fn delete(&mut self, multi: bool, a: &str) -> String {
        if self.open.contains(a) {
            return "already-open".into();
        }
        match self.staged.get(a) {
            None => "false".into(),
            Some(t) => match check_kind(t, multi) {
                Err(e) => e.into(),
                Ok(()) => {
                    self.staged.remove(a);
                    "true".into()
                }
            },
        }
    }
    fn put_row(t: &mut TInfo, i: u64, w: u64, l: u64) -> String {
        let l = if t.v.1.is_some() { 0 } else { l };
        if t.multi {
            if t.rows.insert((i, w, l)) { "new".into() } else { "dup".into() }
        } else {
            let old: Vec<Row> = t.rows.range((i, 0, 0)..=(i, u64::MAX, u64::MAX)).copied().collect();
            for r in &old {
                t.rows.remove(r);
            }
            t.rows.insert((i, w, l));
            old.first().map_or("none".into(), |r| format!("{}:{}", r.1, r.2))
        }
    }
    /// expected answer of a request (None: the request has no modelled answer)
    pub fn apply(&mut self, req: &[&str]) -> Option<String> {
        Some(match req {
            ["new", ..] => {
                *self = Oracle::new();
                return None;
            }
            ["typedef", t] => {
                let id = tid(t);
                format!("{} {}", hex(id.canon.split_once(':').unwrap().1.as_bytes()), id.width.map_or("-".into(), |w| w.to_string()))
            }
            ["legacy", name, kind, kt, vt, n] => {
                let (k, v) = (tid(kt), tid(vt));
                let n: u64 = n.parse().unwrap();
                let info = TInfo {
                    multi: kind_of(kind),
                    k: (k.legacy.unwrap_or(k.canon), k.width),
                    v: (v.legacy.unwrap_or(v.canon), v.width),
                    rows: (0..n).map(|i| (i, fill_w(i), 0)).collect(),
                };
                self.committed.insert(name.to_string(), info.clone());
                self.staged.insert(name.to_string(), info);
                return None;
            }
            ["begin"] | ["reopen"] | ["drain"] | ["stat", ..] | ["rrelease"] => return None,
            ["rhold"] => {
                self.snapshot = self.committed.clone();
                return None;
            }
            ["open", slot, name, kind, kt, vt] => {
                let s: usize = slot.parse().unwrap();
                self.close_slot(s);
                if self.open.contains(*name) {
                    return Some("already-open".into());
                }
                let (multi, k, v) = (kind_of(kind), tid(kt), tid(vt));
                if let Some(t) = self.staged.get(*name) {
                    if let Err(e) = check_types(t, multi, &k, &v) {
                        return Some(e.into());
                    }
                } else {
                    self.staged.insert(name.to_string(), TInfo { multi, k: (k.canon, k.width), v: (v.canon, v.width), rows: BTreeSet::new() });
                }
                self.open.insert(name.to_string());
                self.slots[s] = Some(name.to_string());
                "ok".into()
            }
            ["drop", slot] => (if self.close_slot(slot.parse().unwrap()) { "ok" } else { "noslot" }).into(),
            ["put", slot, ..] | ["fill", slot, ..] | ["del", slot, ..] | ["len", slot] => {
                let s: usize = slot.parse().unwrap();
                let Some(name) = self.slots[s].clone() else { return Some("noslot".into()) };
                let t = self.staged.get_mut(&name).unwrap();
                let num = |x: &str| x.parse::<u64>().unwrap();
                match req {
                    ["put", _, i, w, l] => Self::put_row(t, num(i), num(w), num(l)),
                    ["fill", _, start, count, l] => {
                        let mut fresh = 0;
                        for i in num(start)..num(start) + num(count) {
                            let a = Self::put_row(t, i, fill_w(i), num(l));
                            fresh += u64::from(a == "none" || a == "new");
                        }
                        fresh.to_string()
                    }
                    ["del", _, i] => {
                        let i = num(i);
                        let old: Vec<Row> = t.rows.range((i, 0, 0)..=(i, u64::MAX, u64::MAX)).copied().collect();
                        for r in &old {
                            t.rows.remove(r);
                        }
                        if t.multi { old.len().to_string() } else { old.first().map_or("none".into(), |r| format!("{}:{}", r.1, r.2)) }
                    }
                    _ => t.rows.len().to_string(),
                }
            }
            ["rename", kind, a, b] => self.rename(kind_of(kind), a, b),
            ["renameh", slot, b] => {
                let s: usize = slot.parse().unwrap();
                let Some(name) = self.slots[s].clone() else { return Some("noslot".into()) };
                let multi = self.staged[&name].multi;
                self.close_slot(s);
                self.rename(multi, &name, b)
            }
            ["delete", kind, a] => self.delete(kind_of(kind), a),
            ["deleteh", slot] => {
                let s: usize = slot.parse().unwrap();
                let Some(name) = self.slots[s].clone() else { return Some("noslot".into()) };
                let multi = self.staged[&name].multi;
                self.close_slot(s);
                self.delete(multi, &name)
            }
            ["list", kind] => {
                let m = kind_of(kind);
                names_repr(self.staged.iter().filter(|e| e.1.multi == m).map(|e| e.0))
            }
            ["commit"] => {
                self.end_txn(true);
                "ok".into()
            }
            ["abort"] => {
                self.end_txn(false);
                "ok".into()
            }
            ["rlist" | "hlist", kind] => {
                let m = kind_of(kind);
                let cat = if req[0] == "hlist" { &self.snapshot } else { &self.committed };
                names_repr(cat.iter().filter(|e| e.1.multi == m).map(|e| e.0))
            }
            ["ropen" | "hopen", name, kind, kt, vt] => match (if req[0] == "hopen" { &self.snapshot } else { &self.committed }).get(*name) {
                None => "does-not-exist".into(),
                Some(t) => match check_types(t, kind_of(kind), &tid(kt), &tid(vt)) {
                    Err(e) => e.into(),
                    Ok(()) => format!("{} {:016x}", t.rows.len(), rows_hash(t.rows.iter())),
                },
            },
            ["ruopen", name, kind] => match self.committed.get(*name) {
                None => "does-not-exist".into(),
                Some(t) => match check_kind(t, kind_of(kind)) {
                    Err(e) => e.into(),
                    Ok(()) => t.rows.len().to_string(),
                },
            },
            _ => panic!("oracle: unknown request {req:?}"),
        })
    }
}

// ---------------------------------------------------------------------------------- executor

struct Exec {
    cfg: Cfg,
    backend: MemBackend,
    db: Option<Database>,
    /// a read transaction held across write transactions (snapshot isolation of the catalog)
    held: Option<ReadTransaction>,
    /// label -> (allocated pages, committed catalog at that moment)
    levels: BTreeMap<String, (u64, BTreeMap<String, TInfo>)>,
}

impl Exec {
    fn db(&mut self) -> &Database {
        if self.db.is_none() {
            self.db = Some(open_db(self.backend.clone(), &self.cfg).expect("open database"));
        }
        self.db.as_ref().unwrap()
    }
}

fn check(out: &mut Out, oracle: &mut Oracle, line: &str, got: &str) {
    let toks: Vec<&str> = line.split(' ').collect();
    out.count(&format!("op_{}", toks[0]));
    if let Some(want) = oracle.apply(&toks) {
        if got != want {
            out.oracle_fail(format!("catalog-op|{line}: implementation answered {got}, catalog oracle {want}"));
        }
        if TAGS.contains(&want.as_str()) {
            out.count(&format!("answer_{want}"));
        }
    }
    out.line(&format!("cat {line} => {got}"));
}

/// the operations of one write transaction, from the line after `begin` up to commit/abort
fn run_txn(ex: &mut Exec, prog: &[String], i: &mut usize, oracle: &mut Oracle, out: &mut Out) {
    let db = ex.db();
    let txn = db.begin_write().expect("begin_write");
    let commit = {
        let mut slots: Vec<Option<Box<dyn Handle + '_>>> = (0..NSLOTS).map(|_| None).collect();
        loop {
            if *i >= prog.len() {
                break false;
            }
            let line = prog[*i].as_str();
            let toks: Vec<&str> = line.split(' ').collect();
            let num = |x: &str| x.parse::<u64>().unwrap();
            let got: String = match toks.as_slice() {
                ["commit"] => break true,
                ["abort"] => break false,
                ["open", slot, name, kind, kt, vt] => {
                    let s: usize = slot.parse().unwrap();
                    slots[s] = None;
                    match with_pair!(*kt, *vt, open_w, &txn, name, kind_of(kind)) {
                        Ok(h) => {
                            slots[s] = Some(h);
                            "ok".into()
                        }
                        Err(e) => tag(&e),
                    }
                }
                ["drop", slot] => (if slots[num(slot) as usize].take().is_some() { "ok" } else { "noslot" }).into(),
                ["put", slot, a, w, l] => slots[num(slot) as usize].as_mut().map_or("noslot".into(), |h| h.put(num(a), num(w), num(l) as usize)),
                ["fill", slot, start, count, l] => slots[num(slot) as usize].as_mut().map_or("noslot".into(), |h| {
                    let mut fresh = 0;
                    for a in num(start)..num(start) + num(count) {
                        let r = h.put(a, fill_w(a), num(l) as usize);
                        if r.starts_with("err") {
                            return r;
                        }
                        fresh += u64::from(r == "none" || r == "new");
                    }
                    fresh.to_string()
                }),
                ["del", slot, a] => slots[num(slot) as usize].as_mut().map_or("noslot".into(), |h| h.del(num(a))),
                ["len", slot] => slots[num(slot) as usize].as_ref().map_or("noslot".into(), |h| h.len()),
                ["rename", kind, a, b] => {
                    let r = if kind_of(kind) {
                        txn.rename_multimap_table(MultimapTableDefinition::<(), ()>::new(a), MultimapTableDefinition::<(), ()>::new(b))
                    } else {
                        txn.rename_table(TableDefinition::<(), ()>::new(a), TableDefinition::<(), ()>::new(b))
                    };
                    r.map_or_else(|e| tag(&e), |()| "ok".into())
                }
                ["renameh", slot, b] => match slots[num(slot) as usize].take() {
                    Some(h) => h.rename_via(&txn, b).map_or_else(|e| tag(&e), |()| "ok".into()),
                    None => "noslot".into(),
                },
                ["delete", kind, a] => {
                    let r = if kind_of(kind) { txn.delete_multimap_table(MultimapTableDefinition::<(), ()>::new(a)) } else { txn.delete_table(TableDefinition::<(), ()>::new(a)) };
                    r.map_or_else(|e| tag(&e), |b| b.to_string())
                }
                ["deleteh", slot] => match slots[num(slot) as usize].take() {
                    Some(h) => h.delete_via(&txn).map_or_else(|e| tag(&e), |b| b.to_string()),
                    None => "noslot".into(),
                },
                ["list", kind] => {
                    let names: Vec<String> = if kind_of(kind) {
                        txn.list_multimap_tables().expect("list_multimap_tables").map(|h| redb::MultimapTableHandle::name(&h).to_string()).collect()
                    } else {
                        txn.list_tables().expect("list_tables").map(|h| redb::TableHandle::name(&h).to_string()).collect()
                    };
                    names_repr(names.iter())
                }
                other => panic!("unknown request inside a transaction: {other:?}"),
            };
            check(out, oracle, line, &got);
            *i += 1;
        }
    };
    if commit {
        txn.commit().expect("commit");
    } else {
        txn.abort().expect("abort");
    }
    if *i < prog.len() {
        check(out, oracle, &prog[*i], "ok");
        *i += 1;
    } else {
        oracle.end_txn(false);
    }
}

/// Runs a whole program on the real database and on the oracle; false if a panic was caught.
pub fn run_program(prog: &[String], out: &mut Out) -> bool {
    let mut ex = Exec { cfg: Cfg { page: 4096, region: 0, cache: 1 << 20 }, backend: MemBackend::fresh(), db: None, held: None, levels: BTreeMap::new() };
    let mut oracle = Oracle::new();
    let mut i = 0;
    let res = catch_unwind(AssertUnwindSafe(|| {
        while i < prog.len() {
            let line = prog[i].clone();
            let toks: Vec<&str> = line.split(' ').collect();
            i += 1;
            match toks.as_slice() {
                ["new", page, region, cache] => {
                    ex.held = None;
                    ex.db = None;
                    ex.cfg = Cfg { page: page.parse().unwrap(), region: region.parse().unwrap(), cache: cache.parse().unwrap() };
                    ex.backend = MemBackend::fresh();
                    ex.levels.clear();
                    oracle.apply(&toks);
                    out.line(&format!("cat {line}"));
                }
                ["typedef", t] => {
                    let (name, width) = with_type!(*t, typedef_of);
                    check(out, &mut oracle, &line, &format!("{} {}", hex(name.as_bytes()), width.map_or("-".into(), |w| w.to_string())));
                }
                ["legacy", name, kind, kt, vt, n] => {
                    ex.held = None;
                    ex.db = None;
                    legacy_create(ex.backend.data.clone(), name, kind_of(kind), kt, vt, n.parse().unwrap());
                    oracle.apply(&toks);
                    out.count("op_legacy");
                    out.line(&format!("cat {line}"));
                }
                ["reopen"] => {
                    ex.held = None;
                    ex.db = None;
                    ex.backend = MemBackend::new(ex.backend.data.clone());
                    ex.db();
                    out.line("cat reopen");
                }
                ["drain"] => {
                    ex.db().begin_write().expect("begin_write").commit().expect("commit");
                    out.line("cat drain");
                }
                ["stat", what, label] => {
                    let txn = ex.db().begin_write().expect("begin_write");
                    let pages = txn.stats().expect("stats").allocated_pages();
                    txn.abort().expect("abort");
                    out.count("op_stat");
                    if *what == "base" {
                        ex.levels.insert(label.to_string(), (pages, oracle.committed.clone()));
                    } else if let Some((base, cat)) = ex.levels.get(*label) {
                        if *cat == oracle.committed {
                            out.count("leak_checks");
                            out.add("leak_excess_pages_total", pages.saturating_sub(*base));
                            let e = out.counters.entry("leak_excess_pages_max".into()).or_insert(0);
                            *e = (*e).max(pages.saturating_sub(*base));
                            if pages > base + LEAK_TOLERANCE {
                                out.oracle_fail(format!(
                                    "catalog-leak|{line}: {pages} pages allocated after the deletes were committed and drained, {base} before the tables were created (same catalog, tolerance {LEAK_TOLERANCE})"
                                ));
                            }
                        } else {
                            out.count("leak_checks_skipped");
                        }
                    }
                    out.line(&format!("cat {line} => {pages}"));
                }
                ["begin"] => {
                    out.line("cat begin");
                    run_txn(&mut ex, prog, &mut i, &mut oracle, out);
                }
                ["rhold"] => {
                    ex.held = Some(ex.db().begin_read().expect("begin_read"));
                    oracle.apply(&toks);
                    out.count("op_rhold");
                    out.line("cat rhold");
                }
                ["rrelease"] => {
                    ex.held = None;
                    out.line("cat rrelease");
                }
                ["rlist" | "hlist", kind] => {
                    let fresh;
                    let rt = if toks[0] == "hlist" {
                        ex.held.as_ref().expect("hlist without rhold")
                    } else {
                        fresh = ex.db().begin_read().expect("begin_read");
                        &fresh
                    };
                    let names: Vec<String> = if kind_of(kind) {
                        rt.list_multimap_tables().expect("list").map(|h| redb::MultimapTableHandle::name(&h).to_string()).collect()
                    } else {
                        rt.list_tables().expect("list").map(|h| redb::TableHandle::name(&h).to_string()).collect()
                    };
                    check(out, &mut oracle, &line, &names_repr(names.iter()));
                }
                ["ropen" | "hopen", name, kind, kt, vt] => {
                    let fresh;
                    let rt = if toks[0] == "hopen" {
                        ex.held.as_ref().expect("hopen without rhold")
                    } else {
                        fresh = ex.db().begin_read().expect("begin_read");
                        &fresh
                    };
                    let got = match with_pair!(*kt, *vt, open_r, rt, name, kind_of(kind)) {
                        Ok((n, rows, exact)) => {
                            if n as usize != rows.len() {
                                out.oracle_fail(format!("catalog-len|{line}: len() = {n} but iteration yields {} entries", rows.len()));
                            }
                            if !exact {
                                out.oracle_fail(format!("catalog-bytes|{line}: an entry read back under the stored types does not re-encode to its own bytes"));
                            }
                            let cat = if toks[0] == "hopen" { &oracle.snapshot } else { &oracle.committed };
                            if let Some(t) = cat.get(*name) {
                                if !rows.iter().eq(t.rows.iter()) {
                                    out.oracle_fail(format!("catalog-contents|{line}: table contents differ from the oracle ({} vs {} rows)", rows.len(), t.rows.len()));
                                }
                            }
                            format!("{n} {:016x}", rows_hash(rows.iter()))
                        }
                        Err(e) => tag(&e),
                    };
                    check(out, &mut oracle, &line, &got);
                }
                ["ruopen", name, kind] => {
                    let rt = ex.db().begin_read().expect("begin_read");
                    let got = if kind_of(kind) {
                        rt.open_untyped_multimap_table(MultimapTableDefinition::<(), ()>::new(name)).map(|t| t.len().expect("len"))
                    } else {
                        rt.open_untyped_table(TableDefinition::<(), ()>::new(name)).map(|t| t.len().expect("len"))
                    };
                    check(out, &mut oracle, &line, &got.map_or_else(|e| tag(&e), |n| n.to_string()));
                }
                other => panic!("unknown program line {other:?}"),
            }
        }
    }));
    // closing can panic too when the allocator state has been corrupted
    if catch_unwind(AssertUnwindSafe(|| {
        drop(ex.held.take());
        drop(ex.db.take());
    }))
    .is_err()
    {
        out.oracle_fail(format!("catalog-panic|panic while closing the database (program of {} lines)", prog.len()));
        return false;
    }
    if let Err(p) = res {
        let msg = p.downcast_ref::<String>().cloned().or_else(|| p.downcast_ref::<&str>().map(|s| s.to_string())).unwrap_or_default();
        out.oracle_fail(format!("catalog-panic|panic at program line {i} ({}): {}", prog.get(i.saturating_sub(1)).cloned().unwrap_or_default(), msg.lines().next().unwrap_or("")));
        return false;
    }
    for x in ex.backend.mon.contract_violations.lock().unwrap().iter() {
        out.oracle_fail(format!("backend-contract|{x}"));
    }
    true
}

// ---------------------------------------------------------------------------------- generator

struct Gen<'a> {
    rng: &'a mut Rng,
    o: Oracle,
    prog: Vec<String>,
    next_label: u32,
}

impl Gen<'_> {
    fn push(&mut self, line: String) {
        let toks: Vec<&str> = line.split(' ').collect();
        self.o.apply(&toks);
        self.prog.push(line);
    }
    fn name(&mut self) -> &'static str {
        NAMES[self.rng.below(NAMES.len() as u64) as usize]
    }
    fn kind(&mut self) -> &'static str {
        if self.rng.chance(1, 3) { "multimap" } else { "normal" }
    }
    /// token pair whose stored identity equals the given one (first match in PAIRS), if any
    fn pair_of(t: &TInfo) -> Option<(&'static str, &'static str)> {
        PAIRS.iter().copied().find(|(k, v)| {
            let (a, b) = (tid(k), tid(v));
            check_types(t, t.multi, &a, &b).is_ok()
        })
    }
    /// a requested (kind, key, value): mostly what is stored under the name, otherwise a near miss or anything
    fn request(&mut self, name: &str) -> (&'static str, &'static str, &'static str) {
        let stored = self.o.staged.get(name).cloned();
        let any = *self.rng.pick(&PAIRS);
        match stored {
            Some(t) if self.rng.chance(3, 5) => {
                let p = Self::pair_of(&t).unwrap_or(any);
                (if t.multi { "multimap" } else { "normal" }, p.0, p.1)
            }
            Some(t) if self.rng.chance(1, 2) => {
                // same kind, another pair sharing the key or the value type where possible
                let p = Self::pair_of(&t).unwrap_or(any);
                let near: Vec<(&str, &str)> = PAIRS.iter().copied().filter(|q| *q != p && (q.0 == p.0 || q.1 == p.1 || tid(q.0).canon[1..] == tid(p.0).canon[1..] || tid(q.1).canon[1..] == tid(p.1).canon[1..])).collect();
                let q = if near.is_empty() { any } else { *self.rng.pick(&near) };
                (if t.multi { "multimap" } else { "normal" }, q.0, q.1)
            }
            _ => (self.kind(), any.0, any.1),
        }
    }
    fn live_slot(&mut self) -> Option<usize> {
        let live: Vec<usize> = (0..NSLOTS).filter(|s| self.o.slots[*s].is_some()).collect();
        if live.is_empty() { None } else { Some(*self.rng.pick(&live)) }
    }
    fn var_value(&self, slot: usize) -> bool {
        self.o.slots[slot].as_ref().is_some_and(|n| self.o.staged[n].v.1.is_none())
    }
    fn pad(&mut self, slot: usize, big: bool) -> u64 {
        if !self.var_value(slot) {
            0
        } else if big {
            self.rng.range(1500, 5000)
        } else {
            *self.rng.pick(&[0, 0, 3, 40, 300])
        }
    }
    fn txn_ops(&mut self, nops: u64) {
        self.push("begin".into());
        for _ in 0..nops {
            let w = self.rng.below(100);
            let line = match w {
                0..=27 => {
                    let n = self.name();
                    let (kind, kt, vt) = self.request(n);
                    // prefer a free slot; sometimes reuse an occupied one (which drops its handle first)
                    let free: Vec<usize> = (0..NSLOTS).filter(|s| self.o.slots[*s].is_none()).collect();
                    let s = if free.is_empty() || self.rng.chance(1, 6) { self.rng.below(NSLOTS as u64) as usize } else { *self.rng.pick(&free) };
                    format!("open {s} {n} {kind} {kt} {vt}")
                }
                28..=47 => match self.live_slot() {
                    Some(s) => {
                        // a few entries of more than half a page give two-level trees with
                        // single-entry leaves, where removals alone reshape the tree
                        let big = self.rng.chance(1, 4);
                        let l = self.pad(s, big);
                        format!("put {s} {} {} {l}", self.rng.below(if big { 8 } else { 40 }), self.rng.below(1 << 20))
                    }
                    None => continue,
                },
                48..=51 => match self.live_slot() {
                    Some(s) => {
                        let big = self.rng.chance(1, 3);
                        let l = self.pad(s, big);
                        let count = if big { self.rng.range(100, 400) } else { self.rng.range(2, 60) };
                        format!("fill {s} {} {count} {l}", self.rng.below(50))
                    }
                    None => continue,
                },
                52..=57 => match self.live_slot() {
                    Some(s) => format!("del {s} {}", if self.rng.chance(1, 2) { self.rng.below(8) } else { self.rng.below(40) }),
                    None => continue,
                },
                58..=60 => match self.live_slot() {
                    Some(s) => format!("len {s}"),
                    None => continue,
                },
                61..=70 => format!("drop {}", self.rng.below(NSLOTS as u64)),
                71..=80 => {
                    let (a, b) = (self.name(), if self.rng.chance(1, 8) { None } else { Some(self.name()) });
                    let kind = match self.o.staged.get(a) {
                        Some(t) if self.rng.chance(5, 6) => if t.multi { "multimap" } else { "normal" },
                        _ => self.kind(),
                    };
                    format!("rename {kind} {a} {}", b.unwrap_or(a))
                }
                81..=82 => match self.live_slot() {
                    Some(s) => format!("renameh {s} {}", self.name()),
                    None => continue,
                },
                83..=90 => {
                    let a = self.name();
                    let kind = match self.o.staged.get(a) {
                        Some(t) if self.rng.chance(5, 6) => if t.multi { "multimap" } else { "normal" },
                        _ => self.kind(),
                    };
                    format!("delete {kind} {a}")
                }
                91..=92 => match self.live_slot() {
                    Some(s) => format!("deleteh {s}"),
                    None => continue,
                },
                _ => format!("list {}", self.kind()),
            };
            self.push(line);
        }
        if self.rng.chance(1, 5) {
            self.push("abort".into());
        } else {
            self.push("commit".into());
        }
    }
    /// read-side checks after a transaction
    fn read_checks(&mut self) {
        self.push("rlist normal".into());
        self.push("rlist multimap".into());
        for name in NAMES {
            if let Some(t) = self.o.committed.get(name).cloned() {
                if let Some((k, v)) = Self::pair_of(&t) {
                    self.push(format!("ropen {name} {} {k} {v}", if t.multi { "multimap" } else { "normal" }));
                }
            }
        }
        for _ in 0..3 {
            let n = self.name();
            let saved = std::mem::replace(&mut self.o.staged, self.o.committed.clone());
            let (kind, kt, vt) = self.request(n);
            self.o.staged = saved;
            self.push(format!("ropen {n} {kind} {kt} {vt}"));
        }
        let n = self.name();
        let k = self.kind();
        self.push(format!("ruopen {n} {k}"));
    }
    fn held_checks(&mut self) {
        self.push("hlist normal".into());
        self.push("hlist multimap".into());
        for name in NAMES {
            if let Some(t) = self.o.snapshot.get(name).cloned() {
                if let Some((k, v)) = Self::pair_of(&t) {
                    self.push(format!("hopen {name} {} {k} {v}", if t.multi { "multimap" } else { "normal" }));
                }
            } else if self.o.committed.contains_key(name) {
                // created after the reader began: not visible to it
                self.push(format!("hopen {name} normal u64 u64"));
            }
        }
    }
    fn drain(&mut self) {
        for _ in 0..DRAIN_COMMITS {
            self.push("drain".into());
        }
    }
    /// create a big table under a free name, modify it, optionally rename it, delete it:
    /// the allocated page count must return to the level before
    fn leak_probe(&mut self) {
        let free: Vec<&str> = NAMES.iter().copied().filter(|n| !self.o.committed.contains_key(*n)).collect();
        if free.is_empty() {
            return;
        }
        let (a, b) = (*self.rng.pick(&free), *self.rng.pick(&free));
        let multi = self.rng.chance(1, 3);
        let kind = if multi { "multimap" } else { "normal" };
        let (kt, vt) = *self.rng.pick(&[("u64", "bytes"), ("str", "bytes"), ("u64", "tupv"), ("string", "string")]);
        let label = self.next_label;
        self.next_label += 1;
        self.drain();
        self.push(format!("stat base {label}"));
        self.push("begin".into());
        self.push(format!("open 0 {a} {kind} {kt} {vt}"));
        let pad = if multi { self.rng.range(100, 700) } else { self.rng.range(1500, 6000) };
        let count = self.rng.range(150, 500);
        self.push(format!("fill 0 0 {count} {pad}"));
        self.push("commit".into());
        if self.rng.chance(1, 2) {
            self.push("begin".into());
            self.push(format!("open 1 {a} {kind} {kt} {vt}"));
            self.push(format!("fill 1 {} 40 {pad}", count / 2));
            for i in 0..20 {
                self.push(format!("del 1 {}", i * 3));
            }
            if self.rng.chance(1, 2) {
                self.push(format!("renameh 1 {b}"));
            }
            self.push("commit".into());
        }
        let cur = if self.o.committed.contains_key(b) { b } else { a };
        self.push(format!("ropen {cur} {kind} {kt} {vt}"));
        self.push("begin".into());
        if self.rng.chance(1, 3) {
            // delete through the open handle, after touching the table in the same transaction
            self.push(format!("open 2 {cur} {kind} {kt} {vt}"));
            self.push(format!("fill 2 1000 30 {pad}"));
            self.push("deleteh 2".into());
        } else {
            self.push(format!("delete {kind} {cur}"));
        }
        self.push("commit".into());
        self.drain();
        self.push(format!("stat check {label}"));
    }
}

pub fn gen_program(rng: &mut Rng, thorough: bool, legacy: bool) -> Vec<String> {
    let page = if legacy { 4096 } else { *rng.pick(&[512usize, 1024, 4096, 4096]) };
    let region: u64 = if legacy { 0 } else { *rng.pick(&[0u64, 1 << 20, (page as u64 * 128).max(65536)]) };
    let cache = *rng.pick(&[0usize, 65536, 1 << 30]);
    let mut g = Gen { rng, o: Oracle::new(), prog: vec![], next_label: 1 };
    g.push(format!("new {page} {region} {cache}"));
    if legacy {
        let mut names: Vec<&str> = NAMES.to_vec();
        for _ in 0..g.rng.range(2, 5) {
            let n = names.remove(g.rng.below(names.len() as u64) as usize);
            let (kt, vt) = *g.rng.pick(&LEGACY_PAIRS);
            let kind = g.kind();
            let rows = g.rng.below(30);
            g.push(format!("legacy {n} {kind} {kt} {vt} {rows}"));
        }
        g.read_checks();
    } else {
        g.drain();
        g.push("stat base 0".into());
    }
    let txns = g.rng.range(2, if thorough { 10 } else { 6 });
    for _ in 0..txns {
        let nops = g.rng.range(4, if thorough { 60 } else { 30 });
        let hold = g.rng.chance(1, 4);
        if hold {
            g.push("rhold".into());
        }
        g.txn_ops(nops);
        if hold {
            // the held reader still sees the catalog and the contents as of its start
            g.held_checks();
            g.push("rrelease".into());
        }
        if g.rng.chance(1, 4) {
            g.push("reopen".into());
        }
        g.read_checks();
        if g.rng.chance(1, 6) {
            g.leak_probe();
        }
    }
    if !legacy {
        // delete everything: the allocated page count must return to that of the empty database
        g.push("begin".into());
        let all: Vec<(String, bool)> = g.o.committed.iter().map(|e| (e.0.clone(), e.1.multi)).collect();
        for (n, multi) in all {
            g.push(format!("delete {} {n}", if multi { "multimap" } else { "normal" }));
        }
        g.push("list normal".into());
        g.push("list multimap".into());
        g.push("commit".into());
        g.drain();
        g.push("stat check 0".into());
        g.push("rlist normal".into());
        g.push("rlist multimap".into());
    }
    g.prog
}

/// hand-written programs for the decision table: every (stored, requested) pair of types, both kinds
fn systematic(out: &mut Out) {
    // all type names and widths
    out.begin_case("typedefs");
    let prog: Vec<String> = std::iter::once("new 4096 0 1048576".to_string()).chain(TYPES.iter().map(|t| format!("typedef {t}"))).collect();
    let ok = run_program(&prog, out);
    out.end_case(ok);
    // stored pair x requested pair, on the write path and the read path
    for (si, stored) in PAIRS.iter().enumerate() {
        for skind in ["normal", "multimap"] {
            let mut prog = vec!["new 4096 0 1048576".to_string(), "begin".into()];
            prog.push(format!("open 0 a {skind} {} {}", stored.0, stored.1));
            prog.push("put 0 1 5 0".into());
            prog.push("open 1 a normal u64 u64".into()); // still open: already-open regardless of types
            prog.push("drop 0".into());
            for req in PAIRS {
                for rkind in ["normal", "multimap"] {
                    prog.push(format!("open 1 a {rkind} {} {}", req.0, req.1));
                    prog.push("drop 1".into());
                }
            }
            prog.push("commit".into());
            for req in PAIRS {
                prog.push(format!("ropen a {} {} {}", if si % 2 == 0 { "normal" } else { "multimap" }, req.0, req.1));
            }
            prog.push(format!("ropen a {skind} {} {}", stored.0, stored.1));
            prog.push("ruopen a normal".into());
            prog.push("ruopen a multimap".into());
            prog.push("ruopen b normal".into());
            out.begin_case(&format!("decision {skind} {} {}", stored.0, stored.1));
            let ok = run_program(&prog, out);
            out.end_case(ok);
            out.count("systematic_programs");
        }
    }
    // handles that only remove: a committed table (or multimap) of a few entries of more than half a
    // page each - a branch over single-entry leaves -, then a transaction whose handle removes some
    // of them and is dropped, the table opened again in the same transaction, commit, read back.
    // Every subset of three entries is removed, so every reshaping of the small tree occurs
    // (collapse onto an untouched leaf, onto the middle one, down to nothing)
    for skind in ["normal", "multimap"] {
        for mask in 1u32..8 {
            for pad in [2600u64, 1400] {
                let mut prog = vec!["new 4096 0 1048576".to_string(), "begin".into(), format!("open 0 a {skind} u64 bytes")];
                for k in 0..3 {
                    prog.push(format!("put 0 {k} {} {pad}", 100 + k));
                }
                prog.extend(["drop 0".to_string(), "commit".into(), "begin".into(), format!("open 0 a {skind} u64 bytes")]);
                for k in 0..3 {
                    if mask & (1 << k) != 0 {
                        prog.push(format!("del 0 {k}"));
                    }
                }
                prog.extend(["drop 0".to_string(), format!("open 0 a {skind} u64 bytes"), "len 0".into(), "drop 0".into(), "commit".into()]);
                prog.push(format!("ropen a {skind} u64 bytes"));
                prog.extend(["reopen".to_string(), format!("ropen a {skind} u64 bytes")]);
                out.begin_case(&format!("remove-only handle {skind} mask={mask} pad={pad}"));
                let ok = run_program(&prog, out);
                out.end_case(ok);
                out.count("systematic_programs");
            }
        }
    }
    // legacy spellings: every legacy pair x every requested pair
    for stored in LEGACY_PAIRS {
        for skind in ["normal", "multimap"] {
            let mut prog = vec!["new 4096 0 1048576".to_string(), format!("legacy a {skind} {} {} 5", stored.0, stored.1)];
            for req in PAIRS {
                prog.push(format!("ropen a {skind} {} {}", req.0, req.1));
            }
            prog.push("begin".into());
            for req in PAIRS {
                prog.push(format!("open 0 a {skind} {} {}", req.0, req.1));
                prog.push("drop 0".into());
            }
            prog.push("rename ".to_string() + skind + " a b");
            prog.push("commit".into());
            prog.push(format!("ropen b {skind} {} {}", stored.0, stored.1));
            out.begin_case(&format!("decision legacy {skind} {} {}", stored.0, stored.1));
            let ok = run_program(&prog, out);
            out.end_case(ok);
            out.count("systematic_programs");
        }
    }
}

pub fn run(args: &Args) {
    let mut out = Out::new(&args.out);
    if let Some(path) = &args.replay {
        let text = std::fs::read_to_string(path).expect("read replay");
        let prog: Vec<String> = text.lines().map(str::trim).filter(|l| l.starts_with("cat ")).map(|l| l[4..].split(" => ").next().unwrap().to_string()).collect();
        out.begin_case("replay");
        let ok = run_program(&prog, &mut out);
        out.end_case(ok);
        out.finish(&args.summary, &[]);
        return;
    }
    let mut rng = Rng::new(args.seed);
    out.comment(&format!("C17 catalog seed={} thorough={}", args.seed, args.thorough));
    systematic(&mut out);
    let programs = if args.thorough { 2500 } else { 250 };
    for n in 0..programs {
        let mut r = rng.fork();
        let legacy = n % 5 == 4;
        let p = gen_program(&mut r, args.thorough, legacy);
        out.begin_case(if legacy { "random legacy-file" } else { "random" });
        let ok = run_program(&p, &mut out);
        out.end_case(ok);
        out.count("random_programs");
    }
    out.finish(&args.summary, &[("leak_tolerance_pages", LEAK_TOLERANCE.to_string()), ("drain_commits", DRAIN_COMMITS.to_string())]);
}
