//! Committed-image snapshots for the Lean format decoder (C10 and the image half of C04/C09).
//! Sparse file format: b"RIMG" ‖ total_len u64 ‖ n u32 ‖ n × (offset u64 ‖ len u32 ‖ bytes);
//! everything not covered is zero.
use std::io::Write;
use std::sync::atomic::{AtomicU64, Ordering};

static COUNTER: AtomicU64 = AtomicU64::new(0);
/// harnesses switch image emission off for bulk systematic cases
pub static ENABLED: std::sync::atomic::AtomicBool = std::sync::atomic::AtomicBool::new(true);

pub fn image_dir() -> std::path::PathBuf {
    let d = std::env::var("VERIF_IMG_DIR").unwrap_or_else(|_| "/verif/.cache/img".to_string());
    let p = std::path::PathBuf::from(d);
    std::fs::create_dir_all(&p).ok();
    p
}

/// writes the image and returns its path
pub fn save(tag: &str, data: &[u8]) -> String {
    let n = COUNTER.fetch_add(1, Ordering::SeqCst);
    let path = image_dir().join(format!("{tag}_{n}.rimg"));
    const CH: usize = 512;
    let mut chunks: Vec<(u64, &[u8])> = vec![];
    let mut i = 0;
    while i < data.len() {
        let end = (i + CH).min(data.len());
        if data[i..end].iter().any(|b| *b != 0) {
            // extend a run of non-zero chunks
            let start = i;
            let mut e = end;
            while e < data.len() && data[e..(e + CH).min(data.len())].iter().any(|b| *b != 0) {
                e = (e + CH).min(data.len());
            }
            chunks.push((start as u64, &data[start..e]));
            i = e;
        } else {
            i = end;
        }
    }
    let mut f = std::io::BufWriter::new(std::fs::File::create(&path).expect("create image file"));
    f.write_all(b"RIMG").unwrap();
    f.write_all(&(data.len() as u64).to_le_bytes()).unwrap();
    f.write_all(&(chunks.len() as u32).to_le_bytes()).unwrap();
    for (off, b) in chunks {
        f.write_all(&off.to_le_bytes()).unwrap();
        f.write_all(&(b.len() as u32).to_le_bytes()).unwrap();
        f.write_all(b).unwrap();
    }
    f.flush().unwrap();
    path.to_string_lossy().into_owned()
}
