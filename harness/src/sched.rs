//! C03 / C16 (and the schedule parts of C02 / C20): forced schedules through the named pause
//! points compiled into redb under `cfg(redb_verif)`. One thread is parked at a pause point in the
//! middle of a call while a second thread runs a complete call (or is observed to block), then
//! the first is released. Every placement of one such preemption is enumerated for all ordered
//! pairs of calls; the semantic events (call begin/end, pause points passed, versions read,
//! commits completed) are written for the Lean interleaving monitor, and the serial-order /
//! snapshot properties are evaluated on the implementation here.
use crate::backend::MemBackend;
use crate::out::Out;
use crate::rng::Rng;
use crate::table::{err_tag, open_db, Cfg};
use crate::Args;
use redb::{Database, Durability, ReadableDatabase, ReadableTable, TableDefinition};
use std::sync::atomic::{AtomicU64, Ordering};
use std::sync::{Arc, Condvar, Mutex};
use std::time::Duration;

const V: TableDefinition<u64, u64> = TableDefinition::new("version");
const A: TableDefinition<u64, &[u8]> = TableDefinition::new("a");
const B: TableDefinition<u64, &[u8]> = TableDefinition::new("b");
const KEYS: u64 = 24;

/// contents of table a / b at a given version: a[k] and b[k] are derived from the version, so a
/// reader that sees a mixture of two commits, or an uncommitted state, is detected
fn val_a(version: u64, k: u64) -> Vec<u8> {
    let mut v = vec![(version % 251) as u8; 150 + (k as usize % 7) * 40];
    v[..8].copy_from_slice(&(version * 1000 + k).to_le_bytes());
    v
}
fn val_b(version: u64, k: u64) -> Vec<u8> {
    let mut v = vec![(version % 241) as u8; 90];
    v[..8].copy_from_slice(&(u64::MAX - (version * 1000 + k)).to_le_bytes());
    v
}

// ---------------------------------------------------------------------------------- controller

#[derive(Default)]
pub(crate) struct CtlState {
    /// (thread name, pause point, occurrence) to park at
    pub(crate) plan: Option<(String, String, usize)>,
    seen: usize,
    parked: bool,
    released: bool,
    /// every pause point passed: (thread, point)
    log: Vec<(String, String)>,
    pub(crate) points_of_first: Vec<String>,
}

pub(crate) struct Ctl {
    pub(crate) st: Mutex<CtlState>,
    cv: Condvar,
    /// the merged, ordered event list (semantic events and pause points passed)
    events: Arc<Mutex<Vec<String>>>,
}

fn thread_name() -> String {
    std::thread::current().name().unwrap_or("main").to_string()
}

impl Ctl {
    pub(crate) fn new() -> Arc<Self> {
        Arc::new(Ctl { st: Mutex::new(CtlState::default()), cv: Condvar::new(), events: Arc::new(Mutex::new(vec![])) })
    }
    pub(crate) fn hook(self: &Arc<Self>, point: &'static str) {
        let me = thread_name();
        let mut st = self.st.lock().unwrap();
        if me == "T1" || me == "T2" {
            st.log.push((me.clone(), point.to_string()));
            if !point.starts_with("backend.") {
                self.events.lock().unwrap().push(format!("{me} at {point}"));
            }
        }
        if me == "T1" {
            st.points_of_first.push(point.to_string());
        }
        let matches_plan = matches!(&st.plan, Some((t, p, _)) if *t == me && p == point);
        let hit = if matches_plan {
            st.seen += 1;
            let n = st.plan.as_ref().map_or(0, |x| x.2);
            st.seen == n
        } else {
            false
        };
        if hit {
            st.parked = true;
            self.cv.notify_all();
            let deadline = std::time::Instant::now() + Duration::from_secs(10);
            while !st.released {
                let left = deadline.saturating_duration_since(std::time::Instant::now());
                if left.is_zero() {
                    break;
                }
                st = self.cv.wait_timeout(st, left).unwrap().0;
            }
        }
    }
    pub(crate) fn wait_parked_or(&self, done: &dyn Fn() -> bool, timeout: Duration) -> bool {
        let deadline = std::time::Instant::now() + timeout;
        let mut st = self.st.lock().unwrap();
        loop {
            if st.parked {
                return true;
            }
            if done() {
                return false;
            }
            let left = deadline.saturating_duration_since(std::time::Instant::now());
            if left.is_zero() {
                return false;
            }
            st = self.cv.wait_timeout(st, Duration::from_millis(5).min(left)).unwrap().0;
        }
    }
    pub(crate) fn release(&self) {
        let mut st = self.st.lock().unwrap();
        st.released = true;
        self.cv.notify_all();
    }
}

// ---------------------------------------------------------------------------------- calls

#[derive(Clone, Copy, Debug, PartialEq)]
enum Call {
    Read,
    WriteNone,
    WriteImm,
    Write2pc,
    WriteQuick,
    Abort,
    SavepointCycle,
    DropReader,
}

const CALLS: &[Call] = &[Call::Read, Call::WriteNone, Call::WriteImm, Call::Write2pc, Call::WriteQuick, Call::Abort, Call::SavepointCycle, Call::DropReader];

struct Env<'a> {
    db: &'a Database,
    /// highest version whose commit() has returned
    completed: &'a AtomicU64,
    /// next version to write
    next_version: &'a AtomicU64,
    events: &'a Mutex<Vec<String>>,
    spare_reader: &'a Mutex<Option<(redb::ReadTransaction, u64)>>,
    /// readers of the Read calls, kept alive: re-read after the schedule and two further commits
    kept: &'a Mutex<Vec<(redb::ReadTransaction, u64, String)>>,
}

fn ev(env: &Env, s: String) {
    env.events.lock().unwrap().push(format!("{} {s}", thread_name()));
}

/// reads everything and returns (version, consistent?) ; panics inside are caught by the caller
fn read_snapshot(rt: &redb::ReadTransaction) -> Result<(u64, Option<String>), String> {
    let version = match rt.open_table(V) {
        Ok(t) => t.get(0u64).map_err(|e| format!("{e:?}"))?.map(|g| g.value()).unwrap_or(0),
        Err(redb::TableError::TableDoesNotExist(_)) => 0,
        Err(e) => return Err(format!("{e:?}")),
    };
    let mut bad = None;
    if version > 0 {
        let ta = rt.open_table(A).map_err(|e| format!("{e:?}"))?;
        let tb = rt.open_table(B).map_err(|e| format!("{e:?}"))?;
        let mut n = 0;
        for e in ta.iter().map_err(|e| format!("{e:?}"))? {
            let (k, v) = e.map_err(|e| format!("{e:?}"))?;
            if v.value() != val_a(version, k.value()).as_slice() {
                bad = Some(format!("table a key {} does not belong to version {version}", k.value()));
            }
            n += 1;
        }
        if n != KEYS {
            bad = Some(format!("table a has {n} entries at version {version}"));
        }
        for k in 0..KEYS {
            match tb.get(k).map_err(|e| format!("{e:?}"))? {
                Some(g) if g.value() == val_b(version, k).as_slice() => {}
                _ => bad = Some(format!("table b key {k} does not belong to version {version}")),
            }
        }
    }
    Ok((version, bad))
}

fn do_call(env: &Env, call: Call) -> String {
    match call {
        Call::Read => {
            let floor = env.completed.load(Ordering::SeqCst);
            ev(env, format!("read-begin floor={floor}"));
            match env.db.begin_read() {
                Ok(rt) => {
                    let r = read_snapshot(&rt);
                    // the snapshot must stay frozen: read again after a moment
                    let r2 = read_snapshot(&rt);
                    let ceiling = env.next_version.load(Ordering::SeqCst) - 1;
                    match (r, r2) {
                        (Ok((v, bad)), Ok((v2, bad2))) => {
                            ev(env, format!("read-end v={v} v2={v2} ceiling={ceiling} consistent={}", u8::from(bad.is_none() && bad2.is_none())));
                            if let Some(b) = bad.or(bad2) {
                                return format!("VIOLATION torn-read {b}");
                            }
                            if v != v2 {
                                return format!("VIOLATION snapshot-moved first read version {v}, second read {v2}");
                            }
                            if v < floor {
                                return format!("VIOLATION stale-read version {v} although commit {floor} had completed before begin_read was called");
                            }
                            env.kept.lock().unwrap().push((rt, v, thread_name()));
                            format!("ok v={v}")
                        }
                        (Err(e), _) | (_, Err(e)) => {
                            ev(env, format!("read-end error"));
                            format!("VIOLATION read-error {e}")
                        }
                    }
                }
                Err(e) => {
                    ev(env, "read-end error".into());
                    format!("err:{}", err_tag(e))
                }
            }
        }
        Call::DropReader => {
            let r = env.spare_reader.lock().unwrap().take();
            match r {
                Some((rt, expect)) => {
                    // it must still show the version it was begun at
                    let got = read_snapshot(&rt);
                    ev(env, format!("drop-reader pinned={expect}"));
                    drop(rt);
                    match got {
                        Ok((v, None)) if v == expect => "ok".into(),
                        Ok((v, bad)) => format!("VIOLATION pinned-reader-changed expected version {expect}, got {v} {bad:?}"),
                        Err(e) => format!("VIOLATION pinned-reader-error {e}"),
                    }
                }
                None => "none".into(),
            }
        }
        Call::WriteNone | Call::WriteImm | Call::Write2pc | Call::WriteQuick | Call::Abort => {
            ev(env, "write-begin".into());
            let mut txn = match env.db.begin_write() {
                Ok(t) => t,
                Err(e) => {
                    ev(env, "write-end error".into());
                    return format!("err:{}", err_tag(e));
                }
            };
            let version = env.next_version.fetch_add(1, Ordering::SeqCst);
            ev(env, format!("write-started version={version}"));
            match call {
                Call::WriteNone => {
                    let _ = txn.set_durability(Durability::None);
                }
                Call::Write2pc => txn.set_two_phase_commit(true),
                Call::WriteQuick => txn.set_quick_repair(true),
                _ => {}
            }
            let body = (|| -> Result<(), String> {
                let mut tv = txn.open_table(V).map_err(|e| format!("{e:?}"))?;
                tv.insert(0u64, version).map_err(|e| format!("{e:?}"))?;
                drop(tv);
                let mut ta = txn.open_table(A).map_err(|e| format!("{e:?}"))?;
                let mut tb = txn.open_table(B).map_err(|e| format!("{e:?}"))?;
                for k in 0..KEYS {
                    ta.insert(k, val_a(version, k).as_slice()).map_err(|e| format!("{e:?}"))?;
                    tb.insert(k, val_b(version, k).as_slice()).map_err(|e| format!("{e:?}"))?;
                }
                Ok(())
            })();
            if let Err(e) = body {
                ev(env, "write-end error".into());
                return format!("VIOLATION write-body-error {e}");
            }
            if call == Call::Abort {
                let r = txn.abort();
                ev(env, format!("write-end aborted version={version}"));
                return r.map(|_| "ok".to_string()).unwrap_or_else(|e| format!("VIOLATION abort-error {e:?}"));
            }
            match txn.commit() {
                Ok(()) => {
                    env.completed.fetch_max(version, Ordering::SeqCst);
                    ev(env, format!("write-end committed version={version}"));
                    "ok".into()
                }
                Err(e) => {
                    ev(env, "write-end error".into());
                    format!("VIOLATION commit-error {e:?}")
                }
            }
        }
        Call::SavepointCycle => {
            ev(env, "write-begin".into());
            let txn = match env.db.begin_write() {
                Ok(t) => t,
                Err(e) => {
                    ev(env, "write-end error".into());
                    return format!("err:{}", err_tag(e));
                }
            };
            let sp = txn.ephemeral_savepoint();
            let r = txn.commit();
            ev(env, "write-end no-change".into());
            drop(sp);
            r.map(|_| "ok".to_string()).unwrap_or_else(|e| format!("VIOLATION commit-error {e:?}"))
        }
    }
}

/// whether the commit a schedule starts from is durable (set by `run` for every schedule)
static BASE_DURABLE: std::sync::atomic::AtomicBool = std::sync::atomic::AtomicBool::new(false);

/// runs `first` on thread T1 parked at (point, nth) while `second` runs on T2; returns the event
/// list, results, and the pause points T1 passed
fn run_schedule(cfg: &Cfg, first: Call, second: Call, park: Option<(&str, usize)>, out: &mut Out) -> Vec<String> {
    let ctl = Ctl::new();
    let backend = MemBackend::fresh();
    let db = open_db(backend.clone(), cfg).expect("create");
    let completed = AtomicU64::new(0);
    let next_version = AtomicU64::new(1);
    let events_arc = ctl.events.clone();
    let events: &Mutex<Vec<String>> = &events_arc;
    let spare: Mutex<Option<(redb::ReadTransaction, u64)>> = Mutex::new(None);
    let kept: Mutex<Vec<(redb::ReadTransaction, u64, String)>> = Mutex::new(vec![]);
    // a committed base state and a live reader pinned to it, then a second commit
    {
        let env = Env { db: &db, completed: &completed, next_version: &next_version, events, spare_reader: &spare, kept: &kept };
        let _ = do_call(&env, Call::WriteImm);
        let rt = db.begin_read().unwrap();
        *spare.lock().unwrap() = Some((rt, 1));
        // the commit the schedule starts from is non-durable or durable in turn: a reader that
        // registers on it is tracked differently in the two cases
        let durable = BASE_DURABLE.load(Ordering::SeqCst);
        out.count(if durable { "schedules_on_durable_base" } else { "schedules_on_non_durable_base" });
        let _ = do_call(&env, if durable { Call::WriteImm } else { Call::WriteNone });
    }
    events.lock().unwrap().clear();
    if let Some((p, n)) = park {
        ctl.st.lock().unwrap().plan = Some(("T1".into(), p.to_string(), n));
    }
    let c2 = ctl.clone();
    redb::verif::verif_set_pause_hook(Some(Arc::new(move |p| c2.hook(p))));
    let (r1, r2, second_blocked) = std::thread::scope(|s| {
        let env1 = Env { db: &db, completed: &completed, next_version: &next_version, events, spare_reader: &spare, kept: &kept };
        let env2 = Env { db: &db, completed: &completed, next_version: &next_version, events, spare_reader: &spare, kept: &kept };
        let done1 = Arc::new(std::sync::atomic::AtomicBool::new(false));
        let d1 = done1.clone();
        let h1 = std::thread::Builder::new().name("T1".into()).spawn_scoped(s, move || {
            let r = std::panic::catch_unwind(std::panic::AssertUnwindSafe(|| do_call(&env1, first))).unwrap_or_else(|_| "VIOLATION panic in first call".into());
            d1.store(true, Ordering::SeqCst);
            r
        }).unwrap();
        let parked = ctl.wait_parked_or(&|| done1.load(Ordering::SeqCst), Duration::from_secs(2));
        let mut second_blocked = false;
        let done2 = Arc::new(std::sync::atomic::AtomicBool::new(false));
        let d2 = done2.clone();
        let h2 = std::thread::Builder::new().name("T2".into()).spawn_scoped(s, move || {
            let r = std::panic::catch_unwind(std::panic::AssertUnwindSafe(|| do_call(&env2, second))).unwrap_or_else(|_| "VIOLATION panic in second call".into());
            d2.store(true, Ordering::SeqCst);
            r
        }).unwrap();
        if parked {
            // give the second call time to finish; if it cannot (it needs what T1 holds), note it
            let deadline = std::time::Instant::now() + Duration::from_millis(120);
            while !done2.load(Ordering::SeqCst) && std::time::Instant::now() < deadline {
                std::thread::sleep(Duration::from_millis(2));
            }
            second_blocked = !done2.load(Ordering::SeqCst);
            events.lock().unwrap().push(format!("ctl release second-blocked={}", u8::from(second_blocked)));
        }
        ctl.release();
        let r1 = h1.join().unwrap_or_else(|_| "VIOLATION first thread died".into());
        let r2 = h2.join().unwrap_or_else(|_| "VIOLATION second thread died".into());
        (r1, r2, second_blocked)
    });
    let desc = format!("first={first:?} second={second:?} park={}", park.map_or("none".to_string(), |(p, n)| format!("{p}#{n}")));
    // the readers of the schedule stay frozen while later transactions reuse whatever was freed:
    // two follow-up commits from this thread (not part of the event stream), then every reader
    // kept by a Read call is read again and dropped on a thread carrying its caller's name, so
    // that the drop is the last event of that call
    if !kept.lock().unwrap().is_empty() {
        let scratch: Mutex<Vec<String>> = Mutex::new(vec![]);
        let env = Env { db: &db, completed: &completed, next_version: &next_version, events: &scratch, spare_reader: &spare, kept: &kept };
        // first a run of non-durable commits (they reclaim what earlier non-durable commits freed
        // without a durable commit in between), after which the readers are consulted once
        let r = std::panic::catch_unwind(std::panic::AssertUnwindSafe(|| (0..4).map(|_| do_call(&env, Call::WriteNone)).collect::<Vec<_>>()));
        match r {
            Ok(v) if v.iter().all(|x| !x.starts_with("VIOLATION")) => {}
            other => out.oracle_fail(format!("schedule|{desc}: non-durable follow-up commits after the schedule failed: {other:?}")),
        }
        for (rt, expect, _) in kept.lock().unwrap().iter() {
            let r = std::panic::catch_unwind(std::panic::AssertUnwindSafe(|| read_snapshot(rt)));
            match r {
                Ok(Ok((v, None))) if v == *expect => {}
                other => out.oracle_fail(format!("schedule|{desc}: a reader of the schedule that saw version {expect} shows {other:?} after four later non-durable commits")),
            }
        }
        let r = std::panic::catch_unwind(std::panic::AssertUnwindSafe(|| {
            // a non-durable and a durable commit
            let a = do_call(&env, Call::WriteNone);
            let b = do_call(&env, Call::WriteImm);
            (a, b)
        }));
        match r {
            Ok((a, b)) if !a.starts_with("VIOLATION") && !b.starts_with("VIOLATION") => {}
            other => out.oracle_fail(format!("schedule|{desc}: follow-up commits after the schedule failed: {other:?}")),
        }
        let readers: Vec<_> = kept.lock().unwrap().drain(..).collect();
        for (rt, expect, owner) in readers {
            let r = std::panic::catch_unwind(std::panic::AssertUnwindSafe(|| read_snapshot(&rt)));
            match r {
                Ok(Ok((v, None))) if v == expect => {}
                other => out.oracle_fail(format!("schedule|{desc}: a reader of the schedule that saw version {expect} shows {other:?} after two later commits")),
            }
            out.count("kept_readers_reread");
            std::thread::scope(|s| {
                let _ = std::thread::Builder::new().name(owner).spawn_scoped(s, move || drop(rt)).unwrap().join();
            });
        }
    }
    redb::verif::verif_set_pause_hook(None);
    let evs = std::mem::take(&mut *events.lock().unwrap());
    let log = std::mem::take(&mut ctl.st.lock().unwrap().log);
    let points = std::mem::take(&mut ctl.st.lock().unwrap().points_of_first);
    out.line(&format!("sch begin {desc}"));
    for e in &evs {
        out.line(&format!("sch ev {e}"));
    }
    let _ = log;
    out.line(&format!("sch end first={} second={} blocked={}", r1.replace(' ', "_"), r2.replace(' ', "_"), u8::from(second_blocked)));
    for (who, r) in [("first", &r1), ("second", &r2)] {
        if r.starts_with("VIOLATION") {
            out.oracle_fail(format!("schedule|{desc}: {who} call: {r}"));
        }
    }
    // final state: a fresh reader sees the last completed version, and the snapshot accounting holds
    let tail = std::panic::catch_unwind(std::panic::AssertUnwindSafe(|| {
        let mut fails: Vec<String> = vec![];
        let fin = db.begin_read().map_err(|e| format!("{e:?}")).and_then(|rt| read_snapshot(&rt));
        match fin {
            Ok((v, None)) => {
                let c = completed.load(Ordering::SeqCst);
                if v != c {
                    fails.push(format!("schedule|{desc}: after both calls the database shows version {v} but the last completed commit is {c}"));
                }
            }
            other => fails.push(format!("schedule|{desc}: final read failed: {other:?}")),
        }
        if let Some((rt, expect)) = spare.lock().unwrap().take() {
            match read_snapshot(&rt) {
                Ok((v, None)) if v == expect => {}
                other => fails.push(format!("schedule|{desc}: the reader pinned at version {expect} shows {other:?} at the end")),
            }
        }
        fails
    }));
    match tail {
        Ok(fails) => fails.into_iter().for_each(|f| out.oracle_fail(f)),
        Err(_) => out.oracle_fail(format!("schedule|{desc}: panic while reading the final state")),
    }
    if std::panic::catch_unwind(std::panic::AssertUnwindSafe(move || drop(db))).is_err() {
        out.oracle_fail(format!("schedule|{desc}: panic while dropping the Database"));
    }
    for x in backend.mon.contract_violations.lock().unwrap().iter() {
        out.oracle_fail(format!("backend-contract|{desc}: {x}"));
    }
    out.count("schedules");
    out.count("evaluations");
    points
}

pub fn run(args: &Args) {
    let mut out = Out::new(&args.out);
    let mut rng = Rng::new(args.seed ^ 0xC03);
    out.comment(&format!("C03 sched seed={} thorough={}", args.seed, args.thorough));
    let cfg = Cfg { page: 512, region: 65536, cache: if args.seed % 2 == 0 { 0 } else { 1 << 20 } };
    let focus = args.extra.iter().position(|a| a == "--focus").and_then(|i| args.extra.get(i + 1)).cloned();
    let mut nth_schedule = 0u64;
    for first in CALLS {
        // discover the pause points the first call passes (no preemption)
        BASE_DURABLE.store(false, Ordering::SeqCst);
        out.begin_case(&format!("first={first:?}"));
        let points = run_schedule(&cfg, *first, Call::Read, None, &mut out);
        let mut occ: std::collections::BTreeMap<String, usize> = std::collections::BTreeMap::new();
        let mut placements: Vec<(String, usize)> = vec![];
        for p in &points {
            let n = occ.entry(p.clone()).or_insert(0);
            *n += 1;
            // backend calls are numerous: sample their occurrences
            if p.starts_with("backend.") && !(args.thorough || *n <= 2 || rng.chance(1, 12)) {
                continue;
            }
            placements.push((p.clone(), *n));
        }
        for second in CALLS {
            // `--focus c02`: only the schedules in which a reader races with another call
            let reader = |c: &Call| matches!(c, Call::Read | Call::DropReader);
            if focus.as_deref() == Some("c02") && !reader(first) && !reader(second) {
                continue;
            }
            for (p, n) in &placements {
                // quick: the base commit is non-durable or durable in turn (which of the two a given
                // schedule gets depends on the seed), the schedules of a parked reader on both; thorough: every schedule on both
                let bases: Vec<bool> = if args.thorough || matches!(first, Call::Read) { vec![false, true] } else { vec![(nth_schedule + args.seed) % 2 == 1] };
                nth_schedule += 1;
                for durable in bases {
                    BASE_DURABLE.store(durable, Ordering::SeqCst);
                    run_schedule(&cfg, *first, *second, Some((p.as_str(), *n)), &mut out);
                }
            }
        }
        out.end_case(true);
    }
    out.finish(&args.summary, &[]);
}
