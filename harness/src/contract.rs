//! C20: the storage backend is used according to its contract. The monitoring backend
//! (`backend.rs`) already checks bounds, close count and calls-after-close in every other
//! harness run; this module adds the situations that those runs do not reach: every failing
//! open (bad magic, bad geometry, truncated / extended file, aborted repair, an injected error at
//! each call of the open path), read-only databases (never write / resize / sync; refuse unclean
//! files), a Database dropped while a write transaction is live, read transactions that outlive
//! the Database. The call stream of every scenario is written for the Lean contract automaton.
use crate::backend::MemBackend;
use crate::history::{gen_history, read_all, Step, World};
use crate::out::Out;
use crate::rng::Rng;
use crate::table::{err_tag, open_db, Cfg};
use crate::Args;
use redb::{Builder, ReadableDatabase, ReadableTable, TableDefinition};
use std::panic::{catch_unwind, AssertUnwindSafe};
use std::sync::atomic::Ordering;
use std::sync::{Arc, Mutex};

const T0: TableDefinition<u64, &[u8]> = TableDefinition::new("t0");

/// emits the call stream and evaluates the contract on it (S)
fn finish_scenario(out: &mut Out, name: &str, b: &MemBackend, expect_close: bool, read_only: bool) {
    let calls = std::mem::take(&mut *b.mon.call_log.lock().unwrap());
    // the automaton input: initial length is not known to the automaton, so `len` answers are not
    // modelled; bounds are checked by the backend itself against the real length
    out.line(&format!("bk begin {name} ro={}", u8::from(read_only)));
    let mut compact: Vec<String> = vec![];
    for c in &calls {
        compact.push(c.clone());
    }
    // keep lines bounded: the stream is summarised as counts of consecutive non-close calls
    let mut i = 0;
    while i < compact.len() {
        let mut j = i;
        let kind = |s: &str| s.split(':').next().unwrap().to_string();
        while j < compact.len() && kind(&compact[j]) == kind(&compact[i]) && kind(&compact[i]) != "close" {
            j += 1;
        }
        if j == i {
            out.line(&format!("bk call {}", compact[i]));
            i += 1;
        } else {
            out.line(&format!("bk calls {} {}", kind(&compact[i]), j - i));
            i = j;
        }
    }
    let closes = b.mon.closes.load(Ordering::SeqCst);
    out.line(&format!("bk end closes={closes} expect={}", u8::from(expect_close)));
    for x in b.mon.contract_violations.lock().unwrap().iter() {
        out.oracle_fail(format!("backend-contract|{name}: {x}"));
    }
    if expect_close && closes != 1 {
        out.oracle_fail(format!("backend-contract|close-count|{name}: close() called {closes} times, expected exactly once"));
    }
    out.count("scenarios");
    out.count("evaluations");
}

fn new_backend(image: &[u8]) -> MemBackend {
    let b = MemBackend::new(Arc::new(Mutex::new(image.to_vec())));
    b.mon.record_calls.store(true, Ordering::SeqCst);
    b
}

fn scenario<F: FnOnce(&MemBackend) -> String>(out: &mut Out, name: &str, image: &[u8], read_only: bool, f: F) {
    let b = new_backend(image);
    b.mon.read_only.store(read_only, Ordering::SeqCst);
    let r = catch_unwind(AssertUnwindSafe(|| f(&b)));
    match r {
        Ok(res) => out.line(&format!("bk scenario {name} => {res}")),
        Err(p) => {
            let msg = p.downcast_ref::<String>().cloned().or_else(|| p.downcast_ref::<&str>().map(|s| s.to_string())).unwrap_or_default();
            out.oracle_fail(format!("contract-panic|{name}: panic: {}", msg.lines().next().unwrap_or("")));
        }
    }
    finish_scenario(out, name, &b, true, read_only);
}

pub fn run(args: &Args) {
    let mut out = Out::new(&args.out);
    let mut rng = Rng::new(args.seed ^ 0xC20);
    out.comment(&format!("C20 contract seed={} thorough={}", args.seed, args.thorough));
    let bases = if args.thorough { 12 } else { 3 };
    for _ in 0..bases {
        let mut r = rng.fork();
        let page = *r.pick(&[512usize, 1024]);
        let cfg = Cfg { page, region: 65536.max(page as u64 * 64), cache: *r.pick(&[0usize, 65536]) };
        out.begin_case(&format!("contract base page={page} cache={}", cfg.cache));
        // a base database with some history: clean image and an unclean one (no shutdown)
        let mut scratch = Out::new("/dev/null");
        let mut w = World::new(Cfg { page: cfg.page, region: cfg.region, cache: cfg.cache }, "c20");
        w.backend.mon.record_calls.store(true, Ordering::SeqCst);
        let mut steps = gen_history(&mut r, "c20", false, page);
        steps.retain(|s| !matches!(s, Step::CrashReopen));
        steps.truncate(10);
        for s in &steps {
            if !w.run_step(s, &mut scratch) {
                break;
            }
        }
        for f in &scratch.oracle_failures {
            out.oracle_fail(format!("contract-base|{f}"));
        }
        let unclean = w.backend.snapshot();
        let first = w.backend.clone();
        w.readers.clear();
        w.sps.clear();
        w.db = None;
        finish_scenario(&mut out, "history-then-drop", &first, true, false);
        let clean = first.snapshot();
        drop(w);

        // --- read-only databases
        scenario(&mut out, "readonly-clean", &clean, true, |b| {
            match redb::ReadOnlyDatabase::verif_open_with_backend(b.clone(), cfg.page, Some(cfg.region), cfg.cache) {
                Ok(db) => {
                    let rt = db.begin_read().unwrap();
                    let m = read_all(&rt).map(|m| m.digest()).unwrap_or_else(|e| e);
                    drop(rt);
                    drop(db);
                    format!("ok:{m}")
                }
                Err(e) => format!("err:{}", err_tag(e)),
            }
        });
        scenario(&mut out, "readonly-unclean", &unclean, true, |b| {
            match redb::ReadOnlyDatabase::verif_open_with_backend(b.clone(), cfg.page, Some(cfg.region), cfg.cache) {
                Ok(_) => "ok".into(),
                Err(e) => format!("err:{}", err_tag(e)),
            }
        });

        // --- read-only opens of files whose length does not match the stored layout (extended by
        // a copy tool, cut off): whatever the answer, nothing may be written, resized or synced,
        // and the open must not panic
        for (name, delta) in [("readonly-extended-1page", cfg.page as i64), ("readonly-extended-odd", 777), ("readonly-extended-region", cfg.region as i64), ("readonly-truncated-1page", -(cfg.page as i64)), ("readonly-truncated-half", -((clean.len() / 2) as i64))] {
            let mut img = clean.clone();
            if delta >= 0 {
                img.extend(std::iter::repeat(0u8).take(delta as usize));
            } else {
                img.truncate((img.len() as i64 + delta).max(0) as usize);
            }
            scenario(&mut out, name, &img, true, |b| {
                match redb::ReadOnlyDatabase::verif_open_with_backend(b.clone(), cfg.page, Some(cfg.region), cfg.cache) {
                    Ok(db) => {
                        let r = db.begin_read().map_err(|e| format!("{e:?}")).and_then(|rt| read_all(&rt)).map(|m| m.digest()).unwrap_or_else(|e| e.chars().take(40).collect());
                        format!("ok:{r}")
                    }
                    Err(e) => format!("err:{}", err_tag(e)),
                }
            });
        }
        // --- failing opens
        let mut bad_magic = clean.clone();
        bad_magic[3] ^= 0xff;
        scenario(&mut out, "open-bad-magic", &bad_magic, false, |b| open_db(b.clone(), &cfg).map(|_| "ok".to_string()).unwrap_or_else(|e| format!("err:{}", err_tag(e))));
        let other = Cfg { page: cfg.page * 2, region: cfg.region, cache: cfg.cache };
        scenario(&mut out, "open-bad-geometry", &clean, false, |b| open_db(b.clone(), &other).map(|_| "ok".to_string()).unwrap_or_else(|e| format!("err:{}", err_tag(e))));
        for (name, len) in [("open-truncated-half", clean.len() / 2), ("open-truncated-100", 100), ("open-truncated-1page", cfg.page), ("open-truncated-minus1", clean.len() - 1)] {
            scenario(&mut out, name, &clean[..len], false, |b| open_db(b.clone(), &cfg).map(|_| "ok".to_string()).unwrap_or_else(|e| format!("err:{}", err_tag(e))));
        }
        for (name, extra) in [("open-extended-1page", cfg.page), ("open-extended-odd", 777), ("open-extended-region", cfg.region as usize)] {
            let mut img = clean.clone();
            img.extend(std::iter::repeat(0u8).take(extra));
            scenario(&mut out, name, &img, false, |b| open_db(b.clone(), &cfg).map(|_| "ok".to_string()).unwrap_or_else(|e| format!("err:{}", err_tag(e))));
        }
        scenario(&mut out, "open-repair-aborted", &unclean, false, |b| {
            let mut builder = Builder::new();
            builder.verif_set_page_size(cfg.page);
            builder.verif_set_region_size(cfg.region);
            builder.set_cache_size(cfg.cache);
            builder.set_repair_callback(|s| s.abort());
            builder.create_with_backend(b.clone()).map(|_| "ok".to_string()).unwrap_or_else(|e| format!("err:{}", err_tag(e)))
        });
        // an injected I/O error at each call of the open path (clean and unclean image)
        for (label, image) in [("clean", &clean), ("unclean", &unclean)] {
            let probe = new_backend(image);
            let n = {
                let _ = open_db(probe.clone(), &cfg).map(|db| drop(db));
                probe.mon.calls.load(Ordering::SeqCst)
            };
            let stride = if args.thorough { 1 } else { (n / 60).max(1) };
            let mut k = 1;
            while k <= n {
                for permanent in [true, false] {
                    let b = new_backend(image);
                    b.mon.fail_at.store(k, Ordering::SeqCst);
                    b.mon.fail_permanent.store(permanent, Ordering::SeqCst);
                    let res = catch_unwind(AssertUnwindSafe(|| match open_db(b.clone(), &cfg) {
                        Ok(db) => {
                            // the failure may have hit after the open completed (shutdown path)
                            let r = db.begin_read().map(|rt| read_all(&rt).is_ok()).unwrap_or(false);
                            drop(db);
                            format!("ok:{}", u8::from(r))
                        }
                        Err(e) => format!("err:{}", err_tag(e)),
                    }));
                    let name = format!("open-io-error-{label}-k{k}-{}", if permanent { "perm" } else { "once" });
                    match res {
                        Ok(res) => out.line(&format!("bk scenario {name} => {res}")),
                        Err(_) => out.oracle_fail(format!("contract-panic|{name}: panic during a failing open")),
                    }
                    finish_scenario(&mut out, &name, &b, true, false);
                }
                k += stride;
            }
        }

        // --- Database dropped while a write transaction is live
        for end in ["commit", "abort", "drop"] {
            scenario(&mut out, &format!("drop-db-with-live-write-{end}"), &clean, false, |b| {
                let db = open_db(b.clone(), &cfg).unwrap();
                let txn = db.begin_write().unwrap();
                {
                    let mut t = txn.open_table(T0).unwrap();
                    t.insert(7777, &[1u8; 100][..]).unwrap();
                }
                drop(db);
                let closes_mid = b.mon.closes.load(Ordering::SeqCst);
                {
                    let mut t = txn.open_table(T0).unwrap();
                    t.insert(7778, &[2u8; 2000][..]).unwrap();
                }
                let r = match end {
                    "commit" => txn.commit().map(|_| "ok".to_string()).unwrap_or_else(|e| format!("err:{}", err_tag(e))),
                    "abort" => txn.abort().map(|_| "ok".to_string()).unwrap_or_else(|e| format!("err:{}", err_tag(e))),
                    _ => {
                        drop(txn);
                        "ok".into()
                    }
                };
                format!("{r}:closes-while-txn-live={closes_mid}")
            });
        }
        // --- a read transaction (and an owned iterator) outliving the Database
        scenario(&mut out, "reader-outlives-db", &clean, false, |b| {
            let db = open_db(b.clone(), &cfg).unwrap();
            let rt = db.begin_read().unwrap();
            let table = rt.open_table(T0);
            drop(db);
            let after = match &table {
                Ok(t) => match t.get(1u64) {
                    Ok(_) => "served".to_string(),
                    Err(e) => format!("err:{}", err_tag(e)),
                },
                Err(e) => format!("err:{}", err_tag(e)),
            };
            let again = rt.open_table(T0).map(|_| "served".to_string()).unwrap_or_else(|e| format!("err:{}", err_tag(e)));
            format!("{after}/{again}")
        });
        // --- the backend's own close() reports an error: it was still called, and must not be called again
        for variant in ["drop", "reader-outlives", "deferred-to-writer", "failing-open"] {
            scenario(&mut out, &format!("close-fails-{variant}"), if variant == "failing-open" { &bad_magic } else { &clean }, false, |b| {
                b.mon.fail_close.store(true, Ordering::SeqCst);
                match variant {
                    "drop" => {
                        let db = open_db(b.clone(), &cfg).unwrap();
                        drop(db);
                        "dropped".into()
                    }
                    "reader-outlives" => {
                        let db = open_db(b.clone(), &cfg).unwrap();
                        let rt = db.begin_read().unwrap();
                        drop(db);
                        let r = read_all(&rt).map(|_| "served".to_string()).unwrap_or_else(|e| format!("err:{}", e.split(['(', ' ', '{']).next().unwrap_or("")));
                        drop(rt);
                        r
                    }
                    "deferred-to-writer" => {
                        let db = open_db(b.clone(), &cfg).unwrap();
                        let txn = db.begin_write().unwrap();
                        drop(db);
                        let r = txn.commit().map(|_| "ok".to_string()).unwrap_or_else(|e| format!("err:{}", err_tag(e)));
                        r
                    }
                    _ => open_db(b.clone(), &cfg).map(|_| "ok".to_string()).unwrap_or_else(|e| format!("err:{}", err_tag(e))),
                }
            });
        }
        // --- a reader's backend call in flight while the Database is dropped (forced schedules):
        // the reader is parked between the latch test and the backend call, at each of its backend
        // reads, while another thread drops the Database
        close_race(&mut out, &clean, &cfg, args.thorough);
        out.end_case(true);
    }
    out.finish(&args.summary, &[]);
}

/// Forced schedules for "never touches the backend after calling close()": thread T1 reads
/// every table through a read transaction and is parked at the n-th occurrence of each backend
/// pause point it passes (`backend.read`, `backend.write_best_effort`, ... - after the
/// closed-latch test, before the call into the backend) while T2 drops the Database. Whatever the
/// order the two threads are then released in, the backend must see no call after - or
/// overlapping - its close().
///
/// The state the Database is in when it is dropped matters (what the close has to flush decides
/// which locks it takes before it reaches the backend), so each variant is built from scratch:
///  * `clean`      - a reader on a cleanly committed database, cache 0 (every page is read from the backend)
///  * `buffered`   - small cache, committed pages of non-durable commits still in the write buffer:
///                   the reader evicts them with best-effort writes under cache pressure
///  * `needs-repair` - as `buffered`, after a write transaction was abandoned by a panic: the close
///                   neither commits nor flushes
fn close_race(out: &mut Out, clean: &[u8], cfg: &Cfg, thorough: bool) {
    use std::time::Duration;
    #[derive(Clone, Copy, PartialEq, Debug)]
    enum Variant {
        Clean,
        Buffered,
        NeedsRepair,
    }
    let build = |v: Variant| -> (MemBackend, redb::Database) {
        match v {
            Variant::Clean => {
                let b = new_backend(clean);
                let db = open_db(b.clone(), &Cfg { page: cfg.page, region: cfg.region, cache: 0 }).unwrap();
                (b, db)
            }
            Variant::Buffered | Variant::NeedsRepair => {
                let b = new_backend(&[]);
                let small = Cfg { page: cfg.page, region: cfg.region, cache: cfg.page * 24 };
                let db = open_db(b.clone(), &small).unwrap();
                let big = vec![7u8; cfg.page / 2];
                {
                    let txn = db.begin_write().unwrap();
                    {
                        let mut t = txn.open_table(T0).unwrap();
                        for k in 0..40u64 {
                            t.insert(k, &big[..]).unwrap();
                        }
                    }
                    txn.commit().unwrap();
                }
                for round in 0..3u64 {
                    let mut txn = db.begin_write().unwrap();
                    txn.set_durability(redb::Durability::None).unwrap();
                    {
                        let mut t = txn.open_table(T0).unwrap();
                        for k in 0..30u64 {
                            t.insert(1000 + round * 100 + k, &big[..]).unwrap();
                        }
                    }
                    txn.commit().unwrap();
                }
                if v == Variant::NeedsRepair {
                    let _ = catch_unwind(AssertUnwindSafe(|| {
                        let txn = db.begin_write().unwrap();
                        let mut t = txn.open_table(T0).unwrap();
                        t.insert(1, &big[..]).unwrap();
                        panic!("abandon the write transaction");
                    }));
                }
                (b, db)
            }
        }
    };
    for variant in [Variant::Clean, Variant::Buffered, Variant::NeedsRepair] {
        // the backend pause points a full scan passes in this variant
        let points: Vec<String> = {
            let ctl = crate::sched::Ctl::new();
            let c2 = ctl.clone();
            let (_b, db) = build(variant);
            let rt = db.begin_read().unwrap();
            redb::verif::verif_set_pause_hook(Some(Arc::new(move |p| c2.hook(p))));
            std::thread::scope(|s| {
                std::thread::Builder::new().name("T1".into()).spawn_scoped(s, || { let _ = read_all(&rt); }).unwrap().join().ok();
            });
            redb::verif::verif_set_pause_hook(None);
            drop(rt);
            drop(db);
            let p = ctl.st.lock().unwrap().points_of_first.iter().filter(|p| p.starts_with("backend.")).cloned().collect();
            p
        };
        let mut occ: std::collections::BTreeMap<String, usize> = Default::default();
        let mut placements: Vec<(String, usize)> = vec![];
        for p in &points {
            let n = occ.entry(p.clone()).or_insert(0);
            *n += 1;
            placements.push((p.clone(), *n));
        }
        for (p, n) in occ.iter() {
            out.add(&format!("close_race_{variant:?}_{p}"), *n as u64);
        }
        // quick: about a dozen placements per pause point kind, always including the first and last
        let mut chosen: Vec<(String, usize)> = vec![];
        for (kind, total) in occ.iter() {
            let stride = if thorough { 1 } else { (*total / 12).max(1) };
            let mut k = 1;
            while k <= *total {
                chosen.push((kind.clone(), k));
                k += stride;
            }
            if !chosen.contains(&(kind.clone(), *total)) {
                chosen.push((kind.clone(), *total));
            }
        }
        let _ = placements;
        for (point, k) in chosen {
            let ctl = crate::sched::Ctl::new();
            ctl.st.lock().unwrap().plan = Some(("T1".into(), point.clone(), k));
            let c2 = ctl.clone();
            let (b, db) = build(variant);
            let rt = db.begin_read().unwrap();
            redb::verif::verif_set_pause_hook(Some(Arc::new(move |p| c2.hook(p))));
            let name = format!("close-race-{variant:?}-{}-{k}of{}", point.trim_start_matches("backend."), occ[&point]);
            let (res, blocked) = std::thread::scope(|s| {
                let done1 = Arc::new(std::sync::atomic::AtomicBool::new(false));
                let d1 = done1.clone();
                let rt = &rt;
                let h1 = std::thread::Builder::new().name("T1".into()).spawn_scoped(s, move || {
                    let r = catch_unwind(AssertUnwindSafe(|| read_all(rt).map(|m| m.digest())));
                    d1.store(true, Ordering::SeqCst);
                    r
                }).unwrap();
                let parked = ctl.wait_parked_or(&|| done1.load(Ordering::SeqCst), Duration::from_secs(2));
                let done2 = Arc::new(std::sync::atomic::AtomicBool::new(false));
                let d2 = done2.clone();
                let h2 = std::thread::Builder::new().name("T2".into()).spawn_scoped(s, move || {
                    let r = catch_unwind(AssertUnwindSafe(move || drop(db)));
                    d2.store(true, Ordering::SeqCst);
                    r.is_ok()
                }).unwrap();
                let deadline = std::time::Instant::now() + Duration::from_millis(150);
                while parked && !done2.load(Ordering::SeqCst) && std::time::Instant::now() < deadline {
                    std::thread::sleep(Duration::from_millis(1));
                }
                let blocked = parked && !done2.load(Ordering::SeqCst);
                ctl.release();
                let r1 = h1.join();
                let drop_ok = h2.join().unwrap_or(false);
                let res = match r1 {
                    Ok(Ok(Ok(d))) => format!("served:{d}"),
                    Ok(Ok(Err(e))) => format!("err:{}", e.split(['(', ' ', '{']).next().unwrap_or("")),
                    _ => "panic".to_string(),
                };
                (format!("{res}:parked={}:drop-ok={}", u8::from(parked), u8::from(drop_ok)), blocked)
            });
            redb::verif::verif_set_pause_hook(None);
            drop(rt);
            out.line(&format!("bk scenario {name} => {res}:close-waited={}", u8::from(blocked)));
            if res.starts_with("panic") || res.contains("drop-ok=0") {
                out.oracle_fail(format!("contract-panic|{name}: panic in a reader racing with the close, or in the close itself ({res})"));
            }
            out.count("close_race_schedules");
            finish_scenario(out, &name, &b, true, false);
        }
    }
}
