#!/bin/sh
# Builds the framework from files on disk only (offline).
set -e
cd "$(dirname "$0")"
export CARGO_NET_OFFLINE=true
(cd lean && lake build RedbModel driver)
for h in harness harness-cursor; do
  [ -f $h/Cargo.lock ] || cp /repo/Cargo.lock $h/Cargo.lock
  (cd $h && cargo build --offline)
done
