#!/bin/sh
# Builds the framework from files on disk only (offline).
set -e
cd "$(dirname "$0")"
export CARGO_NET_OFFLINE=true
(cd lean && lake build RedbModel driver)
[ -f harness/Cargo.lock ] || cp /repo/Cargo.lock harness/Cargo.lock
(cd harness && cargo build --offline)
