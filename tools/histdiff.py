#!/usr/bin/env python3
"""debug helper: explain hist DIFF lines (owner of the page before/after, pins that contain it)"""
import sys, re, subprocess
ops=sys.argv[1]
lines=[l.rstrip("\n") for l in open(ops) if not l.startswith("#") and l.strip()]
out=subprocess.run(["/verif/lean/.lake/build/bin/driver"],stdin=open(ops),capture_output=True,text=True).stdout.splitlines()
def pr(s):
    r=set()
    if s=="-": return r
    for part in s.split(","):
        if "-" in part:
            a,b=part.split("-"); r.update(range(int(a),int(b)+1))
        else: r.add(int(part))
    return r
def parse(l):
    d=dict(t.split("=",1) for t in l.split()[2:])
    st={k:pr(d[k]) for k in ("alloc","data","sys","dsys")}
    for k in ("dfreed","sfreed"):
        st[k]={}
        if d[k]!="-":
            for rec in d[k].split(";"):
                t,r=rec.split(":"); st[k][int(t)]=pr(r)
    st["pins"]=[]
    if d["pins"]!="-":
        for rec in d["pins"].split(";"):
            i,k,r=rec.split(":"); st["pins"].append((int(i),k,pr(r)))
    st["id"]=int(d["id"]); st["dur"]=int(d["dur"]); st["live"]=d["live"]
    return st
def owner(st,p):
    o=[]
    if p in st["data"]: o.append("data")
    if p in st["sys"]: o.append("sys")
    for k in ("dfreed","sfreed"):
        for t,r in st[k].items():
            if p in r: o.append(f"{k}[{t}]")
    return o or ["free"]
prev=None; prevstep=None; shown=0
for l,o in zip(lines,out):
    if l.startswith("hist cfg"): prev=None
    if l.startswith("hist step"): prevstep=l
    if l.startswith("hist state"):
        st=parse(l)
        if o.startswith("DIFF step") and prev:
            p=int(re.search(r"page (\d+)",o).group(1))
            print("STEP:",prevstep[:200])
            print(f"  page {p}: before {owner(prev,p)} (id={prev['id']} dur={prev['dur']} live={prev['live']})  after {owner(st,p)} (id={st['id']} dur={st['dur']} live={st['live']})")
            print("  pins before containing p:",[(i,k) for i,k,r in prev["pins"] if p in r], " in dsys before:",p in prev["dsys"])
            print("  pins after containing p:",[(i,k) for i,k,r in st["pins"] if p in r], " in dsys after:",p in st["dsys"])
            shown+=1
            if shown>=int(sys.argv[2]) if len(sys.argv)>2 else 8: break
        prev=st
