#!/bin/bash
# run checks against a seeded change: tools/test_seed.sh C07-a C07 [C06 ...]
# applies seeded/<id>/patch.diff to /repo, runs ./check <prop> --tier quick for each, restores /repo
id=$1; shift
cd /verif
if [ -n "$(git -C /repo status --porcelain --untracked-files=no)" ]; then echo "/repo is not clean"; exit 2; fi
git -C /repo apply /verif/seeded/$id/patch.diff || exit 2
mkdir -p .cache/seedruns
for p in "$@"; do
  ./check $p --tier ${TIER:-quick} > .cache/seedruns/$id.$p.log 2>&1
  echo "$id $p exit=$? $(grep -c '^VIOLATION' .cache/seedruns/$id.$p.log) violation line(s)"
  grep '^VIOLATION' .cache/seedruns/$id.$p.log | head -3
done
git -C /repo checkout -- .
# evidence files were rewritten by the runs above: restore the committed ones
git -C /verif checkout -- evidence 2>/dev/null
