#!/bin/bash
# run every registered quick (or $TIER) check with the given seeds; one summary line per run
# usage: tools/sweep.sh "2 3" [C01 C02 ...]
cd "$(dirname "$0")/.."; seeds=$1; shift
props=${@:-$(python3 -c "import json;print(' '.join(c['property_id'] for c in json.load(open('MANIFEST.json'))['checks']))")}
mkdir -p .cache/sweep
for s in $seeds; do for p in $props; do
  ./check $p --tier ${TIER:-quick} --seed $s > .cache/sweep/$p.$s.log 2>&1; rc=$?
  echo "seed=$s $p rc=$rc $(tail -1 .cache/sweep/$p.$s.log | cut -c1-200)"
done; done
git checkout -- evidence 2>/dev/null
