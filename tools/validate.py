#!/usr/bin/env python3
"""validate MANIFEST.json and every evidence file against the schemas in /root/.vp (run with python3-vt)"""
import json, glob, sys
import jsonschema
ok = True
try:
    jsonschema.validate(json.load(open('/verif/MANIFEST.json')), json.load(open('/root/.vp/MANIFEST.schema.json')))
    print("MANIFEST ok")
except Exception as e:
    ok = False; print("MANIFEST INVALID:", str(e)[:300])
sch = json.load(open('/root/.vp/EVIDENCE.schema.json'))
man = json.load(open('/verif/MANIFEST.json'))
for c in man['checks']:
    f = c['evidence_file']
    try:
        jsonschema.validate(json.load(open(f)), sch)
    except Exception as e:
        ok = False; print(f, "INVALID:", str(e)[:300])
print("evidence files:", len(man['checks']), "ok" if ok else "PROBLEMS")
sys.exit(0 if ok else 1)
