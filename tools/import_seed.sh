#!/bin/bash
# import a seeded change from a scratch worktree: tools/import_seed.sh /tmp/seed/Cxx-a C07-a
# copies patch.diff, demo/, the agent's own description, runs confirm_seed.sh, copies confirm.log
w=$1; id=$2; dst=/verif/seeded/$id
mkdir -p $dst/demo
( cd $w && git diff -- src > SEED/patch.diff )
cp $w/SEED/patch.diff $dst/patch.diff
cp -r $w/SEED/demo/. $dst/demo/ 2>/dev/null
find $w -name "seeded_demo*.rs" -not -path "$w/target*" -not -path "$w/SEED/*" -exec cp {} $dst/demo/ \; 2>/dev/null
cp $w/SEED/meta.md $dst/agent_meta.md 2>/dev/null
/verif/tools/confirm_seed.sh $w > /dev/null 2>&1
cp $w/SEED/confirm.log $dst/confirm.log
echo imported $id; cat $dst/confirm.log
