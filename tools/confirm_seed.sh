#!/bin/bash
# confirm a seeded change in its scratch worktree: (1) existing suite passes with the change
# (only demo tests may fail), (2) demo fails with the change, (3) demo passes without it.
# usage: confirm_seed.sh /tmp/seed/Cxx-a  -> writes <dir>/SEED/confirm.log
d=$1; cd $d || exit 2
export CARGO_NET_OFFLINE=true CARGO_TARGET_DIR=$d/target
log=$d/SEED/confirm.log; : > $log
demo=$(find . -name "seeded_demo*.rs" -not -path "./target*" -not -path "./SEED/*" | head -1)
demoname=$(basename ${demo%.rs})
# a demo that needs small pages / regions uses the cfg(redb_verif) setters: run it with the flag
# (separate target directory, removed afterwards); the suite itself always runs with the guard off
demoflags=""; demotarget=$d/target
if grep -q redb_verif $demo; then demoflags="--cfg redb_verif"; demotarget=$d/target-verif; echo "(demo is run with RUSTFLAGS=--cfg redb_verif)" >> $log; fi
rundemo() { RUSTFLAGS="$demoflags" CARGO_TARGET_DIR=$demotarget cargo nextest run --workspace --exclude redb-bench-compare -E "binary($demoname)" --no-fail-fast --offline 2>&1 | grep -E "Summary|FAIL \[|PASS \[" | sort -u >> $log; }
echo "== with change: full suite" >> $log
cargo nextest run --workspace --exclude redb-bench-compare --no-fail-fast --test-threads 8 --offline 2>&1 | grep -E "Summary|FAIL \[" | sort -u >> $log
echo "== with change: demo only" >> $log
rundemo
git diff -- src > $d/SEED/.confirm.patch; git checkout -- src
echo "== without change: demo only" >> $log
rundemo
git apply $d/SEED/.confirm.patch && rm -f $d/SEED/.confirm.patch
git diff --stat -- src >> $log
[ "$demotarget" != "$d/target" ] && rm -rf $demotarget
cat $log
