#!/usr/bin/env python3
"""Regenerates /verif/MANIFEST.json from checks/registry.py (claimed properties) and
checks/manifest_meta.py (texts)."""
import json, os, sys, subprocess
ROOT = os.path.dirname(os.path.dirname(os.path.abspath(__file__)))
sys.path.insert(0, os.path.join(ROOT, "checks"))
from registry import PROPS
from manifest_meta import CLAIMED, NOT_YET, HOOK_COMMITS, NOTES

ids = [json.loads(l)["id"] for l in open(os.path.join(ROOT, "properties.jsonl"))]
checks, na = [], []
for pid in ids:
    if pid in CLAIMED and pid in PROPS:
        m = CLAIMED[pid]
        checks.append({
            "property_id": pid,
            "quick_cmd": f"./check {pid} --tier quick",
            "thorough_cmd": f"./check {pid} --tier thorough",
            "evidence_file": f"/verif/evidence/{pid}.json",
            "replay_cmd_template": f"./check {pid} --replay {{path}}",
            "engine": "lean-proof+correspondence",
            "level_claimed": {"category": m.get("category", "proof"), "text": m["text"], "design_ref": m.get("design_ref", "DESIGN.md §6")},
            "level_note": m["note"],
            "technique": m["technique"],
        })
    else:
        na.append({"property_id": pid, "reason": NOT_YET.get(pid, "check not built yet in this round; planned, see DESIGN.md §6/§9")})
man = {
    "version": 1,
    "setup_cmd": "./setup.sh",
    "hooks": {
        "guard": "--cfg redb_verif",
        "enable": "harness/.cargo/config.toml sets build.rustflags = [\"--cfg\", \"redb_verif\"]; redb is a path dependency on /repo",
        "baseline_off_cmd": "cd /repo && cargo nextest run --workspace --no-fail-fast --test-threads 8 --offline || (cd /repo && cargo test --workspace --no-fail-fast --offline)",
        "source_commits": HOOK_COMMITS,
        "add_only": True,
    },
    "engines": [
        {"name": "lean-proof+correspondence", "path": "/verif/check", "serves_properties": [c["property_id"] for c in checks],
         "kind_free_text": "Lean 4 theorems about hand-written executable models (lean/RedbModel), tied to /repo by a differential correspondence run (harness/ drives the real code in-process; lean driver executes the model on the same lines) plus implementation-only oracles for counter-example search"},
    ],
    "checks": checks,
    "notes": NOTES,
    "not_applicable": na,
}
json.dump(man, open(os.path.join(ROOT, "MANIFEST.json"), "w"), indent=1)
print(f"MANIFEST.json: {len(checks)} checks, {len(na)} not_applicable")
